// Package vrt is the deterministic runtime under which instrumented slock code is executed.
//
// Exactly one thread (a real goroutine parked on its own wake channel) runs at a time; control moves only
// at points (mutex/atomic/channel/net/fs/sleep operations). Time is virtual (discrete event). Wherever more
// than one thread could run next the runtime asks the explorer's Chooser; everything else is deterministic,
// so an execution is identified by its sequence of choices.
package vrt

import (
	"fmt"
	"os"
	"path/filepath"
	"runtime"
	"runtime/debug"
	"sort"
)

// Kind classifies a scheduling point; coarse mode only treats some kinds as choice points.
type Kind uint8

const (
	KMutex Kind = iota
	KAtomic
	KChan
	KSleep
	KSpawn
	KNet  // network read/write/accept/dial: coarse choice point
	KFS   // file-system mutation
	KAPI  // explicit yield placed by a harness: coarse choice point
	KExit // thread exit / block: always a (free) choice
)

// ChoiceInfo describes one choice offered to the explorer.
type ChoiceInfo struct {
	N       int  // number of alternatives (>= 2)
	Preempt bool // alternatives > 0 switch away from a thread that could continue (cost 1); otherwise free
	Kind    Kind
	Sel     bool // this is a select-case / environment choice rather than a thread choice
}

type Chooser func(ci ChoiceInfo) int

type killT struct{}

type Thread struct {
	ID     int
	Name   string
	Group  string
	wake   chan struct{}
	ready  func() bool // nil => runnable
	done   bool
	killed bool
	idle   bool     // waiting for quiescence of everything else
	vc     []uint32 // vector clock (Options.HB)
}

type timer struct {
	at   int64
	seq  int64
	fire func()
	dead bool
}

// Crash is a panic that escaped a thread of the program under test.
type Crash struct {
	Thread string
	Group  string
	Value  string
	Stack  string
}

type Options struct {
	Choose    Chooser
	Fine      bool  // every point is a potential preemption; otherwise only KNet/KAPI points and blocking
	MaxPoints int64 // 0 => default
	SelChoice bool  // branch on which ready select case fires
	TraceSync bool
	StartNow  int64 // initial virtual time (ns since Base)
	HB        bool  // track happens-before and check instrumented map accesses (see hb.go)
}

type RT struct {
	opt      Options
	threads  []*Thread
	cur      *Thread
	now      int64 // virtual ns since Base
	timers   []*timer
	seq      int64
	killing  bool
	explore  bool
	nextID   int
	nDone    int
	finished chan struct{}
	exited   chan struct{}
	ended    bool

	Points     int64
	Switches   int64
	Choices    int64
	Crash      *Crash
	Deadlock   string
	Diverged   bool
	SyncTrace  []string
	Log        []string // free-form observations appended by harnesses (deterministic)
	hooks      map[string][]func()
	Locals     map[string]interface{} // per-execution scratch for shims (vnet, vos)
	addrClocks map[uintptr]*SyncClock
	maps       map[uintptr]*mapState
	mapRace    string
}

var R *RT

// Base is the virtual epoch (seconds aligned).
const Base int64 = 1700000000 * 1e9

const defaultMaxPoints = 50_000_000

// Run executes root under a fresh runtime and tears every thread down afterwards.
func Run(opt Options, root func()) *RT {
	if opt.MaxPoints == 0 {
		opt.MaxPoints = defaultMaxPoints
	}
	if hbAll {
		opt.HB = true
	}
	rt := &RT{now: opt.StartNow, opt: opt, finished: make(chan struct{}, 1), exited: make(chan struct{}, 4096), hooks: map[string][]func(){}, Locals: map[string]interface{}{}}
	if R != nil {
		panic("vrt: nested Run")
	}
	R = rt
	for _, f := range onRun {
		f(rt)
	}
	t := rt.newThread("root")
	rt.cur = t
	go rt.threadMain(t, root, true)
	t.wake <- struct{}{}
	<-rt.finished
	rt.killAll()
	R = nil
	if hbAll && rt.mapRace != "" {
		fmt.Fprintln(os.Stderr, "MAPRACE:", rt.mapRace)
	}
	return rt
}

// VERIF_HB_ALL: experiment switch, turns the happens-before map check on for every execution and prints reports.
var hbAll = os.Getenv("VERIF_HB_ALL") != ""

var onRun []func(*RT)

// OnRun registers a per-execution initialiser (used by shims to reset their state).
func OnRun(f func(*RT)) { onRun = append(onRun, f) }

func (rt *RT) newThread(name string) *Thread {
	t := &Thread{ID: rt.nextID, Name: name, wake: make(chan struct{}, 1)}
	rt.nextID++
	if rt.cur != nil {
		t.Group = rt.cur.Group
	}
	rt.threads = append(rt.threads, t)
	return t
}

func (rt *RT) finish() {
	if !rt.ended {
		rt.ended = true
		rt.finished <- struct{}{}
	}
}

func (rt *RT) threadMain(t *Thread, f func(), isRoot bool) {
	<-t.wake
	defer func() {
		r := recover()
		t.done = true
		rt.nDone++
		if rt.killing {
			rt.exited <- struct{}{}
			return
		}
		if r != nil {
			if _, ok := r.(killT); !ok {
				if rt.Crash == nil {
					rt.Crash = &Crash{Thread: fmt.Sprintf("T%d %s", t.ID, t.Name), Group: t.Group, Value: fmt.Sprint(r), Stack: string(debug.Stack())}
				}
				rt.finish()
				return
			}
		}
		if isRoot {
			rt.finish()
			return
		}
		rt.schedule(nil, KExit)
	}()
	if rt.killing || t.killed {
		panic(killT{})
	}
	f()
}

func (rt *RT) killAll() {
	rt.killing = true
	for _, t := range rt.threads {
		if !t.done {
			t.wake <- struct{}{}
			<-rt.exited
		}
	}
}

func (rt *RT) spawn(name string, f func()) {
	if rt.killing || rt.cur.killed {
		return
	}
	t := rt.newThread(name)
	if rt.hbOn() {
		// the child starts with what its creator knew
		rt.cur.tick()
		t.vc = append([]uint32{}, rt.cur.vc...)
	}
	go rt.threadMain(t, f, false)
	rt.Point(KSpawn)
}

// Killing reports whether the calling code is being unwound (world teardown or group kill).
func (rt *RT) Killing() bool { return rt.killing || (rt.cur != nil && rt.cur.killed) }

// Point is a scheduling point for the running thread.
func (rt *RT) Point(k Kind) {
	if rt.killing || rt.cur.killed {
		return
	}
	rt.Points++
	if rt.Points > rt.opt.MaxPoints {
		rt.Diverged = true
		rt.finish()
		rt.parkForever()
	}
	if !rt.explore {
		return // default choice: the running thread continues
	}
	if rt.opt.TraceSync {
		_, f1, l1, _ := runtime.Caller(2)
		_, f2, l2, _ := runtime.Caller(3)
		_, f3, l3, _ := runtime.Caller(4)
		rt.SyncTrace = append(rt.SyncTrace, fmt.Sprintf("T%d(%s) %s:%d <- %s:%d <- %s:%d", rt.cur.ID, rt.cur.Name, filepath.Base(f1), l1, filepath.Base(f2), l2, filepath.Base(f3), l3))
	}
	if !rt.opt.Fine && k != KNet && k != KAPI {
		return
	}
	rt.schedule(rt.cur, k)
}

func (rt *RT) parkForever() {
	self := rt.cur
	<-self.wake
	panic(killT{})
}

// Block parks the running thread until ready() holds.
func (rt *RT) Block(ready func() bool) {
	if rt.killing || rt.cur.killed {
		panic(killT{})
	}
	for !ready() {
		self := rt.cur
		self.ready = ready
		rt.schedule(self, KExit)
		self.ready = nil
	}
}

func (t *Thread) runnable() bool {
	return !t.done && !t.idle && (t.killed || t.ready == nil || t.ready())
}

func (rt *RT) enabled(self *Thread) (en []*Thread, selfFirst bool) {
	if rt.nDone > 32 && rt.nDone*2 > len(rt.threads) {
		// forget finished threads (order of the live ones is kept): long virtual-time runs spawn one
		// short-lived thread per sweeper tick
		live := rt.threads[:0:0]
		for _, t := range rt.threads {
			if !t.done {
				live = append(live, t)
			}
		}
		rt.threads = live
		rt.nDone = 0
	}
	if self != nil && self.runnable() {
		en = append(en, self)
		selfFirst = true
	}
	for _, t := range rt.threads {
		if t == self {
			continue
		}
		if t.runnable() {
			en = append(en, t)
		}
	}
	return
}

func (rt *RT) schedule(self *Thread, k Kind) {
	for {
		en, selfFirst := rt.enabled(self)
		if len(en) == 0 {
			// quiescent at this instant: wake an idle waiter first, else advance time
			woke := false
			for _, t := range rt.threads {
				if t.idle && !t.done {
					t.idle = false
					woke = true
					break
				}
			}
			if woke {
				continue
			}
			if !rt.advance() {
				rt.Deadlock = rt.describeBlocked()
				rt.finish()
				if self == nil || self.done {
					return
				}
				rt.parkForever()
			}
			continue
		}
		idx := 0
		if len(en) > 1 && rt.explore && rt.opt.Choose != nil {
			rt.Choices++
			idx = rt.opt.Choose(ChoiceInfo{N: len(en), Preempt: selfFirst, Kind: k})
			if idx < 0 || idx >= len(en) {
				panic(fmt.Sprintf("vrt: choice %d out of range %d", idx, len(en)))
			}
		}
		next := en[idx]
		if next == self {
			return
		}
		rt.Switches++
		rt.cur = next
		next.wake <- struct{}{}
		if self == nil || self.done {
			return
		}
		<-self.wake
		if rt.killing || self.killed {
			panic(killT{})
		}
		return
	}
}

func (rt *RT) describeBlocked() string {
	s := "no enabled thread and no pending timer; blocked:"
	for _, t := range rt.threads {
		if !t.done {
			s += fmt.Sprintf(" T%d(%s/%s)", t.ID, t.Group, t.Name)
		}
	}
	return s
}

// advance moves virtual time to the earliest pending timer and fires every timer due at that instant.
func (rt *RT) advance() bool {
	live := rt.timers[:0]
	for _, tm := range rt.timers {
		if !tm.dead {
			live = append(live, tm)
		}
	}
	rt.timers = live
	if len(rt.timers) == 0 {
		return false
	}
	sort.SliceStable(rt.timers, func(i, j int) bool {
		if rt.timers[i].at != rt.timers[j].at {
			return rt.timers[i].at < rt.timers[j].at
		}
		return rt.timers[i].seq < rt.timers[j].seq
	})
	at := rt.timers[0].at
	if at > rt.now {
		rt.now = at
	}
	n := 0
	for n < len(rt.timers) && rt.timers[n].at <= rt.now {
		n++
	}
	due := append([]*timer(nil), rt.timers[:n]...)
	rt.timers = rt.timers[n:]
	for _, tm := range due {
		if !tm.dead {
			tm.dead = true
			tm.fire()
		}
	}
	return true
}

type Timer = timer

func (rt *RT) AddTimer(d int64, fire func()) *Timer {
	if d < 0 {
		d = 0
	}
	rt.seq++
	tm := &timer{at: rt.now + d, seq: rt.seq, fire: fire}
	rt.timers = append(rt.timers, tm)
	return tm
}

func (t *timer) Kill() bool { was := !t.dead; t.dead = true; return was }

// Now returns virtual unix nanoseconds.
func Now() int64 { return Base + R.now }

// Elapsed returns virtual nanoseconds since the start of the execution.
func Elapsed() int64 { return R.now }

func Sleep(d int64) {
	rt := R
	if rt.killing || rt.cur.killed {
		panic(killT{})
	}
	fired := false
	rt.AddTimer(d, func() { fired = true })
	rt.Block(func() bool { return fired })
}

// Quiesce parks the caller until no other thread can run at the current virtual instant.
func Quiesce() {
	rt := R
	if rt.killing || rt.cur.killed {
		panic(killT{})
	}
	self := rt.cur
	self.idle = true
	rt.schedule(self, KExit)
	self.idle = false
}

// AdvanceTo sleeps until virtual elapsed time ns and then waits for quiescence at that instant.
func AdvanceTo(ns int64) {
	if ns > R.now {
		Sleep(ns - R.now)
	}
	Quiesce()
}

// Stall models the whole process not being scheduled for d nanoseconds (SIGSTOP, a paused VM, a stepped wall
// clock): the clock moves on while nothing runs; every timer that became due meanwhile fires afterwards, in
// deadline order, at the new instant.
func Stall(d int64) {
	Quiesce()
	R.now += d
	Quiesce()
}

// SetExplore switches the explorer's control of choices on or off (off: always choice 0).
func SetExplore(on bool) { R.explore = on }
func Exploring() bool    { return R.explore }

// Yield is an explicit coarse choice point.
func Yield() { R.Point(KAPI) }

func Logf(format string, a ...interface{}) {
	R.Log = append(R.Log, fmt.Sprintf(format, a...))
}

// ---- goroutines
func GoN(name string, f func())                       { R.spawn(name, f) }
func Go0(f func())                                    { R.spawn("", f) }
func Go1[A any](f func(A), a A)                       { R.spawn("", func() { f(a) }) }
func Go2[A, B any](f func(A, B), a A, b B)            { R.spawn("", func() { f(a, b) }) }
func Go3[A, B, C any](f func(A, B, C), a A, b B, c C) { R.spawn("", func() { f(a, b, c) }) }
func Go4[A, B, C, D any](f func(A, B, C, D), a A, b B, c C, d D) {
	R.spawn("", func() { f(a, b, c, d) })
}
func Go5[A, B, C, D, E any](f func(A, B, C, D, E), a A, b B, c C, d D, e E) {
	R.spawn("", func() { f(a, b, c, d, e) })
}

// Go*R variants for functions with a result (go f(x) discards it).
func Go0R[Z any](f func() Z)                     { R.spawn("", func() { f() }) }
func Go1R[A, Z any](f func(A) Z, a A)            { R.spawn("", func() { f(a) }) }
func Go2R[A, B, Z any](f func(A, B) Z, a A, b B) { R.spawn("", func() { f(a, b) }) }
func Go3R[A, B, C, Z any](f func(A, B, C) Z, a A, b B, c C) {
	R.spawn("", func() { f(a, b, c) })
}

// ---- groups
func WithGroup(g string, f func()) { old := R.cur.Group; R.cur.Group = g; f(); R.cur.Group = old }
func CurGroup() string             { return R.cur.Group }
func CurThread() *Thread           { return R.cur }

var onKill []func(g string)

func OnKill(f func(g string)) { onKill = append(onKill, f) }

// KillGroup is kill -9 of a node: every thread of the group unwinds at its next resumption.
func KillGroup(g string) {
	for _, t := range R.threads {
		if t.Group == g && !t.done && t != R.cur {
			t.killed = true
		}
	}
	for _, f := range onKill {
		f(g)
	}
	// let the killed threads unwind now
	Quiesce()
}

// Threads returns a summary of live threads (debugging).
func Threads() []string {
	var out []string
	for _, t := range R.threads {
		if !t.done {
			out = append(out, fmt.Sprintf("T%d %s/%s blocked=%v", t.ID, t.Group, t.Name, t.ready != nil))
		}
	}
	return out
}

// Choose asks the explorer for an environment choice among n alternatives (0 = default).
func Choose(n int, k Kind) int {
	rt := R
	if n < 2 || !rt.explore || rt.opt.Choose == nil || rt.killing {
		return 0
	}
	rt.Choices++
	i := rt.opt.Choose(ChoiceInfo{N: n, Preempt: true, Kind: k, Sel: true})
	if i < 0 || i >= n {
		panic("vrt: env choice out of range")
	}
	return i
}

// RunTest runs a rewritten unit test body under the runtime (fidelity gate).
func RunTest(f func()) {
	rt := Run(Options{}, f)
	if rt.Crash != nil {
		panic("vrt.RunTest: crash in " + rt.Crash.Thread + ": " + rt.Crash.Value + "\n" + rt.Crash.Stack)
	}
	if rt.Deadlock != "" {
		panic("vrt.RunTest: " + rt.Deadlock)
	}
}
