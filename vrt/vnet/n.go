// Package vnet stands in for "net": in-process byte pipes on runtime primitives, with explorer-owned faults.
package vnet

import (
	"errors"
	"fmt"
	"io"
	"net"
	"strconv"
	"strings"
	"time"

	"verif/vrt"
)

type Addr = net.Addr
type Conn = net.Conn
type TCPAddr = net.TCPAddr
type TCPConn = net.TCPConn
type Listener = net.Listener
type IP = net.IP
type Error = net.Error

func IPv4(a, b, c, d byte) net.IP { return net.IPv4(a, b, c, d) }

func ResolveTCPAddr(n, a string) (*net.TCPAddr, error) {
	host, port, err := net.SplitHostPort(a)
	if err != nil {
		return nil, err
	}
	p, err := strconv.Atoi(port)
	if err != nil || p < 0 || p > 65535 {
		return nil, errors.New("invalid port")
	}
	ip := net.ParseIP(host)
	if ip == nil {
		if host != "" && host != "localhost" && strings.ContainsAny(host, " /") {
			return nil, errors.New("invalid host")
		}
		ip = net.IPv4(127, 0, 0, 1)
	}
	return &net.TCPAddr{IP: ip, Port: p}, nil
}

// Dir is one direction of a link.
type Dir struct {
	buf       []byte
	Written   int  // bytes accepted so far
	Read      int  // bytes consumed so far
	CutAt     int  // -1: never; otherwise the link breaks once Written reaches CutAt (bytes beyond are dropped)
	Hold      bool // delivered bytes stay invisible to the reader while set
	HoldAfter int  // >0: the reader sees the first HoldAfter bytes of the stream only; the rest stays invisible until the field is reset to 0
	Cap       int  // >0: socket buffer size: a write blocks while this many bytes are pending (a slow or stalled reader pushes back)
	closed    bool // writer side closed: reader gets EOF after draining
	broken    bool
	hb        vrt.SyncClock // happens-before: a write publishes, a read takes over
}

// Link is one established connection; A is the dialing side, B the accepting side.
type Link struct {
	ID         int
	DialGroup  string
	ListenAddr string
	AtoB, BtoA *Dir
	Seq        int // index among links dialed to ListenAddr by DialGroup (0,1,..)
}

func (l *Link) Break() {
	l.AtoB.closed, l.BtoA.closed = true, true
	l.AtoB.broken, l.BtoA.broken = true, true
}

type conn struct {
	link   *Link
	rd, wr *Dir
	la, ra net.Addr
	owner  string
	closed bool
}

type state struct {
	listeners map[string]*listener
	conns     []*conn
	links     []*Link
	nextPort  int
	onLink    func(l *Link)
	dialCount map[string]int
}

func st() *state {
	s, ok := vrt.R.Locals["vnet"].(*state)
	if !ok {
		s = &state{listeners: map[string]*listener{}, nextPort: 40000, dialCount: map[string]int{}}
		vrt.R.Locals["vnet"] = s
	}
	return s
}

func init() {
	vrt.OnKill(func(g string) {
		s := st()
		for _, c := range s.conns {
			if c.owner == g && !c.closed {
				c.closed = true
				c.wr.closed, c.rd.closed = true, true
				c.wr.broken, c.rd.broken = true, true
			}
		}
		for _, l := range s.listeners {
			if l.owner == g {
				l.closed = true
			}
		}
	})
}

// OnLink registers a callback invoked for every new link (harness fault set-up).
func OnLink(f func(l *Link)) { st().onLink = f }

// Links returns all links created so far in this execution.
func Links() []*Link { return st().links }

func (c *conn) Read(b []byte) (int, error) {
	rt := vrt.R
	rt.Point(vrt.KNet)
	if len(b) == 0 {
		return 0, nil
	}
	rt.Block(func() bool {
		return c.closed || (len(c.rd.buf) > 0 && !c.rd.Hold && (c.rd.HoldAfter <= 0 || c.rd.Read < c.rd.HoldAfter)) || (c.rd.closed && !c.rd.Hold && c.rd.HoldAfter <= 0)
	})
	if c.closed {
		return 0, errors.New("use of closed network connection")
	}
	if c.rd.HoldAfter > 0 && len(b) > c.rd.HoldAfter-c.rd.Read {
		b = b[:c.rd.HoldAfter-c.rd.Read]
	}
	if len(c.rd.buf) == 0 {
		if c.rd.broken {
			return 0, errors.New("connection reset by peer")
		}
		return 0, io.EOF
	}
	n := copy(b, c.rd.buf)
	c.rd.buf = c.rd.buf[n:]
	c.rd.Read += n
	vrt.HBAcquire(&c.rd.hb)
	return n, nil
}

func (c *conn) Write(b []byte) (int, error) {
	rt := vrt.R
	rt.Point(vrt.KNet)
	if rt.Killing() {
		return 0, errors.New("killed")
	}
	if c.closed {
		return 0, errors.New("use of closed network connection")
	}
	if c.wr.closed {
		return 0, errors.New("write: broken pipe")
	}
	d := c.wr
	vrt.HBRelease(&d.hb)
	if d.Cap > 0 && len(d.buf) >= d.Cap {
		rt.Block(func() bool { return d.Cap <= 0 || len(d.buf) < d.Cap || c.closed || d.closed })
		if c.closed || d.closed {
			return 0, errors.New("write: broken pipe")
		}
	}
	if d.CutAt >= 0 && d.Written+len(b) >= d.CutAt {
		keep := d.CutAt - d.Written
		if keep < 0 {
			keep = 0
		}
		d.buf = append(d.buf, b[:keep]...)
		d.Written += keep
		c.link.Break()
		return len(b), nil
	}
	d.buf = append(d.buf, b...)
	d.Written += len(b)
	return len(b), nil
}

func (c *conn) Close() error {
	if c.closed {
		return nil
	}
	c.closed = true
	c.wr.closed = true
	c.rd.closed = true
	return nil
}
func (c *conn) LocalAddr() net.Addr                { return c.la }
func (c *conn) RemoteAddr() net.Addr               { return c.ra }
func (c *conn) SetDeadline(t time.Time) error      { return nil }
func (c *conn) SetReadDeadline(t time.Time) error  { return nil }
func (c *conn) SetWriteDeadline(t time.Time) error { return nil }

// Link exposes the link of a connection created by this package.
func LinkOf(c net.Conn) *Link {
	if x, ok := c.(*conn); ok {
		return x.link
	}
	return nil
}

type listener struct {
	a      string
	addr   net.Addr
	q      []net.Conn
	closed bool
	owner  string
}

func norm(a string) string {
	host, port, err := net.SplitHostPort(a)
	if err != nil {
		return a
	}
	if host == "" || host == "0.0.0.0" || host == "localhost" {
		host = "127.0.0.1"
	}
	return host + ":" + port
}

func Listen(n, a string) (net.Listener, error) {
	s := st()
	key := norm(a)
	if old, ok := s.listeners[key]; ok && !old.closed {
		return nil, fmt.Errorf("listen tcp %s: bind: address already in use", a)
	}
	ta, err := ResolveTCPAddr("tcp", key)
	if err != nil {
		return nil, err
	}
	l := &listener{a: key, addr: ta, owner: vrt.CurGroup()}
	s.listeners[key] = l
	return l, nil
}

func (l *listener) Accept() (net.Conn, error) {
	rt := vrt.R
	rt.Point(vrt.KNet)
	rt.Block(func() bool { return len(l.q) > 0 || l.closed })
	if l.closed {
		return nil, errors.New("use of closed network connection")
	}
	c := l.q[0]
	l.q = l.q[1:]
	return c, nil
}
func (l *listener) Close() error   { l.closed = true; return nil }
func (l *listener) Addr() net.Addr { return l.addr }

func Dial(n, a string) (net.Conn, error) { return DialTimeout(n, a, 0) }

func DialTimeout(n, a string, d time.Duration) (net.Conn, error) {
	rt := vrt.R
	rt.Point(vrt.KNet)
	if rt.Killing() {
		return nil, errors.New("killed")
	}
	s := st()
	key := norm(a)
	l, ok := s.listeners[key]
	if !ok || l.closed {
		return nil, fmt.Errorf("dial tcp %s: connect: connection refused", a)
	}
	s.nextPort++
	la := &net.TCPAddr{IP: net.IPv4(127, 0, 0, 1), Port: s.nextPort}
	x, y := &Dir{CutAt: -1}, &Dir{CutAt: -1}
	g := vrt.CurGroup()
	dk := g + ">" + key
	link := &Link{ID: len(s.links), DialGroup: g, ListenAddr: key, AtoB: x, BtoA: y, Seq: s.dialCount[dk]}
	s.dialCount[dk]++
	s.links = append(s.links, link)
	c := &conn{link: link, rd: y, wr: x, la: la, ra: l.addr, owner: g}
	sc := &conn{link: link, rd: x, wr: y, la: l.addr, ra: la, owner: l.owner}
	s.conns = append(s.conns, c, sc)
	if s.onLink != nil {
		s.onLink(link)
	}
	l.q = append(l.q, sc)
	return c, nil
}

// Avail returns and consumes every byte currently readable on c without blocking, and whether the peer
// has closed (no more bytes will come). Harness-side helper; not a scheduling point.
func Avail(c net.Conn) (data []byte, closed bool) {
	x, ok := c.(*conn)
	if !ok {
		return nil, true
	}
	if x.rd.Hold {
		return nil, false
	}
	data = append([]byte{}, x.rd.buf...)
	x.rd.Read += len(x.rd.buf)
	x.rd.buf = x.rd.buf[:0]
	return data, x.rd.closed || x.closed
}

// Drop discards the bytes in flight in this direction (they were sent but never arrive).
func (d *Dir) Drop() { d.buf = nil }

// Pending reports the number of undelivered bytes.
func (d *Dir) Pending() int { return len(d.buf) }
