package vrt

import (
	"fmt"
	"reflect"
	"runtime"
	"strings"
)

// Happens-before tracking and a race check for MAP accesses (Options.HB). Scheduling points sit at
// synchronisation operations only, so two unsynchronised accesses never collide physically under this runtime;
// instead every thread carries a vector clock, every synchronisation object carries the clock of its last
// release, and an instrumented map access (vinst wraps index / range / delete / assignment on maps) is compared
// with the last write and the reads since: an access that the earlier one does not happen-before is the pair
// the Go runtime would kill the process for ("concurrent map read and map write").

type SyncClock []uint32

func (rt *RT) hbOn() bool { return rt != nil && rt.opt.HB && rt.cur != nil && !rt.killing }

func joinInto(dst *[]uint32, src []uint32) {
	for len(*dst) < len(src) {
		*dst = append(*dst, 0)
	}
	for i, v := range src {
		if v > (*dst)[i] {
			(*dst)[i] = v
		}
	}
}

func (t *Thread) tick() {
	for len(t.vc) <= t.ID {
		t.vc = append(t.vc, 0)
	}
	t.vc[t.ID]++
}

// HBRelease publishes the running thread's knowledge into a synchronisation object.
func HBRelease(sc *SyncClock) {
	rt := R
	if !rt.hbOn() {
		return
	}
	t := rt.cur
	t.tick()
	joinInto((*[]uint32)(sc), t.vc)
}

// HBAcquire takes over what the object's releasers knew.
func HBAcquire(sc *SyncClock) {
	rt := R
	if !rt.hbOn() {
		return
	}
	joinInto(&rt.cur.vc, *sc)
}

// HBAddr: a synchronisation object identified by its address (atomics).
func HBAddr(p uintptr) *SyncClock {
	rt := R
	if rt.addrClocks == nil {
		rt.addrClocks = map[uintptr]*SyncClock{}
	}
	sc := rt.addrClocks[p]
	if sc == nil {
		sc = &SyncClock{}
		rt.addrClocks[p] = sc
	}
	return sc
}

// HBAtomic: an atomic operation both acquires and releases its address.
func HBAtomic(p uintptr) {
	if !R.hbOn() {
		return
	}
	sc := HBAddr(p)
	HBAcquire(sc)
	HBRelease(sc)
}

type mapAcc struct {
	tid   int
	clk   uint32
	name  string
	where string
}

type mapState struct {
	keep  interface{} // the map itself: as long as the execution remembers accesses to it, its address is not reused
	lastW mapAcc
	hasW  bool
	reads map[int]mapAcc
}

// MapRace describes the first unordered pair of map accesses of the execution ("" = none).
func (rt *RT) MapRaceReport() string { return rt.mapRace }

func caller() string {
	var pcs [8]uintptr
	n := runtime.Callers(3, pcs[:])
	fr := runtime.CallersFrames(pcs[:n])
	var out []string
	for {
		f, more := fr.Next()
		if !strings.Contains(f.Function, "verif/vrt.") {
			fn := f.Function
			if i := strings.LastIndex(fn, "/"); i >= 0 {
				fn = fn[i+1:]
			}
			file := f.File
			if i := strings.LastIndex(file, "/"); i >= 0 {
				file = file[i+1:]
			}
			out = append(out, fmt.Sprintf("%s (%s:%d)", fn, file, f.Line))
			if len(out) == 3 {
				break
			}
		}
		if !more {
			break
		}
	}
	return strings.Join(out, " <- ")
}

// MapAcc is called by instrumented code before an access to m (anything that is not a map is ignored).
func MapAcc(m interface{}, write bool) {
	rt := R
	if !rt.hbOn() || rt.mapRace != "" || m == nil {
		return
	}
	v := reflect.ValueOf(m)
	if v.Kind() != reflect.Map || v.IsNil() {
		return
	}
	id := v.Pointer()
	if rt.maps == nil {
		rt.maps = map[uintptr]*mapState{}
	}
	st := rt.maps[id]
	if st == nil {
		st = &mapState{reads: map[int]mapAcc{}, keep: m}
		rt.maps[id] = st
	}
	t := rt.cur
	for len(t.vc) <= t.ID {
		t.vc = append(t.vc, 0)
	}
	known := func(a mapAcc) bool { return a.tid == t.ID || (a.tid < len(t.vc) && t.vc[a.tid] >= a.clk) }
	me := mapAcc{tid: t.ID, clk: t.vc[t.ID] + 1, name: t.Name, where: caller()}
	kind := "read"
	if write {
		kind = "write"
	}
	if st.hasW && !known(st.lastW) {
		rt.mapRace = fmt.Sprintf("map %s in thread %q at %s is not ordered after the map write in thread %q at %s (type %s): concurrent map %s and map write", kind, t.Name, me.where, st.lastW.name, st.lastW.where, v.Type(), kind)
		return
	}
	if write {
		for _, r := range st.reads {
			if !known(r) {
				rt.mapRace = fmt.Sprintf("map write in thread %q at %s is not ordered after the map read / iteration in thread %q at %s (type %s): concurrent map iteration and map write", t.Name, me.where, r.name, r.where, v.Type())
				return
			}
		}
		t.tick()
		me.clk = t.vc[t.ID]
		st.lastW, st.hasW = me, true
		st.reads = map[int]mapAcc{}
		return
	}
	t.tick()
	me.clk = t.vc[t.ID]
	st.reads[t.ID] = me
}
