// Package vtime stands in for "time": the clock is the runtime's virtual clock.
package vtime

import (
	"time"

	"verif/vrt"
)

type Time = time.Time
type Duration = time.Duration
type Month = time.Month
type Location = time.Location

const (
	Nanosecond  = time.Nanosecond
	Microsecond = time.Microsecond
	Millisecond = time.Millisecond
	Second      = time.Second
	Minute      = time.Minute
	Hour        = time.Hour
	RFC3339     = time.RFC3339
)

var UTC = time.UTC
var Local = time.Local

func Now() Time                          { return time.Unix(0, vrt.Now()) }
func Unix(s, ns int64) Time              { return time.Unix(s, ns) }
func UnixMilli(ms int64) Time            { return time.UnixMilli(ms) }
func Since(t Time) Duration              { return Now().Sub(t) }
func Until(t Time) Duration              { return t.Sub(Now()) }
func ParseDuration(s string) (Duration, error) { return time.ParseDuration(s) }
func Sleep(d Duration) {
	vrt.R.Point(vrt.KSleep)
	vrt.Sleep(int64(d))
}
func After(d Duration) *vrt.Chan[Time] { return NewTimer(d).C }

type Timer struct {
	C  *vrt.Chan[Time]
	tm *vrt.Timer
}

func NewTimer(d Duration) *Timer {
	t := &Timer{C: vrt.MakeChan[Time](1)}
	t.Reset(d)
	return t
}

func AfterFunc(d Duration, f func()) *Timer {
	t := &Timer{}
	t.tm = vrt.R.AddTimer(int64(d), func() { vrt.GoN("afterfunc", f) })
	return t
}

func (t *Timer) Stop() bool {
	if t.tm == nil {
		return false
	}
	return t.tm.Kill()
}

func (t *Timer) Reset(d Duration) bool {
	was := t.Stop()
	c := t.C
	t.tm = vrt.R.AddTimer(int64(d), func() { vrt.TrySend(c, Now()) })
	return was
}
