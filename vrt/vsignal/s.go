// Package vsignal stands in for "os/signal": no signal is ever delivered.
package vsignal

import (
	"os"

	"verif/vrt"
)

func Notify(c *vrt.Chan[os.Signal], sig ...os.Signal) {}
func Stop(c *vrt.Chan[os.Signal])                     {}
