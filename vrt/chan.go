package vrt

// Channels with Go semantics on top of the single-runner scheduler. A nil *Chan behaves like a nil channel.

type waiter struct {
	matched bool
	val     interface{}
	ok      bool
	ch      interface{} // channel on which the match happened
	isSend  bool
	grp     *bool // shared by the waiters of one select: only one of them may be matched
}

func (w *waiter) free() bool { return !w.matched && (w.grp == nil || !*w.grp) }
func (w *waiter) match() {
	w.matched = true
	if w.grp != nil {
		*w.grp = true
	}
}

type chanCore struct {
	recvW []*waiter // parked receivers (incl. selects)
	sendW []*waiter // parked senders (incl. selects), val holds the offered value
	hb    SyncClock // happens-before: every operation on the channel publishes into / takes from it (a superset of the real edges)
}

type Chan[T any] struct {
	chanCore
	buf    []T
	cap    int
	closed bool
}

func MakeChan[T any](n int) *Chan[T] { return &Chan[T]{cap: n} }

// asT converts a parked value back to T; a nil interface value (e.g. `ch <- nil` on a channel of an interface
// type) is the zero T.
func asT[T any](v interface{}) T {
	if v == nil {
		var z T
		return z
	}
	return v.(T)
}

func (c *Chan[T]) Len() int { return len(c.buf) }
func (c *Chan[T]) Cap() int { return c.cap }

func firstUnmatched(ws []*waiter) *waiter {
	for _, w := range ws {
		if w.free() {
			return w
		}
	}
	return nil
}

func remove(ws []*waiter, w *waiter) []*waiter {
	for i, x := range ws {
		if x == w {
			return append(ws[:i], ws[i+1:]...)
		}
	}
	return ws
}

func (c *Chan[T]) sendReady() bool {
	if c == nil {
		return false
	}
	if c.closed {
		return true
	}
	if c.cap > 0 && len(c.buf) < c.cap {
		return true
	}
	return firstUnmatched(c.recvW) != nil
}

func (c *Chan[T]) recvReady() bool {
	if c == nil {
		return false
	}
	if len(c.buf) > 0 || c.closed {
		return true
	}
	return firstUnmatched(c.sendW) != nil
}

// doSend performs a send that sendReady() has declared possible.
func (c *Chan[T]) doSend(v T) {
	if c.closed {
		panic("send on closed channel")
	}
	if w := firstUnmatched(c.recvW); w != nil && len(c.buf) == 0 {
		w.match()
		w.val, w.ok, w.ch = v, true, c
		return
	}
	c.buf = append(c.buf, v)
}

// doRecv performs a receive that recvReady() has declared possible.
func (c *Chan[T]) doRecv() (v T, ok bool) {
	if len(c.buf) > 0 {
		v = c.buf[0]
		c.buf = c.buf[1:]
		// a parked sender may now move its value into the buffer
		if w := firstUnmatched(c.sendW); w != nil && c.cap > 0 {
			w.match()
			w.ch = c
			c.buf = append(c.buf, asT[T](w.val))
		}
		return v, true
	}
	if w := firstUnmatched(c.sendW); w != nil {
		w.match()
		w.ch = c
		return asT[T](w.val), true
	}
	return v, false // closed
}

func Send[T any](c *Chan[T], v T) {
	rt := R
	rt.Point(KChan)
	if rt.Killing() {
		panic(killT{})
	}
	if c == nil {
		rt.Block(func() bool { return false })
	}
	HBRelease(&c.hb)
	if c.sendReady() {
		c.doSend(v)
		HBAcquire(&c.hb)
		return
	}
	w := &waiter{val: v, isSend: true}
	c.sendW = append(c.sendW, w)
	rt.Block(func() bool { return w.matched || c.closed })
	c.sendW = remove(c.sendW, w)
	if !w.matched {
		panic("send on closed channel")
	}
	HBAcquire(&c.hb)
}

func Recv2[T any](c *Chan[T]) (T, bool) {
	rt := R
	rt.Point(KChan)
	if rt.Killing() {
		panic(killT{})
	}
	if c == nil {
		rt.Block(func() bool { return false })
	}
	HBRelease(&c.hb)
	if c.recvReady() {
		HBAcquire(&c.hb)
		return c.doRecv()
	}
	w := &waiter{}
	c.recvW = append(c.recvW, w)
	rt.Block(func() bool { return w.matched || c.closed || len(c.buf) > 0 })
	c.recvW = remove(c.recvW, w)
	HBAcquire(&c.hb)
	if w.matched {
		return asT[T](w.val), true
	}
	return c.doRecv()
}

func Recv[T any](c *Chan[T]) T { v, _ := Recv2(c); return v }

func Close[T any](c *Chan[T]) {
	R.Point(KChan)
	if R.Killing() {
		return
	}
	if c == nil {
		panic("close of nil channel")
	}
	if c.closed {
		panic("close of closed channel")
	}
	HBRelease(&c.hb)
	c.closed = true
}

// TrySend is a non-blocking send used by timers (never a point).
func TrySend[T any](c *Chan[T], v T) bool {
	if c.closed {
		return false
	}
	HBRelease(&c.hb)
	if c.sendReady() {
		c.doSend(v)
		return true
	}
	return false
}

// ---- select

type Case struct {
	ready  func() bool
	do     func(r *SelResult)
	park   func(w *waiter)
	unpark func(w *waiter)
	isSend bool
	val    interface{}
	ch     interface{}
	hb     *SyncClock
}

type SelResult struct {
	Index int
	val   interface{}
	ok    bool
}

func RecvCase[T any](c *Chan[T]) Case {
	if c == nil {
		return Case{ready: func() bool { return false }}
	}
	return Case{ready: c.recvReady, ch: c, hb: &c.hb,
		do:     func(r *SelResult) { v, ok := c.doRecv(); r.val, r.ok = v, ok },
		park:   func(w *waiter) { c.recvW = append(c.recvW, w) },
		unpark: func(w *waiter) { c.recvW = remove(c.recvW, w) }}
}

func SendCase[T any](c *Chan[T], v T) Case {
	if c == nil {
		return Case{ready: func() bool { return false }, isSend: true}
	}
	return Case{ready: c.sendReady, ch: c, isSend: true, val: v, hb: &c.hb,
		do:     func(r *SelResult) { c.doSend(v) },
		park:   func(w *waiter) { c.sendW = append(c.sendW, w) },
		unpark: func(w *waiter) { c.sendW = remove(c.sendW, w) }}
}

func SelRecv[T any](c *Chan[T], r SelResult) T { return asT[T](r.val) }
func SelRecv2[T any](c *Chan[T], r SelResult) (T, bool) {
	v, _ := r.val.(T)
	return v, r.ok
}

func Select(hasDefault bool, cases ...Case) SelResult {
	rt := R
	rt.Point(KChan)
	if rt.Killing() {
		panic(killT{})
	}
	for _, c := range cases {
		if c.hb != nil {
			HBRelease(c.hb)
		}
	}
	defer func() {
		for _, c := range cases {
			if c.hb != nil {
				HBAcquire(c.hb)
			}
		}
	}()
	readyIdx := func() []int {
		var out []int
		for i, c := range cases {
			if c.ready() {
				out = append(out, i)
			}
		}
		return out
	}
	pick := func(rs []int) int {
		if len(rs) > 1 && rt.opt.SelChoice {
			return rs[Choose(len(rs), KChan)]
		}
		return rs[0]
	}
	rs := readyIdx()
	if len(rs) == 0 {
		if hasDefault {
			return SelResult{Index: -1}
		}
		// park one waiter per direction on every case channel; a match on any of them resolves the select
		var ws []*waiter
		grp := new(bool)
		for _, c := range cases {
			if c.park == nil {
				ws = append(ws, nil)
				continue
			}
			w := &waiter{isSend: c.isSend, val: c.val, grp: grp}
			ws = append(ws, w)
			c.park(w)
		}
		matchedIdx := func() int {
			for i, w := range ws {
				if w != nil && w.matched {
					return i
				}
			}
			return -1
		}
		rt.Block(func() bool {
			if matchedIdx() >= 0 {
				return true
			}
			for _, c := range cases {
				if c.ready() {
					return true
				}
			}
			return false
		})
		for i, c := range cases {
			if c.unpark != nil {
				c.unpark(ws[i])
			}
		}
		if i := matchedIdx(); i >= 0 {
			w := ws[i]
			res := SelResult{Index: i}
			if !w.isSend {
				res.val, res.ok = w.val, w.ok
			}
			return res
		}
		rs = readyIdx()
	}
	i := pick(rs)
	res := SelResult{Index: i}
	if cases[i].do != nil {
		cases[i].do(&res)
	}
	return res
}
