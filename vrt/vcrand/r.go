// Package vcrand stands in for "crypto/rand": Int's result is an explorer-owned choice.
package vcrand

import (
	"io"
	"math/big"

	"verif/vrt"
)

var Reader io.Reader = nil

// Choices is the number of alternatives offered for each Int call (value = choice * max / Choices).
var Choices = 1

func init() { vrt.OnRun(func(*vrt.RT) { Choices = 1 }) }

func Int(r io.Reader, max *big.Int) (*big.Int, error) {
	k := vrt.Choose(Choices, vrt.KAPI)
	v := new(big.Int).Mul(max, big.NewInt(int64(k)))
	v.Div(v, big.NewInt(int64(Choices)))
	return v, nil
}
