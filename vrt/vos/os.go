// Package vos stands in for "os" in instrumented code: an in-memory file system owned by the runtime.
// Every mutation is a numbered FS point at which the explorer may take an image (crash after this call)
// or inject a short write.
package vos

import (
	"errors"
	"fmt"
	"io"
	"io/fs"
	"os"
	"path"
	"sort"
	"strings"
	"time"

	"verif/vrt"
)

type FileInfo = os.FileInfo
type FileMode = os.FileMode
type Signal = os.Signal
type PathError = os.PathError

const (
	O_RDONLY = os.O_RDONLY
	O_WRONLY = os.O_WRONLY
	O_RDWR   = os.O_RDWR
	O_APPEND = os.O_APPEND
	O_CREATE = os.O_CREATE
	O_EXCL   = os.O_EXCL
	O_SYNC   = os.O_SYNC
	O_TRUNC  = os.O_TRUNC

	ModePerm = os.ModePerm
)

var (
	ErrNotExist = os.ErrNotExist
	ErrExist    = os.ErrExist
	Stdout      = os.Stdout
	Stderr      = os.Stderr
	Stdin       = os.Stdin
	Args        = os.Args
	Interrupt   = os.Interrupt
	Kill        = os.Kill
)

func Getpid() int               { return 4242 }
func Exit(code int)             { panic("vos: os.Exit called") }
func Getenv(k string) string    { return "" }
func IsNotExist(err error) bool { return errors.Is(err, fs.ErrNotExist) }
func IsExist(err error) bool    { return errors.Is(err, fs.ErrExist) }
func Getwd() (string, error)    { return "/", nil }

type inode struct {
	data  []byte
	isDir bool
	mtime int64
}

// FSPoint describes one file-system mutation.
type FSPoint struct {
	N    int
	Op   string // create, trunc, write, sync, close, remove, rename, mkdir
	Path string
	Len  int
	Tag  string // group of the thread that performed it
}

// MaxMutations bounds the file-system mutations of one execution.
var MaxMutations = 400000

// FS is the in-memory file system of one execution.
type FS struct {
	nodes  map[string]*inode
	Points []FSPoint
	// OnPoint is called after each mutation has been applied (image = crash right after this call).
	OnPoint func(p FSPoint)
	// ShortWrite, if set, may shorten a write: return the number of bytes to apply (<= len) and whether
	// the process dies right after the partial write (the thread's group is then unwound by the harness).
	ShortWrite func(p FSPoint, n int) int
	ReadBytes  map[string]int // bytes actually returned by reads per path
}

func Cur() *FS {
	f, ok := vrt.R.Locals["vos"].(*FS)
	if !ok {
		f = NewFS()
		vrt.R.Locals["vos"] = f
	}
	return f
}

func NewFS() *FS {
	return &FS{nodes: map[string]*inode{"/": {isDir: true}}, ReadBytes: map[string]int{}}
}

// Install makes f the file system of the current execution.
func Install(f *FS) { vrt.R.Locals["vos"] = f }

func clean(p string) string {
	if !strings.HasPrefix(p, "/") {
		p = "/" + p
	}
	return path.Clean(p)
}

// Image is a deep copy of all files (path -> content); directories have nil content and a trailing slash.
type Image map[string][]byte

func (f *FS) Image() Image {
	im := Image{}
	for p, n := range f.nodes {
		if n.isDir {
			im[p+"/"] = nil
		} else {
			im[p] = append([]byte{}, n.data...)
		}
	}
	return im
}

// FromImage builds a file system from an image.
func FromImage(im Image) *FS {
	f := NewFS()
	for p, d := range im {
		if strings.HasSuffix(p, "/") {
			q := strings.TrimSuffix(p, "/")
			if q == "" {
				q = "/"
			}
			f.nodes[q] = &inode{isDir: true}
		} else {
			f.nodes[p] = &inode{data: append([]byte{}, d...)}
		}
	}
	return f
}

// Files lists regular files under dir (sorted).
func (f *FS) Files(dir string) []string {
	dir = clean(dir)
	var out []string
	for p, n := range f.nodes {
		if !n.isDir && (dir == "/" || strings.HasPrefix(p, dir+"/")) {
			out = append(out, p)
		}
	}
	sort.Strings(out)
	return out
}

func (f *FS) Get(p string) ([]byte, bool) {
	n, ok := f.nodes[clean(p)]
	if !ok || n.isDir {
		return nil, false
	}
	return n.data, true
}

func (f *FS) Put(p string, d []byte) { f.nodes[clean(p)] = &inode{data: append([]byte{}, d...)} }
func (f *FS) Del(p string)           { delete(f.nodes, clean(p)) }
func (f *FS) MkdirAll(p string) {
	p = clean(p)
	for p != "/" {
		if _, ok := f.nodes[p]; !ok {
			f.nodes[p] = &inode{isDir: true}
		}
		p = path.Dir(p)
	}
}

func (f *FS) point(op, p string, n int) FSPoint {
	if len(f.Points) >= MaxMutations {
		// a writer that never stops (for instance a compaction reading the file it is writing) must not eat
		// the machine: the execution ends with a crash the check reports
		panic(fmt.Sprintf("vos: more than %d file-system mutations in one execution (last: %s %s): a writer does not terminate", MaxMutations, op, p))
	}
	pt := FSPoint{N: len(f.Points), Op: op, Path: p, Len: n}
	if vrt.R != nil && vrt.CurThread() != nil {
		pt.Tag = vrt.CurGroup()
	}
	f.Points = append(f.Points, pt)
	return pt
}

func (f *FS) after(pt FSPoint) {
	if f.OnPoint != nil {
		f.OnPoint(pt)
	}
}

type File struct {
	fs     *FS
	path   string
	node   *inode
	off    int64
	flag   int
	closed bool
}

type fileInfo struct {
	name  string
	size  int64
	isDir bool
	mtime int64
}

func (i fileInfo) Name() string { return i.name }
func (i fileInfo) Size() int64  { return i.size }
func (i fileInfo) Mode() os.FileMode {
	if i.isDir {
		return os.ModeDir | 0755
	}
	return 0644
}
func (i fileInfo) ModTime() time.Time { return time.Unix(0, i.mtime) }
func (i fileInfo) IsDir() bool        { return i.isDir }
func (i fileInfo) Sys() interface{}   { return nil }

func notExist(op, p string) error { return &os.PathError{Op: op, Path: p, Err: fs.ErrNotExist} }

func Stat(p string) (os.FileInfo, error) {
	f := Cur()
	q := clean(p)
	n, ok := f.nodes[q]
	if !ok {
		return nil, notExist("stat", p)
	}
	return fileInfo{name: path.Base(q), size: int64(len(n.data)), isDir: n.isDir, mtime: n.mtime}, nil
}

func Mkdir(p string, perm os.FileMode) error {
	vrt.R.Point(vrt.KFS)
	f := Cur()
	q := clean(p)
	if _, ok := f.nodes[q]; ok {
		return &os.PathError{Op: "mkdir", Path: p, Err: fs.ErrExist}
	}
	if par, ok := f.nodes[path.Dir(q)]; !ok || !par.isDir {
		return notExist("mkdir", p)
	}
	f.nodes[q] = &inode{isDir: true}
	f.after(f.point("mkdir", q, 0))
	return nil
}

func MkdirAll(p string, perm os.FileMode) error {
	vrt.R.Point(vrt.KFS)
	f := Cur()
	f.MkdirAll(p)
	f.after(f.point("mkdir", clean(p), 0))
	return nil
}

func Remove(p string) error {
	vrt.R.Point(vrt.KFS)
	if vrt.R.Killing() {
		return errors.New("killed")
	}
	f := Cur()
	q := clean(p)
	if _, ok := f.nodes[q]; !ok {
		return notExist("remove", p)
	}
	delete(f.nodes, q)
	f.after(f.point("remove", q, 0))
	return nil
}

func Rename(a, b string) error {
	vrt.R.Point(vrt.KFS)
	if vrt.R.Killing() {
		return errors.New("killed")
	}
	f := Cur()
	qa, qb := clean(a), clean(b)
	n, ok := f.nodes[qa]
	if !ok {
		return notExist("rename", a)
	}
	delete(f.nodes, qa)
	f.nodes[qb] = n
	f.after(f.point("rename", qa+" -> "+qb, 0))
	return nil
}

func Open(p string) (*File, error) { return OpenFile(p, O_RDONLY, 0) }
func Create(p string) (*File, error) {
	return OpenFile(p, O_RDWR|O_CREATE|O_TRUNC, 0666)
}

func ReadFile(p string) ([]byte, error) {
	f := Cur()
	d, ok := f.Get(p)
	if !ok {
		return nil, notExist("open", p)
	}
	return append([]byte{}, d...), nil
}

func OpenFile(p string, flag int, perm os.FileMode) (*File, error) {
	vrt.R.Point(vrt.KFS)
	if vrt.R.Killing() {
		return nil, errors.New("killed")
	}
	f := Cur()
	q := clean(p)
	n, ok := f.nodes[q]
	if ok && n.isDir {
		if flag&(O_WRONLY|O_RDWR) != 0 {
			return nil, &os.PathError{Op: "open", Path: p, Err: errors.New("is a directory")}
		}
		return &File{fs: f, path: q, node: n, flag: flag}, nil
	}
	if !ok {
		if flag&O_CREATE == 0 {
			return nil, notExist("open", p)
		}
		if par, pok := f.nodes[path.Dir(q)]; !pok || !par.isDir {
			return nil, notExist("open", p)
		}
		n = &inode{mtime: vrt.Now()}
		f.nodes[q] = n
		f.after(f.point("create", q, 0))
	} else if flag&O_TRUNC != 0 && len(n.data) > 0 {
		n.data = nil
		f.after(f.point("trunc", q, 0))
	}
	return &File{fs: f, path: q, node: n, flag: flag}, nil
}

func (f *File) Name() string { return f.path }

func (f *File) Read(b []byte) (int, error) {
	if f.closed {
		return 0, os.ErrClosed
	}
	if f.off >= int64(len(f.node.data)) {
		return 0, io.EOF
	}
	n := copy(b, f.node.data[f.off:])
	f.off += int64(n)
	f.fs.ReadBytes[f.path] += n
	return n, nil
}

func (f *File) ReadAt(b []byte, off int64) (int, error) {
	if f.closed {
		return 0, os.ErrClosed
	}
	if off < 0 {
		return 0, errors.New("negative offset")
	}
	if off >= int64(len(f.node.data)) {
		return 0, io.EOF
	}
	n := copy(b, f.node.data[off:])
	if n < len(b) {
		return n, io.EOF
	}
	return n, nil
}

func (f *File) Write(b []byte) (int, error) {
	vrt.R.Point(vrt.KFS)
	if vrt.R.Killing() {
		return 0, errors.New("killed")
	}
	if f.closed {
		return 0, os.ErrClosed
	}
	if f.flag&(O_WRONLY|O_RDWR) == 0 {
		return 0, &os.PathError{Op: "write", Path: f.path, Err: errors.New("bad file descriptor")}
	}
	pt := f.fs.point("write", f.path, len(b))
	n := len(b)
	if f.fs.ShortWrite != nil {
		n = f.fs.ShortWrite(pt, len(b))
	}
	if f.flag&O_APPEND != 0 {
		f.off = int64(len(f.node.data))
	}
	if pad := f.off - int64(len(f.node.data)); pad > 0 {
		f.node.data = append(f.node.data, make([]byte, pad)...)
	}
	end := f.off + int64(n)
	if end > int64(len(f.node.data)) {
		f.node.data = append(f.node.data[:f.off], b[:n]...)
	} else {
		copy(f.node.data[f.off:], b[:n])
	}
	f.off = end
	f.node.mtime = vrt.Now()
	f.fs.after(pt)
	if n < len(b) {
		return n, io.ErrShortWrite
	}
	return n, nil
}

func (f *File) WriteString(s string) (int, error) { return f.Write([]byte(s)) }

func (f *File) Seek(off int64, whence int) (int64, error) {
	switch whence {
	case io.SeekStart:
		f.off = off
	case io.SeekCurrent:
		f.off += off
	case io.SeekEnd:
		f.off = int64(len(f.node.data)) + off
	}
	return f.off, nil
}

func (f *File) Truncate(size int64) error {
	vrt.R.Point(vrt.KFS)
	if vrt.R.Killing() {
		return errors.New("killed")
	}
	if size < int64(len(f.node.data)) {
		f.node.data = f.node.data[:size]
	} else {
		f.node.data = append(f.node.data, make([]byte, size-int64(len(f.node.data)))...)
	}
	f.fs.after(f.fs.point("trunc", f.path, int(size)))
	return nil
}

func (f *File) Sync() error {
	vrt.R.Point(vrt.KFS)
	if f.closed {
		return os.ErrClosed
	}
	f.fs.after(f.fs.point("sync", f.path, 0))
	return nil
}

func (f *File) Close() error {
	if f.closed {
		return os.ErrClosed
	}
	f.closed = true
	return nil
}

func (f *File) Stat() (os.FileInfo, error) {
	return fileInfo{name: path.Base(f.path), size: int64(len(f.node.data)), isDir: f.node.isDir, mtime: f.node.mtime}, nil
}

// Walk visits dir and everything below it in lexical order (used by vfilepath.Walk).
func (fs_ *FS) Walk(root string, fn func(p string, info os.FileInfo, err error) error) error {
	root = clean(root)
	n, ok := fs_.nodes[root]
	if !ok {
		return fn(root, nil, notExist("lstat", root))
	}
	var paths []string
	for p := range fs_.nodes {
		if p == root || strings.HasPrefix(p, strings.TrimSuffix(root, "/")+"/") {
			paths = append(paths, p)
		}
	}
	sort.Strings(paths)
	_ = n
	skip := ""
	for _, p := range paths {
		if skip != "" && strings.HasPrefix(p, skip+"/") {
			continue
		}
		nd := fs_.nodes[p]
		err := fn(p, fileInfo{name: path.Base(p), size: int64(len(nd.data)), isDir: nd.isDir, mtime: nd.mtime}, nil)
		if err != nil {
			if errors.Is(err, fs.SkipDir) {
				if nd.isDir {
					skip = p
				} else {
					skip = path.Dir(p)
				}
				continue
			}
			return err
		}
	}
	return nil
}
