// Package vatomic stands in for "sync/atomic" (sequentially consistent; every operation is a point).
package vatomic

import (
	"unsafe"

	"verif/vrt"
)

func hb(p unsafe.Pointer) { vrt.HBAtomic(uintptr(p)) }

func AddUint32(p *uint32, d uint32) uint32 {
	vrt.R.Point(vrt.KAtomic)
	hb(unsafe.Pointer(p))
	*p += d
	return *p
}
func AddUint64(p *uint64, d uint64) uint64 {
	vrt.R.Point(vrt.KAtomic)
	hb(unsafe.Pointer(p))
	*p += d
	return *p
}
func AddInt32(p *int32, d int32) int32 {
	vrt.R.Point(vrt.KAtomic)
	hb(unsafe.Pointer(p))
	*p += d
	return *p
}
func AddInt64(p *int64, d int64) int64 {
	vrt.R.Point(vrt.KAtomic)
	hb(unsafe.Pointer(p))
	*p += d
	return *p
}
func LoadUint32(p *uint32) uint32     { vrt.R.Point(vrt.KAtomic); hb(unsafe.Pointer(p)); return *p }
func LoadUint64(p *uint64) uint64     { vrt.R.Point(vrt.KAtomic); hb(unsafe.Pointer(p)); return *p }
func LoadInt32(p *int32) int32        { vrt.R.Point(vrt.KAtomic); hb(unsafe.Pointer(p)); return *p }
func LoadInt64(p *int64) int64        { vrt.R.Point(vrt.KAtomic); hb(unsafe.Pointer(p)); return *p }
func StoreUint32(p *uint32, v uint32) { vrt.R.Point(vrt.KAtomic); hb(unsafe.Pointer(p)); *p = v }
func StoreUint64(p *uint64, v uint64) { vrt.R.Point(vrt.KAtomic); hb(unsafe.Pointer(p)); *p = v }
func StoreInt32(p *int32, v int32)    { vrt.R.Point(vrt.KAtomic); hb(unsafe.Pointer(p)); *p = v }
func StoreInt64(p *int64, v int64)    { vrt.R.Point(vrt.KAtomic); hb(unsafe.Pointer(p)); *p = v }
func CompareAndSwapUint32(p *uint32, o, n uint32) bool {
	vrt.R.Point(vrt.KAtomic)
	hb(unsafe.Pointer(p))
	if *p == o {
		*p = n
		return true
	}
	return false
}
func CompareAndSwapUint64(p *uint64, o, n uint64) bool {
	vrt.R.Point(vrt.KAtomic)
	hb(unsafe.Pointer(p))
	if *p == o {
		*p = n
		return true
	}
	return false
}
func CompareAndSwapInt32(p *int32, o, n int32) bool {
	vrt.R.Point(vrt.KAtomic)
	hb(unsafe.Pointer(p))
	if *p == o {
		*p = n
		return true
	}
	return false
}
