// Package vsync stands in for "sync" in instrumented code.
package vsync

import "verif/vrt"

type Locker interface {
	Lock()
	Unlock()
}

type Mutex struct {
	held  bool
	owner int
	hb    vrt.SyncClock
}

// UnlockHook, when set, is called right after a mutex was released (harness observation point; not a
// scheduling point).
var UnlockHook func(m *Mutex)

func init() { vrt.OnRun(func(*vrt.RT) { UnlockHook = nil }) }

func (m *Mutex) Lock() {
	rt := vrt.R
	rt.Point(vrt.KMutex)
	rt.Block(func() bool { return !m.held })
	m.held = true
	m.owner = vrt.CurThread().ID
	vrt.HBAcquire(&m.hb)
}

func (m *Mutex) TryLock() bool {
	rt := vrt.R
	rt.Point(vrt.KMutex)
	if rt.Killing() || m.held {
		return false
	}
	m.held = true
	m.owner = vrt.CurThread().ID
	vrt.HBAcquire(&m.hb)
	return true
}

func (m *Mutex) Unlock() {
	if vrt.R.Killing() {
		return
	}
	if !m.held {
		panic("sync: unlock of unlocked mutex")
	}
	vrt.HBRelease(&m.hb)
	m.held = false
	if UnlockHook != nil {
		UnlockHook(m)
	}
	// a thread can be preempted right after releasing a mutex, before its next (possibly unsynchronised)
	// action such as handing a reply to the connection
	vrt.R.Point(vrt.KMutex)
}

// Held is for harness inspection.
func (m *Mutex) Held() bool { return m.held }

type RWMutex struct {
	w        bool
	r        int
	hbW, hbR vrt.SyncClock
}

func (m *RWMutex) Lock() {
	rt := vrt.R
	rt.Point(vrt.KMutex)
	rt.Block(func() bool { return !m.w && m.r == 0 })
	m.w = true
	vrt.HBAcquire(&m.hbW)
	vrt.HBAcquire(&m.hbR)
}
func (m *RWMutex) Unlock() {
	if vrt.R.Killing() {
		return
	}
	if !m.w {
		panic("sync: Unlock of unlocked RWMutex")
	}
	vrt.HBRelease(&m.hbW)
	m.w = false
}
func (m *RWMutex) RLock() {
	rt := vrt.R
	rt.Point(vrt.KMutex)
	rt.Block(func() bool { return !m.w })
	m.r++
	vrt.HBAcquire(&m.hbW)
}
func (m *RWMutex) RUnlock() {
	if vrt.R.Killing() {
		return
	}
	if m.r <= 0 {
		panic("sync: RUnlock of unlocked RWMutex")
	}
	vrt.HBRelease(&m.hbR)
	m.r--
}

type WaitGroup struct {
	n  int
	hb vrt.SyncClock
}

func (w *WaitGroup) Add(d int) {
	if d < 0 {
		vrt.HBRelease(&w.hb)
	}
	w.n += d
	if w.n < 0 && !vrt.R.Killing() {
		panic("sync: negative WaitGroup counter")
	}
}
func (w *WaitGroup) Done() { w.Add(-1) }
func (w *WaitGroup) Wait() {
	rt := vrt.R
	rt.Point(vrt.KMutex)
	rt.Block(func() bool { return w.n <= 0 })
	vrt.HBAcquire(&w.hb)
}

type Once struct {
	done bool
	hb   vrt.SyncClock
}

func (o *Once) Do(f func()) {
	if !o.done {
		o.done = true
		f()
		vrt.HBRelease(&o.hb)
		return
	}
	vrt.HBAcquire(&o.hb)
}
