// Package vsync stands in for "sync" in instrumented code.
package vsync

import "verif/vrt"

type Locker interface {
	Lock()
	Unlock()
}

type Mutex struct {
	held  bool
	owner int
}

// UnlockHook, when set, is called right after a mutex was released (harness observation point; not a
// scheduling point).
var UnlockHook func(m *Mutex)

func init() { vrt.OnRun(func(*vrt.RT) { UnlockHook = nil }) }

func (m *Mutex) Lock() {
	rt := vrt.R
	rt.Point(vrt.KMutex)
	rt.Block(func() bool { return !m.held })
	m.held = true
	m.owner = vrt.CurThread().ID
}

func (m *Mutex) TryLock() bool {
	rt := vrt.R
	rt.Point(vrt.KMutex)
	if rt.Killing() || m.held {
		return false
	}
	m.held = true
	m.owner = vrt.CurThread().ID
	return true
}

func (m *Mutex) Unlock() {
	if vrt.R.Killing() {
		return
	}
	if !m.held {
		panic("sync: unlock of unlocked mutex")
	}
	m.held = false
	if UnlockHook != nil {
		UnlockHook(m)
	}
	// a thread can be preempted right after releasing a mutex, before its next (possibly unsynchronised)
	// action such as handing a reply to the connection
	vrt.R.Point(vrt.KMutex)
}

// Held is for harness inspection.
func (m *Mutex) Held() bool { return m.held }

type RWMutex struct {
	w bool
	r int
}

func (m *RWMutex) Lock() {
	rt := vrt.R
	rt.Point(vrt.KMutex)
	rt.Block(func() bool { return !m.w && m.r == 0 })
	m.w = true
}
func (m *RWMutex) Unlock() {
	if vrt.R.Killing() {
		return
	}
	if !m.w {
		panic("sync: Unlock of unlocked RWMutex")
	}
	m.w = false
}
func (m *RWMutex) RLock() {
	rt := vrt.R
	rt.Point(vrt.KMutex)
	rt.Block(func() bool { return !m.w })
	m.r++
}
func (m *RWMutex) RUnlock() {
	if vrt.R.Killing() {
		return
	}
	if m.r <= 0 {
		panic("sync: RUnlock of unlocked RWMutex")
	}
	m.r--
}

type WaitGroup struct{ n int }

func (w *WaitGroup) Add(d int) {
	w.n += d
	if w.n < 0 && !vrt.R.Killing() {
		panic("sync: negative WaitGroup counter")
	}
}
func (w *WaitGroup) Done() { w.Add(-1) }
func (w *WaitGroup) Wait() {
	rt := vrt.R
	rt.Point(vrt.KMutex)
	rt.Block(func() bool { return w.n <= 0 })
}

type Once struct{ done bool }

func (o *Once) Do(f func()) {
	if !o.done {
		o.done = true
		f()
	}
}
