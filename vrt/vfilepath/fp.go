// Package vfilepath stands in for "path/filepath" on the in-memory file system.
package vfilepath

import (
	"os"
	"path"
	"path/filepath"

	"verif/vrt/vos"
)

type WalkFunc = filepath.WalkFunc

var SkipDir = filepath.SkipDir

func Abs(p string) (string, error) {
	if p == "" {
		p = "."
	}
	if !path.IsAbs(p) {
		p = "/" + p
	}
	return path.Clean(p), nil
}
func Join(e ...string) string   { return filepath.Join(e...) }
func Base(p string) string      { return filepath.Base(p) }
func Dir(p string) string       { return filepath.Dir(p) }
func Ext(p string) string       { return filepath.Ext(p) }
func Clean(p string) string     { return filepath.Clean(p) }
func IsAbs(p string) bool       { return filepath.IsAbs(p) }
func Walk(root string, fn func(path string, info os.FileInfo, err error) error) error {
	return vos.Cur().Walk(root, fn)
}
