// check <ID> [--tier quick|thorough] [--worker k/n --scenario name]
package main

import (
	"fmt"
	"os"
	"path/filepath"
	"runtime"
	"strconv"
	"time"

	"verif/checks"
	_ "verif/gen/n0/server"
	_ "verif/gen/n1/server"
	_ "verif/gen/n2/server"
)

func main() {
	if len(os.Args) < 2 {
		fmt.Fprintln(os.Stderr, "usage: check <ID> [--tier quick|thorough]")
		os.Exit(3)
	}
	c := &checks.Ctx{ID: os.Args[1], Tier: "quick", Worker: -1, Start: time.Now(), NProc: runtime.NumCPU()}
	if t := os.Getenv("VERIF_TIER"); t != "" {
		c.Tier = t
	}
	if s := os.Getenv("VERIF_SEED"); s != "" {
		c.Seed, _ = strconv.Atoi(s)
	}
	if n := os.Getenv("VERIF_NPROC"); n != "" {
		c.NProc, _ = strconv.Atoi(n)
	}
	c.Root = os.Getenv("VERIF_ROOT")
	if c.Root == "" {
		exe, _ := os.Executable()
		c.Root = filepath.Dir(filepath.Dir(exe))
	}
	args := os.Args[2:]
	for i := 0; i < len(args); i++ {
		switch args[i] {
		case "--tier":
			i++
			c.Tier = args[i]
		case "--worker":
			i++
			c.Worker, c.NWorker = checks.ParseWorker(args[i])
		case "--scenario":
			i++
			c.Scen = args[i]
		default:
			c.Args = append(c.Args, args[i])
		}
	}
	f, ok := checks.Registry[c.ID]
	if !ok {
		fmt.Fprintf(os.Stderr, "unknown check %s\n", c.ID)
		os.Exit(3)
	}
	os.Exit(f(c))
}
