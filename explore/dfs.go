// Package explore holds the explorers: deviation-bounded schedule DFS (stateless, CHESS style) and helpers.
package explore

import (
	"crypto/sha256"
	"encoding/hex"
	"fmt"

	"verif/vrt"
)

// Outcome is what one execution of a scenario reports.
type Outcome struct {
	Trace      string   // canonical observation trace (distinct traces are counted)
	Violations []Violation // oracle findings; empty = property held on this execution
	Known      []string    // signatures of listed known findings that fired (execution is then not judged further)
	Nontrivial bool     // by the scenario's stated rule
	EngineErr  string   // harness/engine problem (never a verdict)
}

// Violation is one oracle finding; Sig identifies its class (used to match known findings).
type Violation struct {
	Sig string
	Msg string
}

// Exec is one execution together with its choice sequence.
type Exec struct {
	Choices []int
	Infos   []vrt.ChoiceInfo
	Out     Outcome
	RT      *vrt.RT
}

// Scenario runs the program once under the given chooser and judges it.
type Scenario func(opt vrt.Options) (*vrt.RT, Outcome)

// RunPrefix executes scenario replaying prefix and taking choice 0 afterwards.
func RunPrefix(sc Scenario, base vrt.Options, prefix []int) *Exec {
	x := &Exec{}
	bad := ""
	base.Choose = func(ci vrt.ChoiceInfo) int {
		i := len(x.Choices)
		c := 0
		if i < len(prefix) {
			c = prefix[i]
			if c >= ci.N {
				if bad == "" {
					bad = fmt.Sprintf("replay divergence at choice %d: want %d of %d", i, c, ci.N)
				}
				c = 0
			}
		}
		x.Choices = append(x.Choices, c)
		x.Infos = append(x.Infos, ci)
		return c
	}
	x.RT, x.Out = sc(base)
	if bad != "" {
		x.Out.EngineErr = bad
	} else if len(x.Choices) < len(prefix) {
		x.Out.EngineErr = fmt.Sprintf("replay divergence: execution made %d choices, prefix has %d", len(x.Choices), len(prefix))
	}
	return x
}

func hash(s string) string {
	h := sha256.Sum256([]byte(s))
	return hex.EncodeToString(h[:8])
}

// Stats aggregates an exploration.
type Stats struct {
	Executions   int64
	Points       int64
	MaxChoices   int
	Traces       map[string]int // trace hash -> count
	TraceSample  map[string]string
	Nontrivial   map[string]bool
	Violations   []Found
	KnownHits    map[string]int
	EngineErrs   []string
	CutByKnown   int64
	BoundDone    int
	CapHit       bool
	Deadlocks    int64
}

type Found struct {
	Prefix []int
	Msgs   []Violation
	Trace  string
}

func NewStats() *Stats {
	return &Stats{Traces: map[string]int{}, TraceSample: map[string]string{}, Nontrivial: map[string]bool{}, KnownHits: map[string]int{}}
}

func (st *Stats) Merge(o *Stats) {
	st.Executions += o.Executions
	st.Points += o.Points
	if o.MaxChoices > st.MaxChoices {
		st.MaxChoices = o.MaxChoices
	}
	for k, v := range o.Traces {
		st.Traces[k] += v
	}
	for k, v := range o.TraceSample {
		if _, ok := st.TraceSample[k]; !ok {
			st.TraceSample[k] = v
		}
	}
	for k, v := range o.Nontrivial {
		if v {
			st.Nontrivial[k] = true
		}
	}
	st.Violations = append(st.Violations, o.Violations...)
	for k, v := range o.KnownHits {
		st.KnownHits[k] += v
	}
	st.EngineErrs = append(st.EngineErrs, o.EngineErrs...)
	st.CutByKnown += o.CutByKnown
	st.CapHit = st.CapHit || o.CapHit
	st.Deadlocks += o.Deadlocks
}

func (st *Stats) record(x *Exec, prefix []int) {
	st.Executions++
	if x.RT != nil {
		st.Points += x.RT.Points
	}
	if len(x.Choices) > st.MaxChoices {
		st.MaxChoices = len(x.Choices)
	}
	if x.Out.EngineErr != "" {
		if len(st.EngineErrs) < 5 {
			st.EngineErrs = append(st.EngineErrs, fmt.Sprintf("%s (prefix %v)", x.Out.EngineErr, prefix))
		}
		return
	}
	h := hash(x.Out.Trace)
	st.Traces[h]++
	if _, ok := st.TraceSample[h]; !ok && len(st.TraceSample) < 64 {
		st.TraceSample[h] = x.Out.Trace
	}
	if x.Out.Nontrivial {
		st.Nontrivial[h] = true
	}
	if len(x.Out.Known) > 0 {
		st.CutByKnown++
		for _, k := range x.Out.Known {
			st.KnownHits[k]++
		}
		return
	}
	if len(x.Out.Violations) > 0 && len(st.Violations) < 20 {
		st.Violations = append(st.Violations, Found{Prefix: append([]int{}, x.Choices...), Msgs: x.Out.Violations, Trace: x.Out.Trace})
	}
}

// DFS explores every schedule of sc with at most bound deviations. Work is split between nWorkers
// processes on the subtrees rooted at deviation depth splitDepth (all workers walk the shallower levels
// identically; only worker 0 records them). maxExec caps the number of executions of this worker
// (0 = unlimited); hitting it sets CapHit.
type DFS struct {
	Sc         Scenario
	Base       vrt.Options
	Bound      int
	Worker     int
	NWorkers   int
	SplitDepth int
	MaxExec    int64
	St         *Stats
	counter    int
	StopOnViolation bool
}

func (d *DFS) Run() *Stats {
	if d.St == nil {
		d.St = NewStats()
	}
	if d.NWorkers < 1 {
		d.NWorkers = 1
	}
	d.explore(nil, 0, 0)
	d.St.BoundDone = d.Bound
	return d.St
}

// cost of taking a non-default alternative: every deviation from the default schedule costs 1, whether it
// preempts a runnable thread or picks a different thread after a block (delay-bounding style).
func cost(ci vrt.ChoiceInfo) int { return 1 }

func (d *DFS) explore(prefix []int, used int, depth int) {
	if d.MaxExec > 0 && d.St.Executions >= d.MaxExec {
		d.St.CapHit = true
		return
	}
	if d.StopOnViolation && len(d.St.Violations) > 0 {
		return
	}
	mine := true
	if depth < d.SplitDepth {
		mine = d.Worker == 0
	}
	x := RunPrefix(d.Sc, d.Base, prefix)
	if mine {
		d.St.record(x, prefix)
	}
	if x.Out.EngineErr != "" || len(x.Out.Known) > 0 {
		return // do not explore below a diverged or known-corrupted execution
	}
	// cost already spent along this execution's choices
	spent := make([]int, len(x.Choices)+1)
	for i, c := range x.Choices {
		spent[i+1] = spent[i]
		if c != 0 {
			spent[i+1] += cost(x.Infos[i])
		}
	}
	_ = used
	for i := len(prefix); i < len(x.Choices); i++ {
		ci := x.Infos[i]
		c := spent[i] + cost(ci)
		if c > d.Bound {
			continue
		}
		for alt := 1; alt < ci.N; alt++ {
			np := append(append([]int{}, x.Choices[:i]...), alt)
			if depth+1 == d.SplitDepth {
				idx := d.counter
				d.counter++
				if idx%d.NWorkers != d.Worker {
					continue
				}
			}
			d.explore(np, c, depth+1)
		}
	}
}
