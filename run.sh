#!/bin/bash
# run.sh <ID> <tier> [args...]: regenerate the instrumented copies from the current /repo tree, rebuild the
# check binary (both are no-ops when nothing changed) and run the check. Exit 3 = engine error.
set -u
cd "$(dirname "$0")"
export VERIF_ROOT="$PWD"
export GOFLAGS=-mod=mod GOPROXY=off GOSUMDB=off GOTOOLCHAIN=local
export GOCACHE="${GOCACHE:-$PWD/.cache/go-build}"
REPO="${VERIF_REPO:-/repo}"
ID="$1"; TIER="${2:-${VERIF_TIER:-quick}}"; shift; shift || true
mkdir -p bin .cache
(
  flock 9
  if [ ! -x bin/vinst ] || [ vinst/main.go -nt bin/vinst ]; then
    go build -o bin/vinst ./vinst || exit 3
  fi
  ./bin/vinst -repo "$REPO" -out "$PWD/gen" -nodes n0,n1,n2 -harness "$PWD/harness" || exit 3
  go build -o bin/check ./cmd/check 2> .cache/build.err || { echo "ENGINE-ERROR: instrumented copy does not build"; head -30 .cache/build.err; exit 3; }
) 9> .lock || exit 3
exec ./bin/check "$ID" --tier "$TIER" "$@"
