// vinst rewrites the server and client packages of snower/slock so that goroutines, channels, sync,
// sync/atomic, time, net, os, path/filepath, os/signal and crypto/rand go through the vrt runtime.
// The rewrite is purely syntactic; /repo is never modified.
//
// usage: vinst -repo /repo -out /verif/gen -nodes n0,n1,n2 -harness /verif/harness [-tests]
package main

import (
	"bytes"
	"flag"
	"fmt"
	"go/ast"
	"go/format"
	"go/parser"
	"go/token"
	"os"
	"path/filepath"
	"strconv"
	"strings"

	"golang.org/x/tools/go/ast/astutil"
)

const vrtPath = "verif/vrt"

var shim = map[string]string{ // original import path -> shim path (the local name stays the original base name)
	"sync":          "verif/vrt/vsync",
	"sync/atomic":   "verif/vrt/vatomic",
	"time":          "verif/vrt/vtime",
	"net":           "verif/vrt/vnet",
	"os":            "verif/vrt/vos",
	"os/signal":     "verif/vrt/vsignal",
	"crypto/rand":   "verif/vrt/vcrand",
	"path/filepath": "verif/vrt/vfilepath",
}

func sel(pkg, name string) ast.Expr {
	return &ast.SelectorExpr{X: ast.NewIdent(pkg), Sel: ast.NewIdent(name)}
}
func call(fn ast.Expr, args ...ast.Expr) *ast.CallExpr { return &ast.CallExpr{Fun: fn, Args: args} }

func fatal(f string, a ...interface{}) {
	fmt.Fprintf(os.Stderr, "vinst: "+f+"\n", a...)
	os.Exit(3)
}

func main() {
	repo := flag.String("repo", "/repo", "")
	out := flag.String("out", "/verif/gen", "")
	nodes := flag.String("nodes", "n0", "")
	harness := flag.String("harness", "/verif/harness", "")
	tests := flag.Bool("tests", false, "also rewrite _test.go files (fidelity gate)")
	flag.Parse()
	for _, node := range strings.Split(*nodes, ",") {
		extra := map[string]string{
			"github.com/snower/slock/client": "verif/gen/" + node + "/client",
			"github.com/snower/slock/server": "verif/gen/" + node + "/server",
		}
		for _, pkg := range []string{"server", "client"} {
			dst := filepath.Join(*out, node, pkg)
			keep := map[string]bool{}
			rewriteDir(filepath.Join(*repo, pkg), dst, extra, *tests, keep)
			hd := filepath.Join(*harness, pkg)
			ents, _ := os.ReadDir(hd)
			for _, e := range ents {
				if !strings.HasSuffix(e.Name(), ".go.in") {
					continue
				}
				b, err := os.ReadFile(filepath.Join(hd, e.Name()))
				if err != nil {
					fatal("%v", err)
				}
				s := strings.ReplaceAll(string(b), "NODE", node)
				name := "zz_" + strings.TrimSuffix(e.Name(), ".in")
				writeIfChanged(filepath.Join(dst, name), []byte(s))
				keep[name] = true
			}
			// remove stale files
			old, _ := os.ReadDir(dst)
			for _, e := range old {
				if !keep[e.Name()] {
					os.Remove(filepath.Join(dst, e.Name()))
				}
			}
		}
	}
}

func writeIfChanged(p string, b []byte) {
	if old, err := os.ReadFile(p); err == nil && bytes.Equal(old, b) {
		return
	}
	if err := os.MkdirAll(filepath.Dir(p), 0755); err != nil {
		fatal("%v", err)
	}
	tmp := p + ".tmp"
	if err := os.WriteFile(tmp, b, 0644); err != nil {
		fatal("%v", err)
	}
	if err := os.Rename(tmp, p); err != nil {
		fatal("%v", err)
	}
}

// atomicFields: names of struct fields the package being rewritten passes to sync/atomic by address.
var atomicFields = map[string]bool{}

// commonFieldNames are shared by unrelated structs whose plain updates are all made under a mutex (Lock.refCount
// vs LockManager.refCount, ...): splitting those would only add scheduling points.
var commonFieldNames = map[string]bool{"refCount": true, "state": true, "lock": true, "buffered": true}

func rewriteDir(src, dst string, extra map[string]string, tests bool, keep map[string]bool) {
	ents, err := os.ReadDir(src)
	if err != nil {
		fatal("%v", err)
	}
	// fields that the package updates through sync/atomic somewhere: a plain x.f++ / x.f-- / x.f += n on a field of
	// that name elsewhere is a read-modify-write another thread's atomic update can fall into; it is split in two
	// with a scheduling point in between, so that the explorer can produce the lost update
	atomicFields = map[string]bool{}
	mapNames = map[string]bool{}
	for _, e := range ents {
		n := e.Name()
		if !strings.HasSuffix(n, ".go") || strings.HasSuffix(n, "_test.go") {
			continue
		}
		f, err := parser.ParseFile(token.NewFileSet(), filepath.Join(src, n), nil, 0)
		if err != nil {
			continue
		}
		collectMapNames(f)
		ast.Inspect(f, func(x ast.Node) bool {
			ce, ok := x.(*ast.CallExpr)
			if !ok {
				return true
			}
			se, ok := ce.Fun.(*ast.SelectorExpr)
			if !ok {
				return true
			}
			if id, ok := se.X.(*ast.Ident); !ok || id.Name != "atomic" || len(ce.Args) == 0 {
				return true
			}
			if u, ok := ce.Args[0].(*ast.UnaryExpr); ok && u.Op == token.AND {
				if fs, ok := u.X.(*ast.SelectorExpr); ok && !commonFieldNames[fs.Sel.Name] {
					atomicFields[fs.Sel.Name] = true
				}
			}
			return true
		})
	}
	for _, e := range ents {
		n := e.Name()
		if !strings.HasSuffix(n, ".go") || (strings.HasSuffix(n, "_test.go") && !tests) {
			continue
		}
		fset := token.NewFileSet()
		f, err := parser.ParseFile(fset, filepath.Join(src, n), nil, parser.ParseComments)
		if err != nil {
			fatal("parse %s: %v", n, err)
		}
		if hasBuildTag(f, "verif") == -1 {
			continue // file excluded when the verif tag is on
		}
		rewriteFile(fset, f, extra)
		var buf bytes.Buffer
		if err := format.Node(&buf, fset, f); err != nil {
			fatal("format %s: %v", n, err)
		}
		writeIfChanged(filepath.Join(dst, n), buf.Bytes())
		keep[n] = true
	}
}

// hasBuildTag: 1 if the file requires tag, -1 if it requires !tag, 0 otherwise (simple forms only).
func hasBuildTag(f *ast.File, tag string) int {
	for _, cg := range f.Comments {
		if cg.Pos() > f.Package {
			break
		}
		for _, c := range cg.List {
			t := strings.TrimSpace(c.Text)
			if strings.HasPrefix(t, "//go:build") {
				expr := strings.TrimSpace(strings.TrimPrefix(t, "//go:build"))
				if expr == tag {
					return 1
				}
				if expr == "!"+tag {
					return -1
				}
			}
		}
	}
	return 0
}

func rewriteFile(fset *token.FileSet, f *ast.File, extra map[string]string) {
	for _, imp := range f.Imports {
		p, _ := strconv.Unquote(imp.Path.Value)
		if np, ok := shim[p]; ok {
			base := p[strings.LastIndex(p, "/")+1:]
			if imp.Name == nil {
				imp.Name = ast.NewIdent(base)
			}
			imp.Path.Value = strconv.Quote(np)
		} else if np, ok := extra[p]; ok {
			if imp.Name == nil {
				imp.Name = ast.NewIdent(p[strings.LastIndex(p, "/")+1:])
			}
			imp.Path.Value = strconv.Quote(np)
		}
	}
	used := false
	if !strings.HasSuffix(fset.Position(f.Pos()).Filename, "_test.go") && instrumentMaps(f) {
		used = true
	}
	selN := 0
	goN := 0
	for _, d := range f.Decls {
		fd, ok := d.(*ast.FuncDecl)
		if !ok || fd.Recv != nil || !strings.HasPrefix(fd.Name.Name, "Test") || fd.Body == nil || fd.Type.Params == nil || len(fd.Type.Params.List) != 1 {
			continue
		}
		if !strings.HasSuffix(fset.Position(fd.Pos()).Filename, "_test.go") {
			continue
		}
		used = true
		body := fd.Body
		fd.Body = &ast.BlockStmt{List: []ast.Stmt{&ast.ExprStmt{X: call(sel("vrt", "RunTest"), &ast.FuncLit{Type: &ast.FuncType{Params: &ast.FieldList{}}, Body: body})}}}
	}
	isVrtCall := func(e ast.Expr, name string) *ast.CallExpr {
		ce, ok := e.(*ast.CallExpr)
		if !ok {
			return nil
		}
		s, ok := ce.Fun.(*ast.SelectorExpr)
		if !ok {
			return nil
		}
		if id, ok := s.X.(*ast.Ident); ok && id.Name == "vrt" && s.Sel.Name == name {
			return ce
		}
		return nil
	}
	astutil.Apply(f, nil, func(c *astutil.Cursor) bool { // post-order: children already rewritten
		switch n := c.Node().(type) {
		case *ast.ChanType:
			used = true
			c.Replace(&ast.StarExpr{X: &ast.IndexExpr{X: sel("vrt", "Chan"), Index: n.Value}})
		case *ast.CallExpr:
			if id, ok := n.Fun.(*ast.Ident); ok {
				if id.Name == "make" && len(n.Args) >= 1 {
					if st, ok := n.Args[0].(*ast.StarExpr); ok { // already rewritten chan type
						if ix, ok := st.X.(*ast.IndexExpr); ok {
							if s, ok := ix.X.(*ast.SelectorExpr); ok && s.Sel.Name == "Chan" {
								used = true
								capArg := ast.Expr(&ast.BasicLit{Kind: token.INT, Value: "0"})
								if len(n.Args) > 1 {
									capArg = call(ast.NewIdent("int"), n.Args[1])
								}
								c.Replace(call(&ast.IndexExpr{X: sel("vrt", "MakeChan"), Index: ix.Index}, capArg))
							}
						}
					}
				} else if id.Name == "close" && len(n.Args) == 1 {
					used = true
					c.Replace(call(sel("vrt", "Close"), n.Args[0]))
				}
			}
		case *ast.SendStmt:
			used = true
			c.Replace(&ast.ExprStmt{X: call(sel("vrt", "Send"), n.Chan, n.Value)})
		case *ast.UnaryExpr:
			if n.Op == token.ARROW {
				used = true
				c.Replace(call(sel("vrt", "Recv"), n.X))
			}
		case *ast.AssignStmt:
			if len(n.Lhs) == 1 && len(n.Rhs) == 1 && (n.Tok == token.ADD_ASSIGN || n.Tok == token.SUB_ASSIGN) {
				if se, ok := n.Lhs[0].(*ast.SelectorExpr); ok && atomicFields[se.Sel.Name] {
					used = true
					op := token.ADD
					if n.Tok == token.SUB_ASSIGN {
						op = token.SUB
					}
					c.Replace(splitRMW(n.Lhs[0], op, n.Rhs[0]))
					return true
				}
			}
			if len(n.Lhs) == 2 && len(n.Rhs) == 1 {
				if ce := isVrtCall(n.Rhs[0], "Recv"); ce != nil {
					ce.Fun = sel("vrt", "Recv2")
				}
			}
		case *ast.ValueSpec:
			if len(n.Names) == 2 && len(n.Values) == 1 {
				if ce := isVrtCall(n.Values[0], "Recv"); ce != nil {
					ce.Fun = sel("vrt", "Recv2")
				}
			}
		case *ast.IncDecStmt:
			if se, ok := n.X.(*ast.SelectorExpr); ok && atomicFields[se.Sel.Name] {
				used = true
				op := token.ADD
				if n.Tok == token.DEC {
					op = token.SUB
				}
				c.Replace(splitRMW(n.X, op, &ast.BasicLit{Kind: token.INT, Value: "1"}))
			}
		case *ast.GoStmt:
			used = true
			goN++
			c.Replace(rewriteGo(n, goN))
		case *ast.SelectStmt:
			used = true
			selN++
			c.Replace(rewriteSelect(n, selN))
		}
		return true
	})
	if used {
		astutil.AddNamedImport(fset, f, "vrt", vrtPath)
	}
}

// rewriteGo: `go f(a, b)` => { _vf := f; _va0 := a; _va1 := b; vrt.Go0(func() { _vf(_va0, _va1) }) }
// — function value, receiver and arguments are evaluated at the go statement, exactly as Go does.
func rewriteGo(g *ast.GoStmt, n int) ast.Stmt {
	var pre []ast.Stmt
	fun := g.Call.Fun
	bind := true
	switch x := fun.(type) {
	case *ast.Ident:
		switch x.Name {
		case "panic", "print", "println", "close", "delete", "copy", "append", "recover":
			bind = false
		}
	case *ast.SelectorExpr:
		if id, ok := x.X.(*ast.Ident); ok && id.Name == "vrt" {
			bind = false
		}
	case *ast.FuncLit:
	default:
	}
	if bind {
		fv := ast.NewIdent("_vf" + strconv.Itoa(n))
		pre = append(pre, &ast.AssignStmt{Lhs: []ast.Expr{fv}, Tok: token.DEFINE, Rhs: []ast.Expr{fun}})
		fun = fv
	}
	var args []ast.Expr
	for i, a := range g.Call.Args {
		av := ast.NewIdent("_va" + strconv.Itoa(n) + "_" + strconv.Itoa(i))
		pre = append(pre, &ast.AssignStmt{Lhs: []ast.Expr{av}, Tok: token.DEFINE, Rhs: []ast.Expr{a}})
		args = append(args, av)
	}
	inner := &ast.CallExpr{Fun: fun, Args: args, Ellipsis: g.Call.Ellipsis}
	if g.Call.Ellipsis != token.NoPos {
		inner.Ellipsis = 1
	}
	lit := &ast.FuncLit{Type: &ast.FuncType{Params: &ast.FieldList{}}, Body: &ast.BlockStmt{List: []ast.Stmt{&ast.ExprStmt{X: inner}}}}
	pre = append(pre, &ast.ExprStmt{X: call(sel("vrt", "Go0"), lit)})
	return &ast.BlockStmt{List: pre}
}

// children were already rewritten: recv exprs are vrt.Recv(ch) calls, sends are ExprStmt(vrt.Send(ch,v))
func rewriteSelect(s *ast.SelectStmt, n int) ast.Stmt {
	v := ast.NewIdent("_vsel" + strconv.Itoa(n))
	hasDefault := "false"
	var cases []ast.Expr
	var clauses []ast.Stmt
	idx := 0
	for _, st := range s.Body.List {
		cc := st.(*ast.CommClause)
		body := cc.Body
		if cc.Comm == nil {
			hasDefault = "true"
			clauses = append(clauses, &ast.CaseClause{List: nil, Body: body})
			continue
		}
		lit := &ast.BasicLit{Kind: token.INT, Value: strconv.Itoa(idx)}
		switch cm := cc.Comm.(type) {
		case *ast.ExprStmt: // <-ch  or  vrt.Send(ch, v)
			ce := cm.X.(*ast.CallExpr)
			fn := ce.Fun.(*ast.SelectorExpr).Sel.Name
			if fn == "Recv" {
				cases = append(cases, call(sel("vrt", "RecvCase"), ce.Args[0]))
			} else if fn == "Send" {
				cases = append(cases, call(sel("vrt", "SendCase"), ce.Args[0], ce.Args[1]))
			} else {
				fatal("unknown select comm %s", fn)
			}
		case *ast.AssignStmt: // v := <-ch / v = <-ch / v, ok := <-ch
			ce := cm.Rhs[0].(*ast.CallExpr)
			cases = append(cases, call(sel("vrt", "RecvCase"), ce.Args[0]))
			fn := "SelRecv"
			if len(cm.Lhs) == 2 {
				fn = "SelRecv2"
			}
			as := &ast.AssignStmt{Lhs: cm.Lhs, Tok: cm.Tok, Rhs: []ast.Expr{call(sel("vrt", fn), ce.Args[0], v)}}
			body = append([]ast.Stmt{as}, body...)
		default:
			fatal("unknown comm clause")
		}
		clauses = append(clauses, &ast.CaseClause{List: []ast.Expr{lit}, Body: body})
		idx++
	}
	if hasDefault == "false" {
		clauses = append(clauses, &ast.CaseClause{List: nil, Body: []ast.Stmt{&ast.ExprStmt{X: call(ast.NewIdent("panic"), &ast.BasicLit{Kind: token.STRING, Value: "\"vrt: select fell through\""})}}})
	}
	args := append([]ast.Expr{ast.NewIdent(hasDefault)}, cases...)
	sw := &ast.SwitchStmt{Tag: &ast.SelectorExpr{X: v, Sel: ast.NewIdent("Index")}, Body: &ast.BlockStmt{List: clauses}}
	return &ast.BlockStmt{List: []ast.Stmt{
		&ast.AssignStmt{Lhs: []ast.Expr{v}, Tok: token.DEFINE, Rhs: []ast.Expr{call(sel("vrt", "Select"), args...)}},
		sw,
	}}
}

// splitRMW turns `x op= v` into { t := x; vrt.R.Point(vrt.KAtomic); x = t op v }.
func splitRMW(x ast.Expr, op token.Token, v ast.Expr) ast.Stmt {
	t := ast.NewIdent("vrtRMW")
	return &ast.BlockStmt{List: []ast.Stmt{
		&ast.AssignStmt{Lhs: []ast.Expr{t}, Tok: token.DEFINE, Rhs: []ast.Expr{x}},
		&ast.ExprStmt{X: call(&ast.SelectorExpr{X: sel("vrt", "R"), Sel: ast.NewIdent("Point")}, sel("vrt", "KAtomic"))},
		&ast.AssignStmt{Lhs: []ast.Expr{x}, Tok: token.ASSIGN, Rhs: []ast.Expr{&ast.BinaryExpr{X: t, Op: op, Y: v}}},
	}}
}

// ---- map accesses (happens-before race check, vrt/hb.go)

// mapNames: names of struct fields, variables and locals of the package whose declared type contains a map (or
// that are assigned a map / an alias of such a field). The match at an access is by name only; vrt.MapAcc ignores
// whatever is not a map at run time.
var mapNames = map[string]bool{}

func containsMapType(e ast.Expr) bool {
	found := false
	ast.Inspect(e, func(n ast.Node) bool {
		if _, ok := n.(*ast.MapType); ok {
			found = true
		}
		return !found
	})
	return found
}

func isMapValue(e ast.Expr) bool {
	switch x := e.(type) {
	case *ast.CallExpr:
		if id, ok := x.Fun.(*ast.Ident); ok && id.Name == "make" && len(x.Args) > 0 {
			_, ok := x.Args[0].(*ast.MapType)
			return ok
		}
	case *ast.CompositeLit:
		_, ok := x.Type.(*ast.MapType)
		return ok
	}
	return false
}

func collectMapNames(f *ast.File) {
	for pass := 0; pass < 2; pass++ {
		ast.Inspect(f, func(n ast.Node) bool {
			switch x := n.(type) {
			case *ast.Field:
				if x.Type != nil && containsMapType(x.Type) {
					if _, isFunc := x.Type.(*ast.FuncType); !isFunc {
						for _, nm := range x.Names {
							mapNames[nm.Name] = true
						}
					}
				}
			case *ast.ValueSpec:
				if x.Type != nil && containsMapType(x.Type) {
					for _, nm := range x.Names {
						mapNames[nm.Name] = true
					}
				}
				for i, v := range x.Values {
					if i < len(x.Names) && (isMapValue(v) || mapBase(v) != "") {
						mapNames[x.Names[i].Name] = true
					}
				}
			case *ast.AssignStmt:
				for i, v := range x.Rhs {
					if i < len(x.Lhs) && len(x.Lhs) == len(x.Rhs) {
						if id, ok := x.Lhs[i].(*ast.Ident); ok && id.Name != "_" && (isMapValue(v) || (pass == 1 && mapBase(v) != "")) {
							mapNames[id.Name] = true
						}
					}
				}
			}
			return true
		})
	}
}

// mapBase: the candidate name at the root of a pure access path (idents, selectors, indexing), "" otherwise.
func mapBase(e ast.Expr) string {
	switch x := e.(type) {
	case *ast.Ident:
		if mapNames[x.Name] {
			return x.Name
		}
	case *ast.SelectorExpr:
		if !pureExpr(x.X) {
			return ""
		}
		if mapNames[x.Sel.Name] {
			return x.Sel.Name
		}
	case *ast.IndexExpr:
		if pureExpr(x.Index) {
			return mapBase(x.X)
		}
	case *ast.ParenExpr:
		return mapBase(x.X)
	}
	return ""
}

func pureExpr(e ast.Expr) bool {
	switch x := e.(type) {
	case *ast.Ident, *ast.BasicLit:
		return true
	case *ast.SelectorExpr:
		return pureExpr(x.X)
	case *ast.IndexExpr:
		return pureExpr(x.X) && pureExpr(x.Index)
	case *ast.ParenExpr:
		return pureExpr(x.X)
	case *ast.StarExpr:
		return pureExpr(x.X)
	case *ast.BinaryExpr:
		return pureExpr(x.X) && pureExpr(x.Y)
	case *ast.UnaryExpr:
		return x.Op != token.ARROW && pureExpr(x.X)
	}
	return false
}

func cloneExpr(e ast.Expr) ast.Expr {
	switch x := e.(type) {
	case *ast.Ident:
		return ast.NewIdent(x.Name)
	case *ast.BasicLit:
		return &ast.BasicLit{Kind: x.Kind, Value: x.Value}
	case *ast.SelectorExpr:
		return &ast.SelectorExpr{X: cloneExpr(x.X), Sel: ast.NewIdent(x.Sel.Name)}
	case *ast.IndexExpr:
		return &ast.IndexExpr{X: cloneExpr(x.X), Index: cloneExpr(x.Index)}
	case *ast.ParenExpr:
		return &ast.ParenExpr{X: cloneExpr(x.X)}
	case *ast.StarExpr:
		return &ast.StarExpr{X: cloneExpr(x.X)}
	case *ast.BinaryExpr:
		return &ast.BinaryExpr{X: cloneExpr(x.X), Op: x.Op, Y: cloneExpr(x.Y)}
	case *ast.UnaryExpr:
		return &ast.UnaryExpr{Op: x.Op, X: cloneExpr(x.X)}
	}
	return e
}

type mapAccess struct {
	x     ast.Expr
	write bool
}

// stmtMapAccesses: accesses made by the statement itself (its nested blocks are statements lists of their own).
func stmtMapAccesses(s ast.Stmt) []mapAccess {
	var out []mapAccess
	writes := map[ast.Expr]bool{}
	switch x := s.(type) {
	case *ast.AssignStmt:
		for _, l := range x.Lhs {
			writes[l] = true
		}
	case *ast.IncDecStmt:
		writes[x.X] = true
	}
	ast.Inspect(s, func(n ast.Node) bool {
		switch x := n.(type) {
		case *ast.BlockStmt, *ast.FuncLit:
			return false
		case *ast.CaseClause, *ast.CommClause:
			return false
		case *ast.RangeStmt:
			if x != s {
				return false
			}
			if mapBase(x.X) != "" {
				out = append(out, mapAccess{x.X, false})
			}
		case *ast.IndexExpr:
			if mapBase(x.X) != "" {
				out = append(out, mapAccess{x.X, writes[ast.Expr(x)]})
			}
		case *ast.CallExpr:
			if id, ok := x.Fun.(*ast.Ident); ok && id.Name == "delete" && len(x.Args) == 2 && mapBase(x.Args[0]) != "" {
				out = append(out, mapAccess{x.Args[0], true})
			}
		}
		return true
	})
	return out
}

func mapAccStmt(a mapAccess) ast.Stmt {
	w := "false"
	if a.write {
		w = "true"
	}
	return &ast.ExprStmt{X: call(sel("vrt", "MapAcc"), cloneExpr(a.x), ast.NewIdent(w))}
}

// instrumentMaps inserts vrt.MapAcc(<map>, <write>) before every statement that reads, writes, deletes from or
// ranges over a candidate map, and at the top of every range body (each iteration step is a read).
func instrumentMaps(f *ast.File) bool {
	any := false
	fix := func(list []ast.Stmt) []ast.Stmt {
		var out []ast.Stmt
		for _, s := range list {
			inner := s
			if l, ok := s.(*ast.LabeledStmt); ok {
				inner = l.Stmt
			}
			for _, a := range stmtMapAccesses(inner) {
				out = append(out, mapAccStmt(a))
				any = true
			}
			if r, ok := inner.(*ast.RangeStmt); ok && mapBase(r.X) != "" && r.Body != nil {
				r.Body.List = append([]ast.Stmt{mapAccStmt(mapAccess{r.X, false})}, r.Body.List...)
			}
			out = append(out, s)
		}
		return out
	}
	ast.Inspect(f, func(n ast.Node) bool {
		switch x := n.(type) {
		case *ast.BlockStmt:
			x.List = fix(x.List)
		case *ast.CaseClause:
			x.Body = fix(x.Body)
		case *ast.CommClause:
			x.Body = fix(x.Body)
		}
		return true
	})
	return any
}
