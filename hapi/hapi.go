// Package hapi is the node interface shared by the drivers and the harness file injected into every
// instrumented copy of package server.
package hapi

import (
	"fmt"
	"sort"
	"strings"

	"github.com/snower/slock/protocol"
)

type Config struct {
	Name       string // node name = thread group
	DataDir    string
	Port       uint
	SlaveOf    string
	ReplSet    string
	FastKeys   uint
	Concurrent uint
	AofTime    uint
	AofParcent float64
	AofQueue   uint
	RewriteSz  uint
	FileBuf    uint
	RingSz     uint
	RingMaxSz  uint
	AckMode    uint
	Subscribe  bool
	PreDBs     int // databases created up front (engine mode); default 1
	// MissingAcks > 0 (engine mode): every database waits for this many follower acknowledgements that never come
	// (as with followers that are configured but unreachable): acknowledgement-required requests end by their wait timeout
	MissingAcks int
}

func (c Config) WithDefaults() Config {
	if c.Name == "" {
		c.Name = "n0"
	}
	if c.DataDir == "" {
		c.DataDir = "/data/" + c.Name
	}
	if c.Port == 0 {
		c.Port = 5658
	}
	if c.FastKeys == 0 {
		c.FastKeys = 4
	}
	if c.Concurrent == 0 {
		c.Concurrent = 1
	}
	if c.AofTime == 0 {
		c.AofTime = 1
	}
	if c.AofParcent == 0 {
		c.AofParcent = 0.3
	}
	if c.AofQueue == 0 {
		c.AofQueue = 4096
	}
	if c.RewriteSz == 0 {
		c.RewriteSz = 1 << 20
	}
	if c.FileBuf == 0 {
		c.FileBuf = 4096
	}
	if c.RingSz == 0 {
		c.RingSz = 4096
	}
	if c.PreDBs == 0 {
		c.PreDBs = 1
	}
	if c.RingMaxSz == 0 {
		c.RingMaxSz = 1 << 20
	}
	return c
}

// Event is one reply observed at a client's result callback.
type Event struct {
	Seq     int
	T       int64 // virtual ns since start of the execution
	Client  string
	Cmd     uint8
	Req     byte // RequestId[0]
	ReqFull [16]byte
	Result  uint8
	LCount  uint16
	LRCount uint8
	Data    []byte
	DB      uint8
	Key     [16]byte
	LockId  [16]byte
	Thread  int
}

func (e Event) String() string {
	return fmt.Sprintf("%s:r%d=%s lc%d lrc%d id%x d%x", e.Client, e.Req, ResultName(e.Result), e.LCount, e.LRCount, e.LockId[15], e.Data)
}

func ResultName(r uint8) string {
	names := []string{"SUCCED", "UNKNOWN_MAGIC", "UNKNOWN_VERSION", "UNKNOWN_DB", "UNKNOWN_COMMAND", "LOCKED_ERROR", "UNLOCK_ERROR", "UNOWN_ERROR", "TIMEOUT", "EXPRIED", "STATE_ERROR", "ERROR", "LOCK_ACK_WAITING"}
	if int(r) < len(names) {
		return names[r]
	}
	return fmt.Sprintf("R%d", r)
}

type Hold struct {
	LockId      [16]byte
	Req         [16]byte
	Depth       uint8
	Count       uint16
	Rcount      uint8
	Flag        uint8
	TimeoutFlag uint16
	ExpriedFlag uint16
	Expried     uint16
	ExpriedIn   int64 // expriedTime - current server second (may be huge for unlimited)
	ExpriedAt   int64 // expriedTime as virtual seconds since the start of the execution (not part of Canon)
	Owner       string // in-memory client whose connection the hold is bound to (notices go there)
	StartAgo    int64
	IsAof       bool
	AofTime     uint8
	AckCount    uint8
	Internal    string // implementation-only fields that influence the future (re-check counters, wheel placement)
}

type Waiter struct {
	LockId      [16]byte
	Req         [16]byte
	Count       uint16
	Rcount      uint8
	Flag        uint8
	Timeout     uint16
	TimeoutFlag uint16
	Expried     uint16
	ExpriedFlag uint16
	TimeoutIn   int64
	TimeoutAt   int64 // timeoutTime as virtual seconds since the start of the execution (not part of Canon)
	Owner       string
	Internal    string
}

type KeyState struct {
	DB       uint8
	Key      [16]byte
	Locked   uint32 // manager's own count
	Holds    []Hold // grant order, oldest first
	Waiters  []Waiter
	Value    []byte
	Waited   bool
	Managers int // live managers carrying this key
	Internal string
}

func (k KeyState) DepthSum() int {
	n := 0
	for _, h := range k.Holds {
		n += int(h.Depth)
	}
	return n
}

type DBCounts struct {
	DB                                   uint8
	LockedCount, WaitCount, KeyCount     uint32
	LockCount, UnLockCount               uint64
	TimeoutedCount, ExpriedCount         uint32
	UnlockErrorCount                     uint32
	CensusLocked, CensusWait, CensusKeys int
	// leftovers found by walking wheels, queues and pools
	WheelLive   int // entries in timer wheels that still reference a live request/hold
	WheelDead   int // entries in timer wheels whose request is finished (awaiting lazy removal)
	Orphans     int // Lock objects reachable from a live structure with manager == nil (freed but referenced)
	Unindexed   int // managers reachable from wheels but not from the key index
	ExecQueued  int
	AckPending  int
	WaitRemove  int // managers parked in the delayed-removal wheel
	Values      int // keys that still carry a value
	Detail      string
	// structural anomalies of the timer tables: a bucket queue object reachable twice (two deadlines, both
	// tables, or a table and the free pool), a bucket whose own deadline differs from the one it is filed
	// under, a live request filed under a deadline that is not its own
	Misfiled       int
	MisfiledDetail string
}

type Snapshot struct {
	Keys   []KeyState
	DBs    []DBCounts
	Phase  int64  // virtual ns within the current second
	Extra  string // remaining implementation state relevant for state identity (pool sizes, wheel cursors)
}

func (s *Snapshot) Key(db uint8, key [16]byte) *KeyState {
	for i := range s.Keys {
		if s.Keys[i].DB == db && s.Keys[i].Key == key {
			return &s.Keys[i]
		}
	}
	return nil
}

// UserString renders only what is visible at the API level (used by oracles and restart comparison).
func (s *Snapshot) UserString() string {
	var rows []string
	for _, k := range s.Keys {
		if len(k.Holds) == 0 && len(k.Waiters) == 0 && k.Value == nil {
			continue
		}
		r := fmt.Sprintf("db%d key%x val%x:", k.DB, k.Key[15], k.Value)
		for _, h := range k.Holds {
			r += fmt.Sprintf(" H(id%x d%d c%d rc%d in%d)", h.LockId[15], h.Depth, h.Count, h.Rcount, h.ExpriedIn)
		}
		for _, w := range k.Waiters {
			r += fmt.Sprintf(" W(id%x c%d rc%d in%d)", w.LockId[15], w.Count, w.Rcount, w.TimeoutIn)
		}
		rows = append(rows, r)
	}
	sort.Strings(rows)
	return strings.Join(rows, "\n")
}

// Canon is the canonical state key for explicit-state search.
func (s *Snapshot) Canon() string {
	var b strings.Builder
	for _, k := range s.Keys {
		fmt.Fprintf(&b, "K%d/%x L%d w%v m%d v%x %s|", k.DB, k.Key, k.Locked, k.Waited, k.Managers, k.Value, k.Internal)
		for _, h := range k.Holds {
			fmt.Fprintf(&b, "H%x/%x d%d c%d r%d f%x t%x e%x x%d in%d sa%d a%v at%d ak%d %s o%s;", h.LockId, h.Req, h.Depth, h.Count, h.Rcount, h.Flag, h.TimeoutFlag, h.ExpriedFlag, h.Expried, h.ExpriedIn, h.StartAgo, h.IsAof, h.AofTime, h.AckCount, h.Internal, h.Owner)
		}
		for _, w := range k.Waiters {
			fmt.Fprintf(&b, "W%x/%x c%d r%d f%x to%d t%x e%d ef%x in%d %s o%s;", w.LockId, w.Req, w.Count, w.Rcount, w.Flag, w.Timeout, w.TimeoutFlag, w.Expried, w.ExpriedFlag, w.TimeoutIn, w.Internal, w.Owner)
		}
		b.WriteString("\n")
	}
	for _, d := range s.DBs {
		fmt.Fprintf(&b, "D%d l%d w%d k%d wl%d wd%d wr%d\n", d.DB, d.LockedCount, d.WaitCount, d.KeyCount, d.WheelLive, d.WheelDead, d.WaitRemove)
	}
	fmt.Fprintf(&b, "ph%d %s", s.Phase, s.Extra)
	return b.String()
}

type Client interface {
	Name() string
	Do(cmd *protocol.LockCommand)
	Close()
}

// Node is one slock instance under the runtime.
type Node interface {
	StartEngine() error // engine only: leader state, no listener
	Start() error       // full node: the sequence of main.go
	NewMemClient(name string) Client
	Events() []Event
	ClearEvents()
	Snapshot() *Snapshot
	StateName() string
	// OnShardUnlock registers fn to be called whenever a shard mutex of any db is released.
	OnShardUnlock(fn func(db uint8, shard int))
	Poke(what string, args ...interface{}) interface{} // harness-specific extras
}

var Factories = map[string]func(Config) Node{}

// Cmd builds a LockCommand from small integers.
type Cmd struct {
	Type        uint8 // 1 lock, 2 unlock
	Req         byte
	DB          uint8
	Key         byte
	Id          byte
	Flag        uint8
	Timeout     uint16
	TimeoutFlag uint16
	Expried     uint16
	ExpriedFlag uint16
	Count       uint16
	Rcount      uint8
	Data        []byte // raw value frame (incl. 4-byte length), nil for none
}

func (c Cmd) Build() *protocol.LockCommand {
	l := &protocol.LockCommand{}
	l.Magic, l.Version, l.CommandType = protocol.MAGIC, protocol.VERSION, c.Type
	l.RequestId[0] = c.Req
	l.RequestId[15] = 0xee
	l.DbId = c.DB
	l.LockKey[15] = c.Key
	l.LockId[15] = c.Id
	l.Flag = c.Flag
	l.Timeout, l.TimeoutFlag, l.Expried, l.ExpriedFlag = c.Timeout, c.TimeoutFlag, c.Expried, c.ExpriedFlag
	l.Count, l.Rcount = c.Count, c.Rcount
	if c.Data != nil {
		l.Flag |= protocol.LOCK_FLAG_CONTAINS_DATA
		l.Data = protocol.NewLockCommandDataFromOriginBytes(append([]byte{}, c.Data...))
	}
	return l
}

func (c Cmd) String() string {
	t := "LOCK"
	if c.Type == 2 {
		t = "UNLOCK"
	}
	s := fmt.Sprintf("%s r%d db%d k%d id%d", t, c.Req, c.DB, c.Key, c.Id)
	if c.Flag != 0 {
		s += fmt.Sprintf(" f%x", c.Flag)
	}
	if c.Type == 1 {
		s += fmt.Sprintf(" t%d/%x e%d/%x c%d rc%d", c.Timeout, c.TimeoutFlag, c.Expried, c.ExpriedFlag, c.Count, c.Rcount)
	} else if c.Rcount != 0 {
		s += fmt.Sprintf(" rc%d", c.Rcount)
	}
	if c.Data != nil {
		s += fmt.Sprintf(" data%x", c.Data)
	}
	return s
}

// QOp is one operation on an internal queue (C20); QObs what it returned.
type QOp struct {
	Op  string `json:"op"`
	Arg int    `json:"arg,omitempty"`
}

type QObs struct {
	Ret   int    // element id returned (0 = nil / none), or Len, or 1/0 for accepted/refused
	Iter  []int  // for iter: element ids in order (0 = hole)
	State string // structural state after the op (cursors, node sizes), for canonical keys
	Err   string // panic message if the operation crashed
}

// QueueExec is set by the harness: runs ops on a fresh queue of the given kind and parameters.
var QueueExec func(kind string, params []int, ops []QOp) []QObs

// ---- election protocol driver (C12): real ArbiterManager objects, message delivery decided by the explorer

type ArbMember struct {
	Weight  uint32 `json:"w"`
	Arbiter bool   `json:"a,omitempty"`
	Log     int    `json:"l"` // ordinal of the member's log position (larger = newer; the ids wrap between 1 and 2)
	Leader  bool   `json:"leader,omitempty"` // this member is a live leader; all the others have just been restarted from their saved metadata (they hold no role for it yet and learn it from its replies only)
	StaleBy int    `json:"s,omitempty"` // every member's CACHED view of this member's position (its own included) lags its real log by this many ordinals (the last status poll is older than the last entry)
}

type ArbSpec struct {
	Name       string      `json:"name"`
	Members    []ArbMember `json:"members"`
	Candidates []int       `json:"cands"`
	Down       [][2]int    `json:"down,omitempty"` // links that are offline for the whole run
	Rounds     int         `json:"rounds"`         // candidacies per candidate (retry after a failure)
	MaxLoss    int         `json:"maxloss"`        // at most this many lost requests / lost replies per history
	Restarts   int         `json:"restarts,omitempty"` // at most this many kill-and-restart events of non-candidate members (state reloaded from the saved metadata)
	AckedLog   int         `json:"acked,omitempty"`    // >0: a record at this log ordinal was acknowledged under the configured ack mode before the leader died: every winner must hold it
}

// ArbEvent decides the fate of one pending request, named "from>to:METHOD:n".
type ArbEvent struct {
	Msg  string `json:"m"`
	Fate string `json:"f"` // deliver | lose | deliver-lose-reply
}

type ArbObs struct {
	Key     string   // canonical state after the history ("" if the history is not executable)
	Pending []string // names of the requests awaiting a decision
	Viol    []string // "sig|message"
	Winners []string // candidates whose commit round gathered a majority: "c<idx>-><host>"
	Log     []string
	Losses  int
	Restarts int
	Err     string
}

// ArbExec is set by the harness; it must be called inside a vrt run.
var ArbExec func(spec ArbSpec, hist []ArbEvent) ArbObs
