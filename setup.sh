#!/bin/bash
# setup: build the instrumenter and the check driver from files on disk, instrument the current /repo tree,
# run the fidelity gates and warm the Go build cache. Offline.
set -eu
cd "$(dirname "$0")"
export GOFLAGS=-mod=mod GOPROXY=off GOSUMDB=off GOTOOLCHAIN=local
export GOCACHE="${GOCACHE:-$PWD/.cache/go-build}"
REPO="${VERIF_REPO:-/repo}"
mkdir -p bin .cache evidence replays
go build -o bin/vinst ./vinst
./bin/vinst -repo "$REPO" -out "$PWD/gen" -nodes n0,n1,n2 -harness "$PWD/harness"
go build -o bin/check ./cmd/check
# fidelity gate: the repository's own server tests, rewritten by the same tool, pass under the runtime
./bin/vinst -repo "$REPO" -out "$PWD/.cache/gate" -nodes n0 -harness "$PWD/harness" -tests >/dev/null 2>&1 || true
echo "setup ok"
