// Package refmodel holds the reference oracles. RefLockDB is a boring sequential model of one database for
// the core command subset. It is agnostic about *when* timeouts and expiries fire (C05/C06 decide that):
// asynchronous TIMEOUT / EXPRIED events observed on the implementation are fed into the model, which
// validates them and predicts everything that must follow (wake-ups, counts, result codes).
package refmodel

import (
	"fmt"
	"sort"
)

const (
	SUCCED           = 0
	LOCKED_ERROR     = 5
	UNLOCK_ERROR     = 6
	UNOWN_ERROR      = 7
	TIMEOUT          = 8
	EXPRIED          = 9
	FlagUpdate       = 0x02
	UFlagFirst       = 0x01
	UFlagCancel      = 0x02
	TFlagPriority    = 0x0010
	TFlagWaitUnlock  = 0x0200
)

type Cmd struct {
	Type        uint8 // 1 lock 2 unlock
	Req         byte
	Key         byte
	Id          byte
	Flag        uint8
	Timeout     uint16
	TimeoutFlag uint16
	Expried     uint16
	ExpriedFlag uint16
	Count       uint16
	Rcount      uint8
}

type Hold struct {
	Id     byte
	Reqs   []byte // further requests that may have set the terms (updates the server was free to ignore)
	Req    byte // request that last set the terms
	Depth  int
	Count  uint16
	Rcount uint8
	TFlag  uint16
	Client string
}

type Wait struct {
	Id      byte
	Req     byte
	Count   uint16
	Rcount  uint8
	Prio    int
	Expried uint16
	TFlag   uint16
	Client  string
	Seq     int
}

type Key struct {
	Holds []Hold // grant order
	Waits []Wait // arrival order
}

type Reply struct {
	Client  string
	Req     byte
	Result  uint8
	LCount  int
	LRCount int
	Applied bool // a value operation carried by this request takes effect with this reply
}

func (r Reply) String() string {
	return fmt.Sprintf("%s:r%d=%d lc%d lrc%d", r.Client, r.Req, r.Result, r.LCount, r.LRCount)
}

type RefLockDB struct {
	Keys map[byte]*Key
	seq  int
}

func New() *RefLockDB { return &RefLockDB{Keys: map[byte]*Key{}} }

func (m *RefLockDB) key(k byte) *Key {
	x, ok := m.Keys[k]
	if !ok {
		x = &Key{}
		m.Keys[k] = x
	}
	return x
}

func (k *Key) DepthSum() int {
	d := 0
	for _, h := range k.Holds {
		d += h.Depth
	}
	return d
}

func (k *Key) hold(id byte) *Hold {
	for i := range k.Holds {
		if k.Holds[i].Id == id {
			return &k.Holds[i]
		}
	}
	return nil
}

func (k *Key) removeHold(id byte) {
	for i := range k.Holds {
		if k.Holds[i].Id == id {
			k.Holds = append(k.Holds[:i], k.Holds[i+1:]...)
			return
		}
	}
}

// Admissible is the documented admission rule.
func (k *Key) Admissible(count uint16) bool {
	d := k.DepthSum()
	if d == 0 {
		return true
	}
	if count == 0 {
		return false
	}
	if d >= 0xffff {
		return k.Holds[0].Count == 0xffff && count == 0xffff && d < 0x7fffffff
	}
	return d <= int(count) && d <= int(k.Holds[0].Count)
}

// Order returns the waiters in service order: higher priority first, arrival order among equals.
func (k *Key) Order() []Wait {
	ws := append([]Wait{}, k.Waits...)
	sort.SliceStable(ws, func(i, j int) bool { return ws[i].Prio > ws[j].Prio })
	return ws
}

func prio(c Cmd) int {
	if c.TimeoutFlag&TFlagPriority != 0 {
		return int(c.Rcount)
	}
	return 0
}

// Lock applies a lock request and returns the immediate replies (none when the request was queued).
func (m *RefLockDB) Lock(client string, c Cmd) []Reply {
	k := m.key(c.Key)
	d := k.DepthSum()
	waited := false
	if d > 0 {
		if h := k.hold(c.Id); h != nil {
			if c.Flag&FlagUpdate != 0 {
				// update of an existing hold: answered LOCKED_ERROR either way; the terms change unless the
				// server considers them equal (allowed to ignore a move of at most one unit)
				h.Reqs = append(h.Reqs, c.Req)
				// Count, Rcount and the priority flag are never "equal enough" to be ignored: the hold takes the
				// request's; if that makes room, the queue is served (C04)
				h.Count, h.Rcount = c.Count, c.Rcount
				h.TFlag = (h.TFlag &^ TFlagPriority) | (c.TimeoutFlag & TFlagPriority)
				return append([]Reply{{client, c.Req, LOCKED_ERROR, d, h.Depth, true}}, m.wake(k)...)
			}
			if h.Depth < 0xff && h.Depth <= int(c.Rcount) && c.TimeoutFlag&TFlagPriority == 0 {
				if c.Expried == 0 {
					// answered SUCCED without adding depth; a value operation it carries belongs to a successful
					// request and is applied (C15)
					return []Reply{{client, c.Req, SUCCED, d, h.Depth, true}}
				}
				h.Depth++
				h.Count, h.Rcount, h.Req, h.Client, h.TFlag = c.Count, c.Rcount, c.Req, client, c.TimeoutFlag
				h.Reqs = nil
				return append([]Reply{{client, c.Req, SUCCED, d + 1, h.Depth, true}}, m.wake(k)...)
			}
			return []Reply{{client, c.Req, LOCKED_ERROR, d, h.Depth, false}}
		}
		waited = len(k.Waits) > 0
	} else if c.TimeoutFlag&TFlagWaitUnlock != 0 {
		// wait-when-unlocked on a free key: the request waits for the key to be taken (it is served by the
		// wake-up pass that follows the next grant); an exclusive request behind others is refused
		if len(k.Waits) > 0 && c.Count == 0 {
			return []Reply{{client, c.Req, UNOWN_ERROR, 0, 0, false}}
		}
		waited = true
	}
	canTry := !waited
	if waited && c.TimeoutFlag&TFlagPriority != 0 && len(k.Waits) > 0 {
		mx := k.Order()[0].Prio
		canTry = int(c.Rcount) > mx
	}
	if canTry && k.Admissible(c.Count) {
		if c.Expried > 0 {
			k.Holds = append(k.Holds, Hold{Id: c.Id, Req: c.Req, Depth: 1, Count: c.Count, Rcount: c.Rcount, TFlag: c.TimeoutFlag, Client: client})
			out := []Reply{{client, c.Req, SUCCED, d + 1, 1, true}}
			if d == 0 && len(k.Waits) > 0 {
				out = append(out, m.wake(k)...) // requests that waited for the key to be taken
			}
			return out
		}
		return []Reply{{client, c.Req, SUCCED, d, 0, true}}
	}
	if c.Timeout > 0 {
		m.seq++
		k.Waits = append(k.Waits, Wait{Id: c.Id, Req: c.Req, Count: c.Count, Rcount: c.Rcount, Prio: prio(c), Expried: c.Expried, TFlag: c.TimeoutFlag, Client: client, Seq: m.seq})
		return nil
	}
	return []Reply{{client, c.Req, TIMEOUT, d, 0, false}}
}

// wake grants queued requests in service order until the next one is not admissible.
func (m *RefLockDB) wake(k *Key) []Reply {
	var out []Reply
	for len(k.Waits) > 0 {
		w := k.Order()[0]
		if !k.Admissible(w.Count) {
			break
		}
		for i := range k.Waits {
			if k.Waits[i].Seq == w.Seq {
				k.Waits = append(k.Waits[:i], k.Waits[i+1:]...)
				break
			}
		}
		if w.Expried > 0 {
			k.Holds = append(k.Holds, Hold{Id: w.Id, Req: w.Req, Depth: 1, Count: w.Count, Rcount: w.Rcount, TFlag: w.TFlag, Client: w.Client})
			out = append(out, Reply{w.Client, w.Req, SUCCED, k.DepthSum(), 1, true})
		} else {
			out = append(out, Reply{w.Client, w.Req, SUCCED, k.DepthSum(), 0, true})
		}
	}
	return out
}

// Unlock applies an unlock request; the first reply is the requester's, the rest are consequences.
func (m *RefLockDB) Unlock(client string, c Cmd) []Reply {
	k := m.key(c.Key)
	d := k.DepthSum()
	if d == 0 {
		if c.Flag&UFlagCancel != 0 {
			return m.cancel(k, client, c)
		}
		return []Reply{{client, c.Req, UNLOCK_ERROR, 0, 0, false}}
	}
	h := k.hold(c.Id)
	if h == nil {
		if c.Flag&UFlagFirst != 0 {
			// the request adopts the identity and terms of the oldest hold (the statement leaves open which
			// Rcount applies; the implementation copies the holder's, and so does the model)
			h = &k.Holds[0]
			c.Rcount = h.Rcount
			c.TimeoutFlag = h.TFlag
		} else if c.Flag&UFlagCancel != 0 {
			return m.cancel(k, client, c)
		} else {
			return []Reply{{client, c.Req, UNOWN_ERROR, d, 0, false}}
		}
	}
	var out []Reply
	if h.Depth > 1 && c.Rcount > 0 && c.TimeoutFlag&TFlagPriority == 0 {
		h.Depth--
		out = append(out, Reply{client, c.Req, SUCCED, d - 1, h.Depth, true})
	} else {
		dd := h.Depth
		k.removeHold(h.Id)
		out = append(out, Reply{client, c.Req, SUCCED, d - dd, 0, true})
	}
	return append(out, m.wake(k)...)
}

func (m *RefLockDB) cancel(k *Key, client string, c Cmd) []Reply {
	d := k.DepthSum()
	idx := -1
	for i, w := range k.Waits {
		if w.Id == c.Id {
			idx = i // the implementation keeps the last match in queue order
		}
	}
	if idx < 0 {
		return []Reply{{client, c.Req, UNLOCK_ERROR, d, 0, false}}
	}
	// queue order is service order
	ord := k.Order()
	var w Wait
	for _, x := range ord {
		if x.Id == c.Id {
			w = x
		}
	}
	for i := range k.Waits {
		if k.Waits[i].Seq == w.Seq {
			k.Waits = append(k.Waits[:i], k.Waits[i+1:]...)
			break
		}
	}
	out := []Reply{{client, c.Req, LOCKED_ERROR, d, 0, false}, {w.Client, w.Req, UNLOCK_ERROR, d, 0, false}}
	if d > 0 {
		out = append(out, m.wake(k)...) // the request behind the cancelled one may now be admissible
	}
	return out
}

// Expire feeds an observed EXPRIED notice for request req on key into the model.
func (m *RefLockDB) Expire(key byte, id byte, req byte) ([]Reply, error) {
	k := m.key(key)
	h := k.hold(id)
	if h == nil {
		return nil, fmt.Errorf("EXPRIED for LockId %d on key %d which holds nothing", id, key)
	}
	okReq := h.Req == req
	for _, r := range h.Reqs {
		if r == req {
			okReq = true
		}
	}
	if !okReq {
		return nil, fmt.Errorf("EXPRIED for LockId %d on key %d under RequestId %d, but its terms were last set by request %d", id, key, req, h.Req)
	}
	k.removeHold(id)
	return m.wake(k), nil
}

// Timeout feeds an observed TIMEOUT of a queued request into the model; the requests behind it may
// become admissible next to the current holders.
func (m *RefLockDB) Timeout(key byte, req byte) ([]Reply, error) {
	k := m.key(key)
	for i, w := range k.Waits {
		if w.Req == req {
			k.Waits = append(k.Waits[:i], k.Waits[i+1:]...)
			if k.DepthSum() > 0 {
				return m.wake(k), nil
			}
			return nil, nil
		}
	}
	return nil, fmt.Errorf("TIMEOUT for request %d on key %d which is not queued", req, key)
}
