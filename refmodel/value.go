package refmodel

import (
	"bytes"
	"encoding/binary"
	"fmt"
)

// Val is the abstract register value attached to a key.
type Val struct {
	Unknown bool     // the statement leaves the value open here (compares equal to anything)
	None    bool     // no value
	Arr     bool     // array value
	B       []byte   // byte-string / number (8 bytes little endian) value
	A       [][]byte // array elements
}

func NoVal() Val { return Val{None: true} }

func (v Val) String() string {
	switch {
	case v.Unknown:
		return "?"
	case v.None:
		return "none"
	case v.Arr:
		return fmt.Sprintf("arr%q", v.A)
	}
	return fmt.Sprintf("%q", v.B)
}

// DecodeFrame turns a raw value frame (as carried in replies / kept by the server) into a Val.
func DecodeFrame(d []byte) (Val, error) {
	if d == nil {
		return NoVal(), nil
	}
	if len(d) < 6 {
		return Val{}, fmt.Errorf("value frame of %d bytes", len(d))
	}
	if int(binary.LittleEndian.Uint32(d)) != len(d)-4 {
		return Val{}, fmt.Errorf("value frame length field %d but %d bytes follow", binary.LittleEndian.Uint32(d), len(d)-4)
	}
	if d[4]&0x3f == 1 {
		return NoVal(), nil
	}
	off := 6
	if d[5]&0x10 != 0 {
		if len(d) < 8 {
			return Val{}, fmt.Errorf("property flag without header")
		}
		off = int(d[6]) | int(d[7])<<8 + 8
		off = (int(d[6]) | int(d[7])<<8) + 8
		if off > len(d) {
			return Val{}, fmt.Errorf("property length beyond frame")
		}
	}
	if d[5]&0x02 != 0 {
		v := Val{Arr: true}
		p := d[off:]
		for len(p) >= 4 {
			n := int(binary.LittleEndian.Uint32(p))
			if 4+n > len(p) {
				return Val{}, fmt.Errorf("array element beyond frame")
			}
			if n > 0 {
				v.A = append(v.A, append([]byte{}, p[4:4+n]...))
			}
			p = p[4+n:]
		}
		return v, nil
	}
	return Val{B: append([]byte{}, d[off:]...)}, nil
}

func (v Val) Equal(o Val) bool {
	if v.Unknown || o.Unknown {
		return true
	}
	if v.None != o.None || v.Arr != o.Arr {
		// an empty byte string and "none" are both rendered as no payload by some paths: keep them distinct
		return false
	}
	if v.None {
		return true
	}
	if v.Arr {
		if len(v.A) != len(o.A) {
			return false
		}
		for i := range v.A {
			if !bytes.Equal(v.A[i], o.A[i]) {
				return false
			}
		}
		return true
	}
	return bytes.Equal(v.B, o.B)
}

func num(b []byte) int64 {
	var x uint64
	for i := 0; i < 8 && i < len(b); i++ {
		x |= uint64(b[i]) << (8 * uint(i))
	}
	return int64(x)
}

// ApplyFrame applies one value operation, given as the raw frame a client sends, to v.
func ApplyFrame(v Val, d []byte) Val {
	if len(d) < 6 {
		return Val{Unknown: true}
	}
	typ, flags := d[4]&0x3f, d[5]
	off := 6
	if flags&0x10 != 0 && len(d) >= 8 {
		off = (int(d[6]) | int(d[7])<<8) + 8
	}
	if off > len(d) {
		return Val{Unknown: true}
	}
	payload := d[off:]
	switch typ {
	case 0: // SET
		if flags&0x02 != 0 {
			nv, err := DecodeFrame(d)
			if err != nil {
				return Val{Unknown: true}
			}
			return nv
		}
		if flags&0x04 != 0 {
			return Val{Unknown: true} // kv values: not in the alphabet
		}
		return Val{B: append([]byte{}, payload...)}
	case 1: // UNSET
		return NoVal()
	case 2: // INCR
		if v.Unknown || v.Arr {
			return Val{Unknown: true}
		}
		cur := int64(0)
		if !v.None {
			cur = num(v.B)
		}
		s := cur + num(payload)
		b := make([]byte, 8)
		binary.LittleEndian.PutUint64(b, uint64(s))
		return Val{B: b}
	case 3: // APPEND
		if v.Unknown || v.Arr {
			return Val{Unknown: true}
		}
		if v.None {
			return Val{B: append([]byte{}, payload...)}
		}
		return Val{B: append(append([]byte{}, v.B...), payload...)}
	case 4: // SHIFT n: drop the first n bytes
		if v.Unknown || v.Arr {
			return Val{Unknown: true}
		}
		if v.None {
			return v
		}
		n := int(uint32(num(payload) & 0xffffffff))
		if n > len(v.B) {
			n = len(v.B)
		}
		return Val{B: append([]byte{}, v.B[n:]...)}
	case 7: // PUSH
		if v.Unknown {
			return v
		}
		if v.None {
			return Val{Arr: true, A: [][]byte{append([]byte{}, payload...)}}
		}
		if !v.Arr {
			return Val{Unknown: true}
		}
		return Val{Arr: true, A: append(append([][]byte{}, v.A...), append([]byte{}, payload...))}
	case 8: // POP n: drop the first n elements
		if v.Unknown {
			return v
		}
		if v.None {
			return v
		}
		if !v.Arr {
			return Val{Unknown: true}
		}
		n := int(uint32(num(payload) & 0xffffffff))
		if n > len(v.A) {
			n = len(v.A)
		}
		return Val{Arr: true, A: append([][]byte{}, v.A[n:]...)}
	case 6: // PIPELINE: the contained operations one after the other
		p := payload
		for len(p) >= 4 {
			n := int(binary.LittleEndian.Uint32(p))
			if 4+n > len(p) || n < 2 {
				return Val{Unknown: true}
			}
			v = ApplyFrame(v, p[:4+n])
			p = p[4+n:]
		}
		return v
	}
	return Val{Unknown: true}
}
