package checks

import (
	"fmt"
	"os"
	"testing"

	"verif/hapi"
)

// TestDbgC03Full: debugging aid. DBGC03FULL=1 go test -run TestDbgC03Full ./checks/
func TestDbgC03Full(t *testing.T) {
	if os.Getenv("DBGC03FULL") == "" {
		t.Skip()
	}
	cfg := hapi.Config{FastKeys: 1, Concurrent: 1}
	hist := []SeqOp{op(0, L(0, 1, 1, 0, 20, 0, 1)), tick(2 * sec), op(0, withF(L(0, 1, 1, 0, 1, 0, 0), 0x02)), tick(2 * sec)}
	if os.Getenv("DBGC03FULL") == "c04" {
		hist = []SeqOp{op(0, L(0, 1, 1, 0, 4, 2, 0)), op(1, L(0, 1, 4, 6, 4, 2, 0)), tick(3 * sec), tick(3 * sec)}
	}
	for _, full := range []bool{false, true} {
		spec := &SeqSpec{Name: "dbg", Cfg: cfg, Drain: true, Full: full, NoDedupe: true}
		run, e := ExecSeq(spec, hist)
		fmt.Println("full", full, "err", e)
		for i, st := range run.Steps {
			fmt.Printf("  step %d %s @%d: %s\n", i+1, st.Op.String(), st.T/ms, evStr(st.Events))
			if st.Snap != nil {
				for _, k := range st.Snap.Keys {
					for _, h := range k.Holds {
						fmt.Printf("      hold id%d in %d at %d flag %x extra %s\n", h.LockId[15], h.ExpriedIn, h.ExpriedAt, h.ExpriedFlag, st.Snap.Extra)
					}
				}
			}
		}
		fmt.Println("  drain:", evStr(run.DrainEv))
		if full {
			fmt.Println("  oracle:", OracleFullVsMem("C03")(run))
		}
	}
}
