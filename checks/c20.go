package checks

import (
	"fmt"
	"sort"
	"strings"
	"sync"

	"verif/explore"
	"verif/hapi"
)

type qSpec struct {
	Kind      string
	Params    []int
	Ramp      []hapi.QOp
	Alpha     []string // operation names; "push" takes the next fresh id, "push-pN" a fresh id of priority N
	Depth     int
	Prio      bool // reference is a stable priority queue
	Fifo      bool // waitqueue: FIFO until "repush"
	MaxStates int  // >0: this spec's own state cap
}

func (s *qSpec) name() string {
	return fmt.Sprintf("%s%v+ramp%d", s.Kind, s.Params, len(s.Ramp))
}

// refQ is the boring reference: a slice (0 = hole) or a stable priority queue.
type refQ struct {
	l    []int
	prio bool
	fifo bool
}

func prioOf(id int) int { return id / 1000 }

func (r *refQ) order() []int {
	if !r.prio || r.fifo {
		return r.l
	}
	o := append([]int{}, r.l...)
	sort.SliceStable(o, func(i, j int) bool { return prioOf(o[i]) > prioOf(o[j]) })
	return o
}

func (r *refQ) remove(id int) {
	for i, x := range r.l {
		if x == id {
			r.l = append(r.l[:i:i], r.l[i+1:]...)
			return
		}
	}
}

// apply returns a description of a disagreement, or "".
func (r *refQ) apply(o hapi.QOp, ob hapi.QObs) string {
	if ob.Err != "" {
		return fmt.Sprintf("%s(%d) panicked: %s", o.Op, o.Arg, ob.Err)
	}
	switch o.Op {
	case "push":
		if ob.Ret != 1 {
			return "push refused"
		}
		r.l = append(r.l, o.Arg)
	case "pushleft":
		if ob.Ret == 1 {
			r.l = append([]int{o.Arg}, r.l...)
		}
	case "pushnode":
		if ob.Ret < 1 {
			return "push refused"
		}
		for i := 0; i < ob.Ret; i++ {
			r.l = append(r.l, o.Arg+i)
		}
	case "drain", "drain1":
		ord := r.order()
		if o.Op == "drain1" && len(ord) > 0 {
			ord = ord[:len(ord)-1]
		}
		if fmt.Sprint(ob.Iter) != fmt.Sprint(ord) && !(len(ob.Iter) == 0 && len(ord) == 0) {
			return fmt.Sprintf("popping %s returned %v, a plain queue returns %v", map[string]string{"drain": "everything", "drain1": "all but the last element"}[o.Op], ob.Iter, ord)
		}
		r.l = r.l[len(r.l)-(len(r.order())-len(ord)):]
		if o.Op == "drain" {
			r.l = nil
		}
	case "pop", "head":
		want := 0
		ord := r.order()
		if len(ord) > 0 {
			want = ord[0]
		}
		if ob.Ret != want {
			return fmt.Sprintf("%s returned element %d, a plain queue returns %d (content %v)", o.Op, ob.Ret, want, ord)
		}
		if o.Op == "pop" && len(ord) > 0 {
			if r.prio && !r.fifo {
				r.remove(want)
			} else {
				r.l = r.l[1:]
			}
		}
	case "popright", "tail":
		want := 0
		if len(r.l) > 0 {
			want = r.l[len(r.l)-1]
		}
		if ob.Ret != want {
			return fmt.Sprintf("%s returned element %d, a plain deque returns %d (content %v)", o.Op, ob.Ret, want, r.l)
		}
		if o.Op == "popright" && len(r.l) > 0 {
			r.l = r.l[:len(r.l)-1]
		}
	case "len":
		if ob.Ret != len(r.l) {
			return fmt.Sprintf("Len reported %d, the queue holds %d (content %v)", ob.Ret, len(r.l), r.l)
		}
	case "iter":
		ord := r.order()
		if fmt.Sprint(ob.Iter) != fmt.Sprint(ord) && !(len(ob.Iter) == 0 && len(ord) == 0) {
			return fmt.Sprintf("iteration yields %v, the queue holds %v", ob.Iter, ord)
		}
	case "maxprio":
		want := 0
		ord := r.order()
		if len(ord) > 0 {
			want = prioOf(ord[0])
		}
		if ob.Ret != want {
			return fmt.Sprintf("MaxPriority reported %d, the head's priority is %d (content %v)", ob.Ret, want, ord)
		}
	case "hole":
		if o.Arg < len(r.l) {
			r.l[o.Arg] = 0
		}
	case "restructuring":
		var n []int
		for _, x := range r.l {
			if x != 0 {
				n = append(n, x)
			}
		}
		r.l = n
	case "rellac", "reset":
		r.l = nil
		if o.Op == "reset" && r.prio {
			r.fifo = r.fifoAfterReset()
		}
	case "repush":
		r.fifo = false
	case "resize", "freequeue":
	}
	return ""
}

func (r *refQ) fifoAfterReset() bool { return true }

// materialise turns alphabet symbols into concrete ops (fresh ids).
func materialise(ramp []hapi.QOp, names []string) []hapi.QOp {
	next := 1
	for _, o := range ramp {
		if o.Op == "push" || o.Op == "pushleft" {
			next++
		}
	}
	ops := append([]hapi.QOp{}, ramp...)
	for _, n := range names {
		switch {
		case n == "push" || n == "pushleft":
			ops = append(ops, hapi.QOp{Op: n, Arg: next})
			next++
		case n == "pushnode":
			ops = append(ops, hapi.QOp{Op: n, Arg: next})
			next += 5000
		case strings.HasPrefix(n, "push-p"):
			p := int(n[6] - '0')
			ops = append(ops, hapi.QOp{Op: "push", Arg: p*1000 + next})
			next++
		case strings.HasPrefix(n, "hole"):
			ops = append(ops, hapi.QOp{Op: "hole", Arg: int(n[4] - '0')})
		default:
			ops = append(ops, hapi.QOp{Op: n})
		}
	}
	return ops
}

func rampPush(n int) []hapi.QOp {
	var r []hapi.QOp
	for i := 1; i <= n; i++ {
		r = append(r, hapi.QOp{Op: "push", Arg: i})
	}
	return r
}

type qResult struct {
	spec        *qSpec
	states      int
	transitions int
	perDepth    []int
	viol        *explore.Violation
	hist        []string
	sample      string
	capped      bool
}

func runQSpec(s *qSpec, maxStates int) *qResult {
	res := &qResult{spec: s}
	if s.MaxStates > 0 {
		maxStates = s.MaxStates
	}
	seen := map[string]bool{}
	frontier := [][]string{{}}
	eval := func(names []string) (key string, bad string) {
		ops := materialise(s.Ramp, names)
		obs := hapi.QueueExec(s.Kind, s.Params, ops)
		ref := &refQ{prio: s.Prio, fifo: s.Fifo}
		for i, ob := range obs {
			if msg := ref.apply(ops[i], ob); msg != "" {
				return "", fmt.Sprintf("after %v: %s", names, msg)
			}
		}
		if len(obs) < len(ops) {
			return "", "execution stopped early"
		}
		// canonical key: structural state + shape of the content (ids relabelled by position, holes kept)
		shape := make([]int, len(ref.l))
		for i, x := range ref.l {
			if x != 0 {
				shape[i] = 1 + prioOf(x)
			}
		}
		st := ""
		if len(obs) > 0 {
			st = obs[len(obs)-1].State
		}
		return fmt.Sprintf("%s|%v|%v", st, shape, ref.fifo), ""
	}
	k0, bad := eval(nil)
	if bad != "" {
		res.viol = &explore.Violation{Sig: "C20:" + s.Kind, Msg: s.name() + ": " + bad}
		return res
	}
	seen[k0] = true
	res.states = 1
	for d := 1; d <= s.Depth; d++ {
		var next [][]string
		newS := 0
		// the candidates of one level are evaluated in parallel (each evaluation replays its history on a fresh queue),
		// block by block (a whole level would not fit into memory), and merged in their fixed order, so the result does
		// not depend on timing
		const block = 4000
		for b0 := 0; b0 < len(frontier); b0 += block {
			b1 := b0 + block
			if b1 > len(frontier) {
				b1 = len(frontier)
			}
			var cands [][]string
			for _, h := range frontier[b0:b1] {
				for _, a := range s.Alpha {
					cands = append(cands, append(append([]string{}, h...), a))
				}
			}
			keys, bads := make([]string, len(cands)), make([]string, len(cands))
			var lwg sync.WaitGroup
			nw := 8
			for w := 0; w < nw; w++ {
				lwg.Add(1)
				go func(w int) {
					defer lwg.Done()
					for i := w; i < len(cands); i += nw {
						keys[i], bads[i] = eval(cands[i])
					}
				}(w)
			}
			lwg.Wait()
			for i, nh := range cands {
				res.transitions++
				k, bad := keys[i], bads[i]
				if bad != "" {
					sig := "C20:" + s.Kind
					for _, x := range nh {
						if x == "shrink" {
							sig = "C20:" + s.Kind + "/after-shrink"
						}
					}
					res.viol = &explore.Violation{Sig: sig, Msg: s.name() + ": " + bad}
					res.hist = nh
					return res
				}
				if !seen[k] {
					seen[k] = true
					res.states++
					newS++
					next = append(next, nh)
					if d == s.Depth && res.sample == "" {
						res.sample = strings.Join(nh, ",")
					}
				}
			}
		}
		res.perDepth = append(res.perDepth, newS)
		frontier = next
		if len(frontier) == 0 {
			break
		}
		if res.states > maxStates {
			res.capped = d < s.Depth
			break
		}
	}
	return res
}

// runQSweep: for every n in [from,to]: push n elements, then pop them one by one; after EVERY step the length,
// the head and the full iteration are compared with the reference; midway (after n/2 pops) k elements are pushed
// again so that a half-drained representation is refilled. Linear scripts of up to ~2000 steps: they cross every
// growth step and representation switch on the way up and on the way down.
func runQSweep(s *qSpec, from, to int) *qResult {
	res := &qResult{spec: s}
	for n := from; n <= to; n++ {
		var ops []hapi.QOp
		id := 0
		obsv := func() { ops = append(ops, hapi.QOp{Op: "len"}, hapi.QOp{Op: "head"}, hapi.QOp{Op: "iter"}) }
		for i := 0; i < n; i++ {
			id++
			ops = append(ops, hapi.QOp{Op: "push", Arg: id})
			if i >= n-3 || i%16 == 0 {
				obsv()
			}
		}
		if s.Kind == "waitqueue" && len(s.Alpha) > 0 && s.Alpha[0] == "fill-repush-drain" {
			// the FIFO queue is rebuilt as a priority ring when the first request of another priority arrives
			ops = append(ops, hapi.QOp{Op: "repush"})
			id++
			ops = append(ops, hapi.QOp{Op: "push", Arg: 3000 + id})
			obsv()
		}
		for i := 0; i < n; i++ {
			ops = append(ops, hapi.QOp{Op: "pop"})
			obsv()
			if i == n/2 {
				for k := 0; k < 3; k++ {
					id++
					ops = append(ops, hapi.QOp{Op: "push", Arg: id})
				}
				obsv()
			}
		}
		for k := 0; k < 4; k++ {
			ops = append(ops, hapi.QOp{Op: "pop"})
			obsv()
		}
		obs := hapi.QueueExec(s.Kind, s.Params, ops)
		ref := &refQ{prio: s.Prio, fifo: s.Fifo}
		for i, ob := range obs {
			res.transitions++
			if msg := ref.apply(ops[i], ob); msg != "" {
				pops := 0
				for _, o := range ops[:i+1] {
					if o.Op == "pop" {
						pops++
					}
				}
				res.viol = &explore.Violation{Sig: "C20:" + s.Kind, Msg: fmt.Sprintf("%s: fill %d then drain, after %d pops: %s", s.name(), n, pops, msg)}
				res.hist = []string{fmt.Sprintf("push x%d", n), fmt.Sprintf("pop x%d (3 pushes after pop %d)", pops, n/2+1)}
				return res
			}
		}
		if len(obs) < len(ops) {
			res.viol = &explore.Violation{Sig: "C20:" + s.Kind, Msg: fmt.Sprintf("%s: fill %d then drain: execution stopped early", s.name(), n)}
			return res
		}
	}
	res.perDepth = []int{to - from + 1}
	res.sample = fmt.Sprintf("fill n then drain for n=%d..%d", from, to)
	return res
}

type qSweep struct {
	spec     *qSpec
	from, to int
}

func c20Sweeps(quick bool) []qSweep {
	var out []qSweep
	top := 700
	if !quick {
		top = 2100
	}
	for _, kind := range []string{"holderqueue", "waitqueue"} {
		for f := 1; f <= top; f += 50 {
			out = append(out, qSweep{&qSpec{Kind: kind, Params: []int{0, 0, 0}, Prio: kind == "waitqueue", Fifo: kind == "waitqueue", Alpha: []string{"fill-drain"}}, f, f + 49})
		}
	}
	for f := 1; f <= top; f += 50 {
		out = append(out, qSweep{&qSpec{Kind: "waitqueue", Params: []int{0, 0, 0}, Prio: true, Fifo: true, Alpha: []string{"fill-repush-drain"}}, f, f + 49})
	}
	for _, kind := range []string{"lock", "command", "manager"} {
		for _, p := range [][]int{{1, 2, 2}, {2, 4, 2}, {4, 16, 4}} {
			out = append(out, qSweep{&qSpec{Kind: kind, Params: p, Alpha: []string{"fill-drain"}}, 1, 160})
		}
	}
	return out
}

func c20Specs(quick bool) []*qSpec {
	var specs []*qSpec
	nodeAlpha := []string{"push", "pushleft", "pop", "popright", "head", "tail", "len", "iter", "resize", "restructuring", "reset", "freequeue", "hole0", "hole2"}
	d := 11
	if !quick {
		d = 14
	}
	for _, kind := range []string{"lock", "command", "manager"} {
		for _, p := range [][]int{{1, 1, 1}, {1, 2, 2}, {2, 2, 1}, {2, 4, 2}, {1, 3, 3}, {3, 4, 3}} {
			if quick && kind != "lock" && (p[0] == 3 || p[2] == 3) {
				continue
			}
			specs = append(specs, &qSpec{Kind: kind, Params: p, Alpha: nodeAlpha, Depth: d})
		}
		// non-initial states: a filled and partly drained queue, then every sequence
		for _, n := range []int{5, 9} {
			ramp := rampPush(n)
			ramp = append(ramp, hapi.QOp{Op: "pop"}, hapi.QOp{Op: "pop"}, hapi.QOp{Op: "pop"})
			specs = append(specs, &qSpec{Kind: kind, Params: []int{1, 2, 2}, Ramp: ramp, Alpha: append(nodeAlpha, "rellac"), Depth: d - 3})
		}
	}
	// a narrow alphabet explored deeper: the tail retreats out of a node (PopRight), the queue is drained to a few
	// survivors and restructured, then refilled across the node that stayed allocated beyond the tail
	for _, kind := range []string{"lock", "command", "manager"} {
		for _, p := range [][]int{{1, 1, 1}, {1, 2, 2}} {
			specs = append(specs, &qSpec{Kind: kind, Params: p, Alpha: []string{"push", "pop", "popright", "restructuring", "len", "iter"}, Depth: d + 4})
		}
	}
	// ... and from ramps that leave a node allocated beyond the tail (fill into a fresh node, PopRight back out of
	// it, drain to two survivors): a restructure then frees nodes although the newest node index is not the tail's
	for _, kind := range []string{"lock", "command", "manager"} {
		for _, pr := range []struct {
			p []int
			n int
		}{{[]int{1, 1, 1}, 16}, {[]int{1, 2, 2}, 15}, {[]int{1, 4, 4}, 29}} {
			if quick && kind != "lock" && pr.n == 29 {
				continue
			}
			ramp := rampPush(pr.n)
			ramp = append(ramp, hapi.QOp{Op: "popright"}, hapi.QOp{Op: "popright"})
			for i := 0; i < pr.n-4; i++ {
				ramp = append(ramp, hapi.QOp{Op: "pop"})
			}
			specs = append(specs, &qSpec{Kind: kind, Params: pr.p, Ramp: ramp, Alpha: []string{"push", "pop", "popright", "restructuring", "len", "iter"}, Depth: d + 4})
		}
	}
	// bulk symbols explored deep: "pushnode" fills the tail node and steps into the next one, "drain" / "drain1" pop
	// everything / all but one; with reallocate, resize and restructure in between the queue walks through every
	// combination of spare nodes kept behind the tail, moved node tables and freed nodes
	for _, kind := range []string{"lock", "command", "manager"} {
		for _, p := range [][]int{{1, 8, 1}, {1, 2, 2}, {2, 4, 2}} {
			if quick && p[1] != 8 {
				continue
			}
			specs = append(specs, &qSpec{Kind: kind, Params: p, Alpha: []string{"pushnode", "push", "pop", "drain", "drain1", "rellac", "resize", "restructuring", "iter"}, Depth: 24, MaxStates: map[bool]int{true: 70000, false: 300000}[quick]})
		}
	}
	// Shrink (no call site in slock) in a spec of its own, so that what it breaks does not stop the other searches
	for _, kind := range []string{"lock", "command", "manager"} {
		specs = append(specs, &qSpec{Kind: kind, Params: []int{1, 2, 2}, Alpha: []string{"push", "pop", "len", "iter", "shrink", "reset"}, Depth: 6})
	}
	keyAlpha := []string{"push", "pop", "head", "len", "iter", "resize", "reset"}
	for _, n := range []int{0, 5, 6, 7, 12, 13, 191, 192, 193} {
		if quick && n > 13 && n != 192 {
			continue
		}
		specs = append(specs, &qSpec{Kind: "holderqueue", Params: []int{0, 0, 0}, Ramp: rampPush(n), Alpha: keyAlpha, Depth: d - 2})
	}
	waitAlpha := []string{"push", "push-p3", "push-p5", "pop", "head", "len", "iter", "maxprio", "repush"}
	for _, n := range []int{0, 7, 8, 9, 16, 17, 255, 256, 257} {
		if quick && n > 17 && n != 256 {
			continue
		}
		specs = append(specs, &qSpec{Kind: "waitqueue-prio", Params: []int{0, 0, 0}, Ramp: rampPush(n), Alpha: waitAlpha, Depth: d - 3, Prio: true})
		specs = append(specs, &qSpec{Kind: "waitqueue", Params: []int{0, 0, 0}, Ramp: rampPush(n), Alpha: []string{"push", "pop", "head", "len", "iter", "maxprio", "reset"}, Depth: d - 2, Prio: true, Fifo: true})
	}
	for _, n := range []int{5, 9, 143, 144, 145, 257} {
		if quick && n != 9 && n != 144 {
			continue
		}
		specs = append(specs, &qSpec{Kind: "waitqueue", Params: []int{0, 0, 1}, Ramp: rampPush(n), Alpha: []string{"push", "push-p3", "pop", "head", "len", "iter", "repush"}, Depth: d - 4, Prio: true, Fifo: true})
	}
	for _, sz := range []int{1, 2, 3, 16} {
		specs = append(specs, &qSpec{Kind: "ring", Params: []int{sz, 0, 0}, Alpha: []string{"push", "pop", "head", "len", "iter", "maxprio"}, Depth: d})
		specs = append(specs, &qSpec{Kind: "prioring", Params: []int{sz, 0, 0}, Alpha: []string{"push", "push-p1", "push-p3", "push-p5", "pop", "head", "len", "iter", "maxprio"}, Depth: d - 3, Prio: true})
	}
	return specs
}

func init() {
	Registry["C20"] = func(c *Ctx) int {
		if hapi.QueueExec == nil {
			return EngineError("queue harness not linked")
		}
		specs := c20Specs(c.Quick())
		maxStates := 150000
		if !c.Quick() {
			maxStates = 2000000
		}
		sweeps := c20Sweeps(c.Quick())
		results := make([]*qResult, len(specs)+len(sweeps))
		var wg sync.WaitGroup
		sem := make(chan struct{}, c.NProc)
		for i, s := range specs {
			wg.Add(1)
			go func(i int, s *qSpec) {
				defer wg.Done()
				sem <- struct{}{}
				results[i] = runQSpec(s, maxStates)
				<-sem
			}(i, s)
		}
		for i, sw := range sweeps {
			wg.Add(1)
			go func(i int, sw qSweep) {
				defer wg.Done()
				sem <- struct{}{}
				results[len(specs)+i] = runQSweep(sw.spec, sw.from, sw.to)
				results[len(specs)+i].spec = &qSpec{Kind: sw.spec.Kind, Params: append(append([]int{}, sw.spec.Params...), sw.from, sw.to), Alpha: sw.spec.Alpha}
				<-sem
			}(i, sw)
		}
		wg.Wait()
		states, trans, viol := 0, 0, 0
		per := map[string]interface{}{}
		var samples []interface{}
		capped := false
		for _, r := range results {
			states += r.states
			trans += r.transitions
			capped = capped || r.capped
			per[r.spec.name()] = map[string]interface{}{"depth": len(r.perDepth), "states": r.states, "transitions": r.transitions, "new_states_per_depth": r.perDepth, "alphabet": r.spec.Alpha, "state_cap_hit": r.capped}
			if r.sample != "" && len(samples) < 6 {
				samples = append(samples, map[string]string{"queue": r.spec.name(), "operation sequence": r.sample})
			}
			if r.viol != nil {
				viol++
				vs, known := c.SplitKnown([]explore.Violation{*r.viol})
				if len(known) > 0 {
					c.ReportKnown(map[string]int{known[0]: 1})
					viol--
				} else {
					c.ReportViolation(Replay{Scenario: r.spec.name(), Input: map[string]interface{}{"kind": r.spec.Kind, "params": r.spec.Params, "ramp_pushes": len(r.spec.Ramp), "ops": r.hist}, Findings: vs, Trace: r.viol.Msg})
				}
			}
			fmt.Printf("  queue %-34s depth=%d states=%d transitions=%d%s\n", r.spec.name(), len(r.perDepth), r.states, r.transitions, map[bool]string{true: " (state cap hit)", false: ""}[r.capped])
		}
		if len(samples) == 0 {
			samples = append(samples, "none")
		}
		c.WriteEvidence("model_checking", map[string]interface{}{
			"states": states, "transitions": trans, "traces_validated_against_impl": trans, "samples": samples, "queues": per, "exhaustive": !capped,
			"explanation": "fill-and-drain sweeps (every fill level 1..700 quick / 1..2100 thorough of the per-key queues, 1..160 of the node queues: push n, pop one by one with a refill midway, length + head + full iteration compared after every pop) plus explicit-state BFS over operation sequences on each real queue type and constructor parameter set (fresh queue, sequence replayed), from the empty queue and from ramped non-initial states that cross the 6/8/128-entry representation switches; states keyed by the queue's cursors, node sizes and content shape; every returned element, length and iteration is compared with a plain slice deque / stable priority queue",
		}, []string{
			"operation contracts as used by slock: Rellac and Reset empty the queue, PushLeft may refuse, Restructuring drops holes made by in-place nil-ing, Resize and freeQueue do not change the content",
			"Shrink (no call site in slock, no documented contract) is exercised in searches of its own; what it breaks is a listed finding",
			"per-key queues are driven with live entries only (dead-entry compaction is exercised through the engine in C02/C04/C17)",
		}, viol)
		fmt.Printf("C20 %s: %d states, %d transitions, %d violations\n", c.Tier, states, trans, viol)
		if viol > 0 {
			return 1
		}
		return 0
	}
}
