package checks

import (
	"fmt"

	"github.com/snower/slock/protocol"
	"verif/explore"
	"verif/hapi"
	"verif/refmodel"
)

// OracleC15 follows the register value of key 1 through a history: every reply carries the value from
// immediately before its operation, and after every step the key carries the value a sequential
// interpreter computes (while the key is held).
func OracleC15(r *SeqRun) []explore.Violation {
	m := refmodel.New()
	val := map[byte]refmodel.Val{}
	get := func(k byte) refmodel.Val {
		v, ok := val[k]
		if !ok {
			return refmodel.NoVal()
		}
		return v
	}
	data := map[byte][]byte{} // request -> value frame it carries
	var vs []explore.Violation
	add := func(sig, msg string) { vs = append(vs, explore.Violation{Sig: "C15:" + sig, Msg: msg}) }
	steps := append(append([]SeqStep{}, r.Ramp...), r.Steps...)
	for si, st := range steps {
		where := fmt.Sprintf("step %d (%s)", si-len(r.Ramp)+1, st.Op.String())
		var want []refmodel.Reply
		if st.Op.Cmd != nil {
			cl := clientName(st.Op.Client)
			if st.Op.Cmd.Data != nil {
				data[st.Op.Cmd.Req] = st.Op.Cmd.Data
			}
			if st.Op.Cmd.Type == 1 {
				want = m.Lock(cl, toRef(st.Op.Cmd))
			} else {
				want = m.Unlock(cl, toRef(st.Op.Cmd))
			}
		}
		pending := want
		for _, e := range st.Events {
			kb := e.Key[15]
			if e.Result == refmodel.EXPRIED && e.Cmd == 1 {
				more, err := m.Expire(kb, e.LockId[15], e.Req)
				if err != nil {
					return vs // C02/C03 territory
				}
				pending = append(pending, more...)
				if m.Keys[kb].DepthSum() == 0 {
					val[kb] = refmodel.Val{Unknown: true}
				}
				continue
			}
			if e.Result == refmodel.TIMEOUT && isQueued(m, e) {
				more, err := m.Timeout(kb, e.Req)
				if err != nil {
					return vs
				}
				pending = append(pending, more...)
				continue
			}
			if len(pending) == 0 {
				return vs // reply structure differs: C02/C04 territory
			}
			w := pending[0]
			pending = pending[1:]
			if w.Client != e.Client || w.Req != e.Req || w.Result != e.Result {
				return vs
			}
			before := get(kb)
			got, err := refmodel.DecodeFrame(e.Data)
			if before.Unknown {
				got, err = refmodel.Val{Unknown: true}, nil
			}
			if err != nil {
				add("malformed-value", fmt.Sprintf("%s: reply %s:r%d carries a malformed value frame %x: %v", where, e.Client, e.Req, e.Data, err))
				return vs
			}
			if !before.Equal(got) {
				add("reply-not-value-before", fmt.Sprintf("%s: reply %s:r%d=%s carries value %s, the value immediately before the operation was %s", where, e.Client, e.Req, hapi.ResultName(e.Result), got, before))
				return vs
			}
			if w.Applied {
				if d, ok := data[e.Req]; ok {
					val[kb] = refmodel.ApplyFrame(before, d)
				}
			}
			// the value is only defined while the key is held
			if k := m.Keys[kb]; k != nil && k.DepthSum() == 0 {
				val[kb] = refmodel.Val{Unknown: true}
			}
		}
		if st.Snap != nil {
			for kb, k := range m.Keys {
				if k.DepthSum() == 0 {
					continue
				}
				var key [16]byte
				key[15] = kb
				ks := st.Snap.Key(0, key)
				var raw []byte
				if ks != nil {
					raw = ks.Value
				}
				if get(kb).Unknown {
					continue
				}
				got, err := refmodel.DecodeFrame(raw)
				if err != nil {
					add("malformed-value", fmt.Sprintf("%s: key %d carries a malformed value frame %x: %v", where, kb, raw, err))
					return vs
				}
				if !get(kb).Equal(got) {
					add("value-differs", fmt.Sprintf("%s: key %d carries value %s, a sequential interpreter computes %s", where, kb, got, get(kb)))
					return vs
				}
			}
		}
	}
	return vs
}

func vd(d *protocol.LockCommandData) []byte { return d.Data }

func withData(c hapi.Cmd, d []byte) hapi.Cmd { c.Data = d; return c }

func c15ValueOps(quick bool) [][]byte {
	ops := [][]byte{
		vd(protocol.NewLockCommandDataSetString("a")),
		vd(protocol.NewLockCommandDataSetString("bb")),
		vd(protocol.NewLockCommandDataSetString("")),
		vd(protocol.NewLockCommandDataUnsetData()),
		vd(protocol.NewLockCommandDataIncrData(1)),
		vd(protocol.NewLockCommandDataIncrData(-2)),
		vd(protocol.NewLockCommandDataIncrData(1 << 62)),
		vd(protocol.NewLockCommandDataAppendString("c")),
		vd(protocol.NewLockCommandDataShiftData(0)),
		vd(protocol.NewLockCommandDataShiftData(1)),
		vd(protocol.NewLockCommandDataShiftData(3)),
		vd(protocol.NewLockCommandDataPushString("x")),
		vd(protocol.NewLockCommandDataPopData(0)),
		vd(protocol.NewLockCommandDataPopData(1)),
		vd(protocol.NewLockCommandDataPopData(5)),
		vd(protocol.NewLockCommandDataPipelineData([]*protocol.LockCommandData{protocol.NewLockCommandDataAppendString("d"), protocol.NewLockCommandDataAppendString("e")})),
		vd(protocol.NewLockCommandDataPipelineData([]*protocol.LockCommandData{protocol.NewLockCommandDataSetString("s"), protocol.NewLockCommandDataShiftData(1)})),
	}
	if !quick {
		props := []*protocol.LockCommandDataProperty{protocol.NewLockCommandDataProperty(protocol.LOCK_DATA_PROPERTY_CODE_KEY, []byte("k"))}
		ops = append(ops,
			vd(protocol.NewLockCommandDataSetStringWithProperty("p", props)),
			vd(protocol.NewLockCommandDataAppendStringWithProperty("q", props)),
			vd(protocol.NewLockCommandDataIncrDataWithProperty(3, props)),
			vd(protocol.NewLockCommandDataPushStringWithProperty("y", props)),
			vd(protocol.NewLockCommandDataSetArray([][]byte{[]byte("m"), []byte("n")})),
			vd(protocol.NewLockCommandDataPipelineData([]*protocol.LockCommandData{protocol.NewLockCommandDataPushString("u"), protocol.NewLockCommandDataPopData(1), protocol.NewLockCommandDataPushString("v")})),
		)
	}
	return ops
}

func c15Specs(quick bool) []*SeqSpec {
	cfg := hapi.Config{FastKeys: 1, Concurrent: 1}
	var a []SeqOp
	for _, d := range c15ValueOps(quick) {
		// carried on a lock / re-lock by id 1 (Count 1 so that id 2 can hold next to it)
		a = append(a, op(0, withData(L(0, 1, 1, 0, 9, 1, 3), d)))
	}
	vs := c15ValueOps(quick)
	for _, i := range []int{0, 3, 4, 7, 9, 11, 13, 15} {
		d := vs[i]
		a = append(a,
			op(1, withData(L(0, 1, 2, 0, 9, 1, 0), d)),                             // second LockId
			op(0, withData(hapi.Cmd{Type: 2, Key: 1, Id: 1, Rcount: 1}, d)),        // unlock one level
			op(0, withData(hapi.Cmd{Type: 1, Key: 1, Id: 1, Flag: 0x02, Expried: 9, Count: 1, Rcount: 3}, d)), // update
			op(1, withData(L(0, 1, 3, 0, 9, 0, 0), d)),                             // refused (Count 0) while held
		)
	}
	a = append(a, op(1, U(0, 1, 2)), op(0, U(0, 1, 1)), op(1, withData(L(0, 1, 4, 5, 9, 0, 0), vs[7])), tick(2*sec))
	d := 3
	if !quick {
		d = 4
	}
	return []*SeqSpec{{Name: "value-register", Cfg: cfg, Alphabet: a, Depth: d, MaxStates: 300000}}
}

func init() {
	seqCheck("C15", "model_checking", func(q bool) *SeqPlan {
		return &SeqPlan{Specs: c15Specs(q), Oracles: []SeqOracle{OracleC15}}
	}, "explicit-state breadth-first search over histories of value operations (SET, UNSET, INCR incl. negative and overflow, APPEND, SHIFT 0/1/beyond length, PUSH, POP 0/1/beyond length, PIPELINE) carried on lock, re-entrant re-lock, update, unlock and refused requests by several LockIds of one key; every reply's value and the key's value after every step are compared with a sequential interpreter (RefValue) written from the operations' meaning, not from ProcessLockData",
		[]string{"byte-level register semantics: INCR adds to the little-endian integer in the first 8 value bytes (the statement does not promise decimal strings)",
			"operations applied to a value of another kind (e.g. APPEND on an array) are left open by the statement: the oracle treats the result as unknown until the next SET/UNSET",
			"the value is only defined while the key is held; Redis-style text commands are checked at the wire level in the same check's text part when the full-node harness is available"})
}
