package checks

import (
	"fmt"
	"sort"
	"strings"

	"github.com/snower/slock/protocol"
	"verif/explore"
	"verif/hapi"
	"verif/refmodel"
)

// OracleC15 follows the register value of key 1 through a history: every reply carries the value from
// immediately before its operation, and after every step the key carries the value a sequential
// interpreter computes (while the key is held).
func OracleC15(r *SeqRun) []explore.Violation {
	if r.Spec.Cfg.MissingAcks > 0 {
		return oracleC15Refused(r)
	}
	m := refmodel.New()
	val := map[byte]refmodel.Val{}
	get := func(k byte) refmodel.Val {
		v, ok := val[k]
		if !ok {
			return refmodel.NoVal()
		}
		return v
	}
	data := map[byte][]byte{} // request -> value frame it carries
	clean := map[byte]bool{}  // key -> completely free since the last reply
	var vs []explore.Violation
	add := func(sig, msg string) { vs = append(vs, explore.Violation{Sig: "C15:" + sig, Msg: msg}) }
	steps := append(append([]SeqStep{}, r.Ramp...), r.Steps...)
	for si, st := range steps {
		where := fmt.Sprintf("step %d (%s)", si-len(r.Ramp)+1, st.Op.String())
		var want []refmodel.Reply
		if st.Op.Cmd != nil {
			cl := clientName(st.Op.Client)
			if st.Op.Cmd.Data != nil {
				data[st.Op.Cmd.Req] = st.Op.Cmd.Data
			}
			if st.Op.Cmd.Type == 1 {
				want = m.Lock(cl, toRef(st.Op.Cmd))
			} else {
				want = m.Unlock(cl, toRef(st.Op.Cmd))
			}
		}
		pending := want
		for _, e := range st.Events {
			kb := e.Key[15]
			if e.Result == refmodel.EXPRIED && e.Cmd == 1 {
				more, err := m.Expire(kb, e.LockId[15], e.Req)
				if err != nil {
					return vs // C02/C03 territory
				}
				pending = append(pending, more...)
				if m.Keys[kb].DepthSum() == 0 {
					val[kb] = freeVal(m.Keys[kb])
				}
				clean[kb] = freedClean(m.Keys[kb])
				continue
			}
			if e.Result == refmodel.TIMEOUT && isQueued(m, e) {
				more, err := m.Timeout(kb, e.Req)
				if err != nil {
					return vs
				}
				pending = append(pending, more...)
				clean[kb] = freedClean(m.Keys[kb])
				continue
			}
			if len(pending) == 0 {
				return vs // reply structure differs: C02/C04 territory
			}
			w := pending[0]
			pending = pending[1:]
			if w.Client != e.Client || w.Req != e.Req || w.Result != e.Result {
				return vs
			}
			before := get(kb)
			if clean[kb] && e.Cmd == 1 && e.Result == 0 {
				before = refmodel.NoVal() // first grant on a key that was completely free
			}
			got, err := refmodel.DecodeFrame(e.Data)
			if before.Unknown {
				got, err = refmodel.Val{Unknown: true}, nil
			}
			if err != nil {
				add("malformed-value", fmt.Sprintf("%s: reply %s:r%d carries a malformed value frame %x: %v", where, e.Client, e.Req, e.Data, err))
				return vs
			}
			if !before.Equal(got) {
				add("reply-not-value-before", fmt.Sprintf("%s: reply %s:r%d=%s carries value %s, the value immediately before the operation was %s", where, e.Client, e.Req, hapi.ResultName(e.Result), got, before))
				return vs
			}
			if w.Applied {
				if d, ok := data[e.Req]; ok {
					val[kb] = refmodel.ApplyFrame(before, d)
				}
			}
			// the value is only defined while the key is held
			if k := m.Keys[kb]; k != nil && k.DepthSum() == 0 {
				val[kb] = freeVal(k)
			}
			clean[kb] = freedClean(m.Keys[kb])
		}
		if st.Snap != nil {
			for kb, k := range m.Keys {
				if k.DepthSum() == 0 {
					continue
				}
				var key [16]byte
				key[15] = kb
				ks := st.Snap.Key(0, key)
				var raw []byte
				if ks != nil {
					raw = ks.Value
				}
				got, err := refmodel.DecodeFrame(raw)
				if err != nil {
					add("malformed-value", fmt.Sprintf("%s: key %d carries a malformed value frame %x: %v", where, kb, raw, err))
					return vs
				}
				if get(kb).Unknown {
					continue
				}
				if !get(kb).Equal(got) {
					sig := "value-differs"
					if c := st.Op.Cmd; c != nil && c.Type == 1 && c.Expried == 0 && c.ExpriedFlag&0x4440 == 0 && c.Data != nil && c.Flag&0x02 == 0 {
						sig += "/re-entrant-lock-with-expiry-0"
					}
					add(sig, fmt.Sprintf("%s: key %d carries value %s, a sequential interpreter computes %s", where, kb, got, get(kb)))
					return vs
				}
			}
		}
	}
	return vs
}

// oracleC15Refused: the requests of client b need follower acknowledgements that never come, so every one of them
// that is admitted waits, is REFUSED one second later and must leave the register as if it had never been sent.
// Client a's requests (LockId 1) are followed by the sequential model alone. While a request of b is pending the
// register is left open (the statement does not say what others see meanwhile); whenever none is pending and a
// holds the key, the register must be what a's successful operations alone compute, and when nothing at all
// touched the register between b's request and its refusal the raw frame must be byte-identical (modulo the
// operation byte) to the one from before.
func oracleC15Refused(r *SeqRun) []explore.Violation {
	m := refmodel.New()
	val := refmodel.NoVal()
	clean := true
	type pend struct {
		raw      []byte // register frame just before the request
		had      bool   // a held the key then
		touched  bool   // some other value operation was applied since
		typ      byte
		touchers string
	}
	pending := map[byte]*pend{}
	data := map[byte][]byte{}
	var vs []explore.Violation
	add := func(sig, msg string) { vs = append(vs, explore.Violation{Sig: "C15:" + sig, Msg: msg}) }
	var key [16]byte
	key[15] = 1
	rawOf := func(s *hapi.Snapshot) []byte {
		if s == nil {
			return nil
		}
		if ks := s.Key(0, key); ks != nil {
			return ks.Value
		}
		return nil
	}
	var prevRaw []byte
	var refused []string // refused requests of b that met other operations, as "<b's operation>/<the others'>"
	opName := func(d []byte) string {
		if len(d) < 6 {
			return "?"
		}
		n := []string{"SET", "UNSET", "INCR", "APPEND", "SHIFT", "EXECUTE", "PIPELINE", "PUSH", "POP"}
		t := int(d[4] & 0x3f)
		s := "?"
		if t < len(n) {
			s = n[t]
		}
		if t == 6 && len(d) >= 12 {
			s += "[" + n[int(d[10]&0x3f)%len(n)] + "]"
		}
		if d[5]&0x10 != 0 {
			s += "+props"
		}
		return s
	}
	held := func() bool { k := m.Keys[1]; return k != nil && k.DepthSum() > 0 }
	for si, st := range r.Steps {
		where := fmt.Sprintf("step %d (%s)", si+1, st.Op.String())
		var want []refmodel.Reply
		if st.Op.Cmd != nil {
			if st.Op.Cmd.Data != nil {
				data[st.Op.Cmd.Req] = st.Op.Cmd.Data
			}
			if st.Op.Client == 0 {
				if st.Op.Cmd.Type == 1 {
					want = m.Lock("a", toRef(st.Op.Cmd))
				} else {
					want = m.Unlock("a", toRef(st.Op.Cmd))
				}
			} else {
				answered := false
				for _, e := range st.Events {
					if e.Client == "b" && e.Req == st.Op.Cmd.Req {
						answered = true
						if e.Result == 0 {
							return vs // granted without acknowledgements: C11's ground
						}
					}
				}
				if !answered {
					// a further pending operation touches the pending ones before it
					for _, p := range pending {
						p.touched = true
						if n := "pending-" + opName(st.Op.Cmd.Data); !strings.Contains(p.touchers, n) {
							p.touchers += n + ","
						}
					}
					// (with others pending the register frame before this request already carries their effects: no baseline)
					pending[st.Op.Cmd.Req] = &pend{raw: prevRaw, had: held(), typ: st.Op.Cmd.Data[4], touched: len(pending) > 0}
				}
			}
		}
		for _, e := range st.Events {
			if e.Client == "b" {
				if p := pending[e.Req]; p != nil {
					if e.Result == 0 {
						return vs
					}
					delete(pending, e.Req)
					if p.touched {
						refused = append(refused, opName(data[e.Req])+"/"+p.touchers)
					}
					if p.had && held() && !p.touched && st.Snap != nil && len(pending) == 0 {
						now := rawOf(st.Snap)
						same := len(now) == len(p.raw) && (len(now) < 6 || string(now[5:]) == string(p.raw[5:]))
						bv, _ := refmodel.DecodeFrame(p.raw)
						nv, err := refmodel.DecodeFrame(now)
						if err != nil || !bv.Equal(nv) || !same {
							add("refused-changes-register:"+opName(data[e.Req]), fmt.Sprintf("%s: the acknowledgement-required %s of b:r%d is refused (%s) and nobody else touched the register, yet it went from frame %x (%s) before the request to %x (%s) after the refusal", where, opName(data[e.Req]), e.Req, hapi.ResultName(e.Result), p.raw, bv, now, nv))
							return vs
						}
					}
				}
				continue
			}
			if len(want) == 0 {
				return vs
			}
			w := want[0]
			want = want[1:]
			if w.Client != e.Client || w.Req != e.Req || w.Result != e.Result {
				return vs
			}
			before := val
			if clean && e.Cmd == 1 && e.Result == 0 && len(pending) == 0 {
				before = refmodel.NoVal()
			}
			if len(pending) > 0 {
				before = refmodel.Val{Unknown: true}
			} else {
				got, err := refmodel.DecodeFrame(e.Data)
				if err != nil {
					add("malformed-value", fmt.Sprintf("%s: reply a:r%d carries a malformed value frame %x: %v", where, e.Req, e.Data, err))
					return vs
				}
				if !before.Equal(got) {
					add("reply-not-value-before", fmt.Sprintf("%s: reply a:r%d=%s carries value %s, the value immediately before the operation was %s (every acknowledgement-required request of b had been refused by then)", where, e.Req, hapi.ResultName(e.Result), got, before))
					return vs
				}
			}
			if w.Applied {
				if d, ok := data[e.Req]; ok {
					if clean && e.Cmd == 1 && e.Result == 0 && len(pending) == 0 {
						val = refmodel.NoVal()
					}
					val = refmodel.ApplyFrame(val, d)
					for _, p := range pending {
						p.touched = true
						if !strings.Contains(p.touchers, opName(d)) {
							p.touchers += opName(d) + ","
						}
					}
				}
			}
			if !held() {
				val = refmodel.Val{Unknown: true}
				clean = len(pending) == 0
			} else {
				clean = false
			}
		}
		if !held() && len(pending) == 0 {
			clean = true
		}
		if st.Snap != nil {
			prevRaw = rawOf(st.Snap)
			if held() && len(pending) == 0 && !val.Unknown {
				got, err := refmodel.DecodeFrame(prevRaw)
				if err != nil {
					add("malformed-value", fmt.Sprintf("%s: key 1 carries a malformed value frame %x: %v", where, prevRaw, err))
					return vs
				}
				if !val.Equal(got) {
					add(refusedSig(refused), fmt.Sprintf("%s: every acknowledgement-required request of b has been refused (%s); key 1 carries value %s, the successful operations of a alone compute %s", where, strings.Join(refused, ";"), got, val))
					return vs
				}
			}
		}
	}
	return vs
}

// refusedSig names the failing history: when every operation that followed a refused request is of another kind
// than the refused one, the roll-back is skipped altogether (one root cause, one signature); otherwise the inverse
// operation is applied on top of the others' operations and the signature spells the history out.
func refusedSig(refused []string) string {
	kind := func(s string) string { return strings.TrimSuffix(s, "+props") }
	if strings.Contains(strings.Join(refused, ";"), "pending-") {
		// several acknowledgement-required requests were pending at once: one root cause, one signature
		return "refused-undoes-others/several-requests-pending-at-once"
	}
	otherOnly := len(refused) > 0
	for _, r := range refused {
		p := strings.SplitN(r, "/", 2)
		if len(p) != 2 {
			otherOnly = false
			break
		}
		for _, t := range strings.Split(strings.TrimSuffix(p[1], ","), ",") {
			if t == "" || strings.TrimPrefix(kind(t), "pending-") == kind(p[0]) {
				otherOnly = false
			}
		}
	}
	if otherOnly {
		return "refused-undoes-others/only-operations-of-another-kind-followed"
	}
	// the kinds involved, not their order or number: "<refused kind>/<kinds that followed, sorted>"
	var parts []string
	for _, r := range refused {
		p := strings.SplitN(r, "/", 2)
		if len(p) != 2 {
			parts = append(parts, r)
			continue
		}
		set := map[string]bool{}
		for _, t := range strings.Split(strings.TrimSuffix(p[1], ","), ",") {
			if t != "" {
				set[kind(t)] = true
			}
		}
		var ks []string
		for k := range set {
			ks = append(ks, k)
		}
		sort.Strings(ks)
		parts = append(parts, kind(p[0])+"/"+strings.Join(ks, "+"))
	}
	return "refused-undoes-others:" + strings.Join(parts, ";")
}

// freeVal: the value of a key nobody holds is not defined (refusals answered meanwhile may carry anything);
// freedClean says whether the next grant must start from no value: nobody holds and nobody waits. With requests
// still queued the statement leaves open whether the next holder inherits the value.
func freeVal(k *refmodel.Key) refmodel.Val { return refmodel.Val{Unknown: true} }

func freedClean(k *refmodel.Key) bool { return k != nil && k.DepthSum() == 0 && len(k.Waits) == 0 }

func vd(d *protocol.LockCommandData) []byte { return d.Data }

func withData(c hapi.Cmd, d []byte) hapi.Cmd { c.Data = d; return c }

func c15ValueOps(quick bool) [][]byte {
	ops := [][]byte{
		vd(protocol.NewLockCommandDataSetString("a")),
		vd(protocol.NewLockCommandDataSetString("bb")),
		vd(protocol.NewLockCommandDataSetString("")),
		vd(protocol.NewLockCommandDataUnsetData()),
		vd(protocol.NewLockCommandDataIncrData(1)),
		vd(protocol.NewLockCommandDataIncrData(-2)),
		vd(protocol.NewLockCommandDataIncrData(1 << 62)),
		vd(protocol.NewLockCommandDataIncrData(0)),
		vd(protocol.NewLockCommandDataPipelineData([]*protocol.LockCommandData{protocol.NewLockCommandDataIncrData(0), protocol.NewLockCommandDataIncrData(5)})),
		vd(protocol.NewLockCommandDataAppendString("c")),
		vd(protocol.NewLockCommandDataShiftData(0)),
		vd(protocol.NewLockCommandDataShiftData(1)),
		vd(protocol.NewLockCommandDataShiftData(3)),
		vd(protocol.NewLockCommandDataPushString("x")),
		vd(protocol.NewLockCommandDataPopData(0)),
		vd(protocol.NewLockCommandDataPopData(1)),
		vd(protocol.NewLockCommandDataPopData(5)),
		vd(protocol.NewLockCommandDataPipelineData([]*protocol.LockCommandData{protocol.NewLockCommandDataAppendString("d"), protocol.NewLockCommandDataAppendString("e")})),
		vd(protocol.NewLockCommandDataPipelineData([]*protocol.LockCommandData{protocol.NewLockCommandDataSetString("s"), protocol.NewLockCommandDataShiftData(1)})),
		vd(protocol.NewLockCommandDataPipelineData([]*protocol.LockCommandData{protocol.NewLockCommandDataPushString("u"), protocol.NewLockCommandDataPopData(1)})),
	}
	if !quick {
		props := []*protocol.LockCommandDataProperty{protocol.NewLockCommandDataProperty(protocol.LOCK_DATA_PROPERTY_CODE_KEY, []byte("k"))}
		ops = append(ops,
			vd(protocol.NewLockCommandDataSetStringWithProperty("p", props)),
			vd(protocol.NewLockCommandDataAppendStringWithProperty("q", props)),
			vd(protocol.NewLockCommandDataIncrDataWithProperty(3, props)),
			vd(protocol.NewLockCommandDataPushStringWithProperty("y", props)),
			vd(protocol.NewLockCommandDataSetArray([][]byte{[]byte("m"), []byte("n")})),
			vd(protocol.NewLockCommandDataPipelineData([]*protocol.LockCommandData{protocol.NewLockCommandDataPushString("u"), protocol.NewLockCommandDataPopData(1), protocol.NewLockCommandDataPushString("v")})),
		)
	}
	return ops
}

func c15Specs(quick bool) []*SeqSpec {
	cfg := hapi.Config{FastKeys: 1, Concurrent: 1}
	var a []SeqOp
	for _, d := range c15ValueOps(quick) {
		// carried on a lock / re-lock by id 1 (Count 1 so that id 2 can hold next to it)
		a = append(a, op(0, withData(L(0, 1, 1, 0, 9, 1, 3), d)))
	}
	vs := c15ValueOps(quick)
	for _, i := range []int{0, 3, 4, 7, 9, 11, 13, 15} {
		d := vs[i]
		a = append(a,
			op(1, withData(L(0, 1, 2, 0, 9, 1, 0), d)),                                                        // second LockId
			op(0, withData(hapi.Cmd{Type: 2, Key: 1, Id: 1, Rcount: 1}, d)),                                   // unlock one level
			op(0, withData(hapi.Cmd{Type: 1, Key: 1, Id: 1, Flag: 0x02, Expried: 9, Count: 1, Rcount: 3}, d)), // update
			op(1, withData(L(0, 1, 3, 0, 9, 0, 0), d)),                                                        // refused (Count 0) while held
		)
	}
	a = append(a, op(1, U(0, 1, 2)), op(0, U(0, 1, 1)), op(1, withData(L(0, 1, 4, 5, 9, 0, 0), vs[7])), tick(2*sec))
	a = append(a, op(0, withData(L(0, 1, 1, 0, 0, 1, 3), vs[3]))) // expiry 0: on a held key a re-entrant lock that adds no depth
	d := 3
	if !quick {
		d = 4
	}
	// requests that are answered only after the log write is acknowledged (require-ack flag): the deferred reply
	// must carry the value from immediately before the operation as well
	set0, appx, inc := vd(protocol.NewLockCommandDataSetString("v0")), vd(protocol.NewLockCommandDataAppendString("x")), vd(protocol.NewLockCommandDataIncrData(2))
	ack := []SeqOp{
		op(0, withData(L(0, 1, 1, 0, 9, 1, 3), set0)),
		op(0, withData(L(0, 1, 1, 0, 9, 1, 3), appx)),
		op(1, withTF(withData(L(0, 1, 2, 0, 9, 1, 0), appx), tfAck)),
		op(1, withTF(withData(L(0, 1, 2, 0, 9, 1, 0), set0), tfAck)),
		op(1, withTF(withData(L(0, 1, 2, 3, 9, 0, 0), appx), tfAck)), // exclusive request: queued, granted by the unlock below
		op(1, withTF(withData(L(0, 1, 3, 0, 9, 1, 0), inc), tfAck)),
		op(0, U(0, 1, 1)), op(1, U(0, 1, 2)), tick(500 * ms),
	}
	// values with a property header, and number operands shorter / longer than 8 bytes
	props := []*protocol.LockCommandDataProperty{protocol.NewLockCommandDataProperty(protocol.LOCK_DATA_PROPERTY_CODE_KEY, []byte("k"))}
	rawIncr := func(flag byte, hdr []byte, payload ...byte) []byte {
		body := append(append([]byte{2, flag}, hdr...), payload...)
		return append([]byte{byte(len(body)), 0, 0, 0}, body...)
	}
	ph := []byte{4, 0, 1, 1, 0, 'k'} // property area: one KEY property "k"
	var pa []SeqOp
	for _, dd := range [][]byte{
		vd(protocol.NewLockCommandDataSetStringWithProperty("abc", props)),
		vd(protocol.NewLockCommandDataSetString("xy")),
		vd(protocol.NewLockCommandDataIncrDataWithProperty(3, props)),
		vd(protocol.NewLockCommandDataIncrData(2)),
		rawIncr(0x01, nil, 5, 0, 0, 0),                   // 4-byte operand
		rawIncr(0x11, ph, 5, 0, 0, 0),                    // 4-byte operand behind a property header
		rawIncr(0x01, nil, 1, 0, 0, 0, 0, 0, 0, 0, 9, 9), // 10-byte operand
		vd(protocol.NewLockCommandDataAppendStringWithProperty("q", props)),
		vd(protocol.NewLockCommandDataShiftData(1)),
	} {
		pa = append(pa, op(0, withData(L(0, 1, 1, 0, 9, 1, 5), dd)))
	}
	pa = append(pa, op(0, U(0, 1, 1)))
	// acknowledgement-required operations that are REFUSED (the follower acknowledgements never come, the request ends
	// by its wait timeout one second later): the register must be what it was before the request, whatever the
	// operation, and later operations of other LockIds must survive the roll-back
	pipeI := vd(protocol.NewLockCommandDataPipelineData([]*protocol.LockCommandData{protocol.NewLockCommandDataIncrData(3)}))
	pipeA := vd(protocol.NewLockCommandDataPipelineData([]*protocol.LockCommandData{protocol.NewLockCommandDataAppendString("x")}))
	nack := []SeqOp{
		op(0, withData(L(0, 1, 1, 0, 60, 5, 3), set0)),
		op(0, withData(L(0, 1, 1, 0, 60, 5, 3), inc)),
		op(0, withData(L(0, 1, 1, 0, 60, 5, 3), vd(protocol.NewLockCommandDataSetStringWithProperty("abcdef", props)))),
		op(0, withData(L(0, 1, 1, 0, 60, 5, 3), vd(protocol.NewLockCommandDataShiftData(1)))),
		op(0, withData(L(0, 1, 1, 0, 60, 5, 3), vd(protocol.NewLockCommandDataUnsetData()))),
	}
	for _, dd := range [][]byte{set0, appx, inc, pipeI, pipeA, vd(protocol.NewLockCommandDataPushString("b")), vd(protocol.NewLockCommandDataShiftData(2)), vd(protocol.NewLockCommandDataPopData(1)), vd(protocol.NewLockCommandDataUnsetData())} {
		nack = append(nack, op(1, withTF(withData(L(0, 1, 2, 1, 9, 5, 0), dd), tfAck)))
	}
	// a second LockId of b, so that two acknowledgement-required operations can be pending at once
	nack = append(nack, op(1, withTF(withData(L(0, 1, 3, 1, 9, 5, 0), vd(protocol.NewLockCommandDataSetString("v1"))), tfAck)))
	nack = append(nack, tick(2500*ms), op(0, U(0, 1, 1)))
	nackCfg := cfg
	nackCfg.MissingAcks = 1
	return []*SeqSpec{{Name: "value-register", Cfg: cfg, Alphabet: a, Depth: d, MaxStates: 300000},
		{Name: "value-register-ack-refused", Cfg: nackCfg, Alphabet: nack, Depth: d, MaxStates: 300000, NoDedupe: true},
		{Name: "value-register-acked", Cfg: cfg, Alphabet: ack, Depth: d + 1, MaxStates: 300000},
		{Name: "value-register-property-headers", Cfg: cfg, Alphabet: pa, Depth: d, MaxStates: 300000}}
}

func init() {
	Registry["C15"] = func(c *Ctx) int {
		p := &SeqPlan{Specs: c15Specs(c.Quick()), Oracles: []SeqOracle{OracleC15}}
		ep := &EnumPlan{Name: "redis-style-text", Cases: c15TextCases, Eval: evalC15Text}
		if c.Worker >= 0 {
			if c.Scen == ep.Name {
				return ep.Worker(c)
			}
			return p.Worker(c)
		}
		sum := p.Master(c)
		if sum.EngineErr != "" {
			return EngineError("%s", sum.EngineErr)
		}
		es := &EnumSummary{}
		ep.Master(c, es)
		if es.EngineErr != "" {
			return EngineError("%s", es.EngineErr)
		}
		c.ReportKnown(es.KnownHits)
		cov := sum.Coverage(p, "explicit-state breadth-first search over histories of value operations (SET, UNSET, INCR incl. negative and overflow, APPEND, SHIFT 0/1/beyond length, PUSH, POP 0/1/beyond length, PIPELINE) carried on lock, re-entrant re-lock, update, unlock and refused requests by several LockIds of one key; every reply's value and the key's value after every step are compared with a sequential interpreter (RefValue) written from the operations' meaning, not from ProcessLockData. Second part: every sequence up to the depth of the Redis-style text commands (SET [EX], GET, DEL, SETNX, GETSET, APPEND, EXISTS, STRLEN, INCR/DECR(BY), EXPIRE, PERSIST, clock advances) over 3 keys on a full node through the text protocol, compared with a plain key-value store with expiry")
		cov["text_kv_sequences"] = es.Evaluations
		cov["text_kv_distinct_reply_traces"] = len(es.DistinctNT)
		cov["transitions"] = cov["transitions"].(int) + es.Evaluations
		cov["traces_validated_against_impl"] = cov["transitions"]
		cov["samples"] = append(cov["samples"].([]interface{}), es.Samples...)
		viol := sum.Violations + es.Violations
		c.WriteEvidence("model_checking", cov, []string{"byte-level register semantics: a number and a byte string are different kinds of value; arithmetic on a string / string operations on a number leave the key unknown until the next SET or DEL (the statement does not promise decimal-string arithmetic)",
			"operations applied to a value of another kind (e.g. APPEND on an array) are left open by the statement", "the value is only defined while the key is held; inside [deadline, deadline+2s] of an EXPIRE both answers are accepted"}, viol)
		fmt.Printf("C15 %s: %d states, %d transitions, %d text sequences, %d violations\n", c.Tier, sum.States, sum.Trans, es.Evaluations, viol)
		if viol > 0 {
			return 1
		}
		return 0
	}
}
