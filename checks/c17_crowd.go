package checks

import (
	"encoding/json"
	"fmt"

	"verif/explore"
	"verif/hapi"
	"verif/vrt"
)

// Crowded key, first-in first-out: N holders take one key (Count 300), then all but the newest release it in the
// order in which they came, so that every record in turn is promoted to "current holder" and released as such -
// also the records that were stored when the holder queue had already switched to its map-indexed form. Then one
// of the released LockIds takes the key again for 3 s. Reported counts against a census of the live structures
// at every stage; the new hold must be ended by time; after the drain everything is zero.
type c17CrowdArg struct {
	N      int `json:"n"`
	Relock int `json:"r"` // which released LockId comes back (1 = oldest ... N-1 = last released)
}

func c17CrowdCases(quick bool) []EnumCase {
	var out []EnumCase
	ns := []int{120, 200, 224, 225, 226, 231, 240, 248}
	if !quick {
		ns = nil
		for n := 120; n <= 248; n += 4 {
			ns = append(ns, n)
		}
		ns = append(ns, 225, 226, 227, 229, 230, 231)
	}
	for _, n := range ns {
		for _, r := range []int{1, n / 2, n - 3, n - 1} {
			out = append(out, mkCase(fmt.Sprintf("crowded-key-fifo/%d-holders/relock-%d", n, r), c17CrowdArg{n, r}))
		}
	}
	return out
}

func evalC17Crowd(c *Ctx, cs EnumCase) EnumResult {
	var a c17CrowdArg
	if err := json.Unmarshal(cs.Arg, &a); err != nil {
		return EnumResult{Err: err.Error()}
	}
	var vs []explore.Violation
	name := fmt.Sprintf("%d holders, first-in first-out release, LockId %d comes back", a.N, a.Relock)
	add := func(sig, msg string) {
		vs = append(vs, explore.Violation{Sig: "C17:" + sig + "/crowded-key-fifo", Msg: name + ": " + msg})
	}
	var engErr, obs string
	rt := vrt.Run(vrt.Options{MaxPoints: 400_000_000}, func() {
		node := hapi.Factories["n0"](hapi.Config{FastKeys: 1, Concurrent: 1})
		if err := node.StartEngine(); err != nil {
			engErr = err.Error()
			return
		}
		vrt.AdvanceTo(1300 * ms)
		cl := node.NewMemClient("a")
		reqn := 0
		send := func(typ uint8, id int, expried uint16) int {
			reqn++
			cmd := hapi.Cmd{Type: typ, Key: 1, Id: byte(id), Expried: expried, Count: 300}.Build()
			cmd.RequestId[0], cmd.RequestId[1] = byte(reqn), byte(reqn>>8)
			cl.Do(cmd)
			vrt.Quiesce()
			return reqn
		}
		check := func(stage string, wantLocked int) {
			for _, d := range node.Snapshot().DBs {
				if d.DB != 0 {
					continue
				}
				if int(d.LockedCount) != d.CensusLocked || d.CensusLocked != wantLocked {
					add("lockedcount", fmt.Sprintf("%s: STATE.LockedCount=%d, %d holds found in the live structures, %d holds outstanding by the history", stage, d.LockedCount, d.CensusLocked, wantLocked))
				}
				if int(d.KeyCount) != d.CensusKeys {
					add("keycount", fmt.Sprintf("%s: STATE.KeyCount=%d but %d live keys", stage, d.KeyCount, d.CensusKeys))
				}
				if d.Orphans > 0 {
					add("freed-record-reachable", fmt.Sprintf("%s: %d freed request records still reachable:%s", stage, d.Orphans, d.Detail))
				}
			}
		}
		for i := 1; i <= a.N; i++ {
			send(1, i, 60)
		}
		check("all holders in", a.N)
		for i := 1; i < a.N; i++ {
			send(2, i, 0)
		}
		check("all but the newest released", 1)
		node.ClearEvents()
		back := send(1, a.Relock, 3)
		granted := false
		for _, e := range node.Events() {
			if e.ReqFull[0] == byte(back) && e.ReqFull[1] == byte(back>>8) && e.Result == 0 {
				granted = true
				if e.LCount != 2 || e.LRCount != 1 {
					add("reply-counts", fmt.Sprintf("the returning LockId is answered SUCCED with LCount %d LRCount %d (2 holds on the key, depth 1)", e.LCount, e.LRCount))
				}
			}
		}
		if !granted {
			add("reply-counts", "the returning LockId was not granted although the key has room")
			return
		}
		check("one LockId back", 2)
		vrt.AdvanceTo(vrt.Elapsed() + 2*sec)
		check("2 s later", 2)
		vrt.AdvanceTo(vrt.Elapsed() + 5*sec)
		expired := false
		for _, e := range node.Events() {
			if e.ReqFull[0] == byte(back) && e.ReqFull[1] == byte(back>>8) && e.Result == 9 {
				expired = true
			}
		}
		if !expired {
			add("hold-never-ended", "the 3 s hold of the returning LockId was not ended by time within 7 s")
		}
		check("after its expiry", 1)
		send(2, a.N, 0)
		vrt.AdvanceTo(vrt.Elapsed() + 15*sec)
		for _, d := range node.Snapshot().DBs {
			if d.LockedCount != 0 || d.WaitCount != 0 || d.KeyCount != 0 || d.CensusLocked != 0 || d.CensusKeys != 0 {
				add("counters-not-zero", fmt.Sprintf("after the drain db%d LockedCount=%d WaitCount=%d KeyCount=%d (census: %d holds, %d keys)", d.DB, d.LockedCount, d.WaitCount, d.KeyCount, d.CensusLocked, d.CensusKeys))
			}
		}
		obs = fmt.Sprintf("%d requests", reqn)
	})
	if engErr != "" {
		return EnumResult{Err: engErr}
	}
	if rt.Crash != nil {
		add("crash", rt.Crash.Value+"\n"+firstLines(rt.Crash.Stack, 12))
	}
	return EnumResult{Viol: dedupe(vs), Obs: obs, Nontrivial: true}
}
