package checks

import (
	"os"
	"strings"
	"testing"

	"verif/hapi"
	"verif/vrt"
	"verif/wire"
)

// TestTextSeq: debugging aid. TEXTSEQ="SET b v EX 2;DEL b;GET b;TICK 1000" go test -run TestTextSeq ./checks/
func TestTextSeq(t *testing.T) {
	spec := os.Getenv("TEXTSEQ")
	if spec == "" {
		t.Skip("TEXTSEQ not set")
	}
	vrt.Run(vrt.Options{MaxPoints: 100_000_000}, func() {
		node := hapi.Factories["n0"](hapi.Config{FastKeys: 4, Concurrent: 1})
		if err := node.Start(); err != nil {
			t.Error(err)
			return
		}
		vrt.AdvanceTo(1300 * ms)
		conn, _ := wire.Dial(nodeAddr(0))
		for _, c := range strings.Split(spec, ";") {
			f := strings.Fields(c)
			if f[0] == "TICK" {
				var n int64
				for _, ch := range f[1] {
					n = n*10 + int64(ch-'0')
				}
				vrt.AdvanceTo(vrt.Elapsed() + n*ms)
				continue
			}
			t0 := vrt.Elapsed()
			_ = conn.Send(wire.Resp(f...))
			r := conn.TakeText()
			for w := 0; len(r) == 0 && w < 200; w++ {
				vrt.AdvanceTo(vrt.Elapsed() + 100*ms)
				conn.Pump()
				r = conn.TakeText()
			}
			t.Logf("%-24s -> %q  (after %d ms)", c, r, (vrt.Elapsed()-t0)/ms)
		}
		t.Logf("state: %s", node.Snapshot().UserString())
	})
}
