package checks

import (
	"encoding/json"
	"fmt"
	"strings"

	"github.com/snower/slock/protocol"
	"verif/explore"
	"verif/hapi"
	"verif/vrt"
	"verif/vrt/vnet"
	"verif/wire"
)

// a client step on one connection: binary command, text command, or a clock advance
type wStep struct {
	Raw  []byte    `json:"r,omitempty"` // a ready-made 64-byte frame of another command type (INIT)
	Bin  *hapi.Cmd `json:"b,omitempty"`
	Text []string  `json:"t,omitempty"`
	Tick int64     `json:"k,omitempty"`
}

func (s wStep) String() string {
	switch {
	case s.Raw != nil:
		return fmt.Sprintf("FRAME type%d", s.Raw[2])
	case s.Bin != nil:
		return s.Bin.String()
	case s.Text != nil:
		return strings.Join(s.Text, " ")
	}
	return fmt.Sprintf("TICK %dms", s.Tick/ms)
}

func c10BinAlphabet() []wStep {
	z := func(c hapi.Cmd) *hapi.Cmd { c = withEF(c, efZeroAof); return &c }
	set := protocol.NewLockCommandDataSetString("v").Data
	return []wStep{
		{Bin: z(L(0, 1, 1, 0, 10, 0, 1))},
		{Bin: z(L(0, 1, 2, 0, 10, 0, 0))},
		{Bin: z(L(0, 1, 2, 2, 10, 0, 0))},
		{Bin: z(withData(L(0, 2, 3, 0, 10, 1, 0), set))},
		{Bin: func() *hapi.Cmd { c := U(0, 1, 1); return &c }()},
		{Bin: func() *hapi.Cmd { c := U(0, 1, 2); return &c }()},
		{Bin: func() *hapi.Cmd { c := hapi.Cmd{Type: 2, Key: 1, Id: 2, Flag: 0x02}; return &c }()},
		{Bin: func() *hapi.Cmd { c := hapi.Cmd{Type: 2, Key: 2, Id: 9, Flag: 0x01}; return &c }()},
		// concurrent-check flag: a non-leader may look at its replica for requests that would be refused at once, but a
		// request willing to wait belongs to the leader's queue; with and without the wait-when-unlocked flag
		{Bin: z(func() hapi.Cmd { c := L(0, 1, 4, 2, 10, 0, 0); c.Flag = 0x08; return c }())},
		{Bin: z(func() hapi.Cmd { c := L(0, 1, 5, 0, 10, 0, 0); c.Flag = 0x08; return c }())},
		// a holder the leader never logs (the follower's copy of the key stays empty), and a concurrent-check request
		// that only waits while the key is free
		{Bin: func() *hapi.Cmd { c := withEF(L(0, 1, 7, 0, 10, 1, 0), efNeverAof); return &c }()},
		{Bin: func() *hapi.Cmd { c := L(0, 1, 6, 0, 10, 1, 0); c.Flag, c.TimeoutFlag = 0x08, 0x0200; return &c }()},
		// the client announces itself (INIT) in the middle of a connection
		{Raw: func() []byte { b := make64(protocol.COMMAND_INIT); b[19], b[34] = 0x63, 0x31; return b }()},
		{Tick: 1 * sec},
	}
}

func c10TextAlphabet() []wStep {
	return []wStep{
		{Text: []string{"PING"}},
		{Text: []string{"LOCK", "k1", "LOCK_ID", "a1", "TIMEOUT", "0", "EXPRIED", "10"}},
		{Text: []string{"LOCK", "k1", "LOCK_ID", "a2", "TIMEOUT", "2", "EXPRIED", "10"}},
		{Text: []string{"UNLOCK", "k1", "LOCK_ID", "a1"}},
		{Text: []string{"SET", "x", "5"}},
		{Text: []string{"GET", "x"}},
		{Text: []string{"INCR", "n"}},
		{Text: []string{"APPEND", "x", "ab"}},
		{Text: []string{"DEL", "x"}},
		{Text: []string{"EXISTS", "x"}},
		// flag bits every client can set: 4 marks a request as coming from the log (the engine skips its role check)
		{Text: []string{"LOCK", "k2", "LOCK_ID", "b1", "FLAG", "4", "TIMEOUT", "0", "EXPRIED", "10"}},
		{Text: []string{"UNLOCK", "k1", "LOCK_ID", "a1", "FLAG", "5"}},
		{Tick: 1 * sec},
	}
}

// playWire sends the steps over one connection to addr and returns the ordered reply rendering.
func playWire(addr string, steps []wStep, text bool) ([]string, error) {
	per, err := playWireSteps(addr, steps, text)
	var out []string
	for _, p := range per {
		out = append(out, p...)
	}
	return out, err
}

// playWireSteps returns the replies observed after each step (last element: replies after the final wait).
func playWireSteps(addr string, steps []wStep, text bool) ([][]string, error) {
	c, err := wire.Dial(addr)
	if err != nil {
		return nil, err
	}
	var per [][]string
	var out []string
	take := func() {
		c.Pump()
		if text {
			out = append(out, c.TakeText()...)
		} else {
			for _, r := range c.TakeBin() {
				s := fmt.Sprintf("r%d=%s", r.Req[0], hapi.ResultName(r.Result))
				if r.Lock != nil {
					s += fmt.Sprintf(" lc%d lrc%d d%x", r.Lock.Lcount, r.Lock.Lrcount, r.Data)
				}
				out = append(out, s)
			}
		}
	}
	if !text {
		// a binary connection is recognised by a 64-byte first read
		_ = c.Send(make64(protocol.COMMAND_PING))
		take()
		out = nil
	}
	req := byte(0)
	for _, st := range steps {
		switch {
		case st.Raw != nil:
			req++
			b := append([]byte{}, st.Raw...)
			b[3] = req
			_ = c.Send(b)
		case st.Bin != nil:
			req++
			b := *st.Bin
			b.Req = req
			_ = c.Send(wire.BinFrame(b))
		case st.Text != nil:
			_ = c.Send(wire.Resp(st.Text...))
		default:
			vrt.AdvanceTo(vrt.Elapsed() + st.Tick)
		}
		out = nil
		take()
		per = append(per, out)
	}
	vrt.AdvanceTo(vrt.Elapsed() + 4*sec)
	out = nil
	take()
	if c.Closed {
		out = append(out, "<closed>")
	}
	if len(c.In) > 0 {
		out = append(out, fmt.Sprintf("<%d unparsed bytes>", len(c.In)))
	}
	per = append(per, out)
	return per, nil
}

func isRefusal(r []string) bool {
	if len(r) != 1 {
		return false
	}
	x := r[0]
	return strings.Contains(x, "STATE_ERROR") || x == "-ERR 10" || strings.HasPrefix(x, "-ERR Leader Server") || strings.HasPrefix(x, "-ERR state")
}

// onlyLaggingReads: text replies come back in command order; true if the two runs produced the same number of
// replies and differ only in replies to read-only commands (GET, EXISTS, STRLEN, TTL, ...).
func onlyLaggingReads(steps []wStep, d, f [][]string) bool {
	var cmds []wStep
	for _, st := range steps {
		if st.Text != nil || st.Bin != nil {
			cmds = append(cmds, st)
		}
	}
	var fd, ff []string
	for _, x := range d {
		fd = append(fd, x...)
	}
	for _, x := range f {
		ff = append(ff, x...)
	}
	if len(fd) != len(ff) || len(fd) != len(cmds) {
		return false
	}
	reads := map[string]bool{"GET": true, "EXISTS": true, "STRLEN": true, "TTL": true, "PTTL": true, "TYPE": true, "DUMP": true, "KEYS": true, "SCAN": true}
	for i := range fd {
		if fd[i] != ff[i] && (cmds[i].Text == nil || !reads[strings.ToUpper(cmds[i].Text[0])]) {
			return false
		}
	}
	return true
}

func make64(t uint8) []byte {
	b := make([]byte, 64)
	b[0], b[1], b[2], b[3] = protocol.MAGIC, protocol.VERSION, t, 0xee
	return b
}

type c10Arg struct {
	Kind  string  `json:"k"`
	Text  bool    `json:"t"`
	Seqs  [][]int `json:"s"`
	Alpha string  `json:"a,omitempty"` // "" = the general alphabet; "late-results" = c10TextLateAlphabet
}

// c10TextLateAlphabet: text requests whose result is followed by a second, unsolicited result from the leader
// (expiry of the hold, grant after a wait) before the next request of the connection is sent.
func c10TextLateAlphabet() []wStep {
	return []wStep{
		{Text: []string{"PING"}},
		{Text: []string{"LOCK", "k2", "LOCK_ID", "b1", "TIMEOUT", "0", "EXPRIED", "1"}},
		{Text: []string{"LOCK", "k1", "LOCK_ID", "a1", "TIMEOUT", "0", "EXPRIED", "10"}},
		{Text: []string{"UNLOCK", "k1", "LOCK_ID", "a1"}},
		{Text: []string{"SET", "x", "5", "EX", "1"}},
		{Text: []string{"GET", "x"}},
		{Text: []string{"PUSH", "k3", "LOCK_ID", "c1", "TIMEOUT", "0", "EXPRIED", "10"}},
		{Tick: 3 * sec},
	}
}

func c10Alpha(text bool) []wStep {
	if text {
		return c10TextAlphabet()
	}
	return c10BinAlphabet()
}

func seqsOf(n, depth int) [][]int {
	var out [][]int
	var rec func(p []int)
	rec = func(p []int) {
		if len(p) > 0 {
			out = append(out, append([]int{}, p...))
		}
		if len(p) == depth {
			return
		}
		for i := 0; i < n; i++ {
			rec(append(p, i))
		}
	}
	rec(nil)
	return out
}

// runVia plays the sequence against the leader directly (via=0) or through the follower's port (via=1)
// on a fresh leader+follower cluster and returns replies plus the leader's final state.
// replicableState: UserString without the holds the leader never logs (never-persist policy): a follower cannot have them.
func replicableState(s *hapi.Snapshot) string {
	c := *s
	c.Keys = nil
	for _, k := range s.Keys {
		kk := k
		kk.Holds = nil
		for _, h := range k.Holds {
			if h.AofTime != 0xff {
				kk.Holds = append(kk.Holds, h)
			}
		}
		c.Keys = append(c.Keys, kk)
	}
	return c.UserString()
}

func runVia(steps []wStep, text bool, via int) (replies [][]string, leaderState string, followerState string, err string) {
	replies, leaderState, _, followerState, err = runVia2(steps, text, via)
	return
}

func runVia2(steps []wStep, text bool, via int) (replies [][]string, leaderState string, leaderRepl string, followerState string, err string) {
	rt := vrt.Run(vrt.Options{MaxPoints: 200_000_000, HB: true}, func() {
		cl, e := StartLeaderFollowers(1, nil)
		if e != nil {
			err = e.Error()
			return
		}
		// warm-up: database 0 exists on the leader (an UNLOCK to a missing database is rendered differently by the two paths)
		wu, _ := wire.Dial(cl.Addrs[0])
		_ = wu.Send(wire.BinFrame(hapi.Cmd{Type: 1, Req: 90, Key: 250, Id: 250, Expried: 1}))
		_ = wu.Send(wire.BinFrame(hapi.Cmd{Type: 2, Req: 91, Key: 250, Id: 250}))
		r, e := playWireSteps(cl.Addrs[via], steps, text)
		if e != nil {
			err = e.Error()
			return
		}
		replies = r
		vrt.AdvanceTo(vrt.Elapsed() + 1*sec)
		leaderState = strip(cl.Nodes[0].Snapshot().UserString())
		leaderRepl = strip(replicableState(cl.Nodes[0].Snapshot()))
		followerState = strip(cl.Nodes[1].Snapshot().UserString())
	})
	if rt.Crash != nil {
		err = "crash: " + rt.Crash.Value + "\n" + firstLines(rt.Crash.Stack, 14)
	}
	if mr := rt.MapRaceReport(); mr != "" && err == "" {
		err = "crash: two threads access a map without an ordering between them (the Go runtime kills the process when they meet): " + mr
	}
	if rt.Deadlock != "" {
		err = "deadlock: " + rt.Deadlock
	}
	return
}

func evalC10(c *Ctx, cs EnumCase) EnumResult {
	var a c10Arg
	if e := json.Unmarshal(cs.Arg, &a); e != nil {
		return EnumResult{Err: e.Error()}
	}
	res := EnumResult{}
	var vs []explore.Violation
	alpha := c10Alpha(a.Text)
	if a.Alpha == "late-results" {
		alpha = c10TextLateAlphabet()
	}
	distinct := map[string]bool{}
	for _, sq := range a.Seqs {
		var steps []wStep
		var names []string
		if a.Kind != "follower-expiry" && a.Kind != "admin-text-mode" && a.Kind != "demoted-expiry" && a.Kind != "quit-leader-pending-ack" { // there the sequence holds parameters, not alphabet indices
			for _, i := range sq {
				steps = append(steps, alpha[i])
				names = append(names, alpha[i].String())
			}
		}
		res.Sub++
		switch a.Kind {
		case "differential":
			f, lsf, lrf, fsf, e2 := runVia2(steps, a.Text, 1)
			// requests the follower refused with STATE_ERROR are legal refusals: the comparable direct run
			// is the sequence without them
			var kept []wStep
			var fk [][]string
			for i, st := range steps {
				if i < len(f) && isRefusal(f[i]) {
					continue
				}
				kept = append(kept, st)
				if i < len(f) {
					fk = append(fk, f[i])
				}
			}
			if len(f) > len(steps) {
				fk = append(fk, f[len(steps)])
			}
			f = fk
			d, ls, _, e1 := runVia(kept, a.Text, 0)
			if e1 != "" || e2 != "" {
				if strings.HasPrefix(e1+e2, "crash") || strings.HasPrefix(e1+e2, "deadlock") {
					vs = append(vs, explore.Violation{Sig: "C10:crash", Msg: fmt.Sprintf("sequence %v: %s %s", names, e1, e2)})
					continue
				}
				return EnumResult{Err: fmt.Sprintf("sequence %v: %s %s", names, e1, e2)}
			}
			distinct[fmt.Sprint(d)] = true
			if fmt.Sprint(d) != fmt.Sprint(f) && onlyLaggingReads(kept, d, f) {
				// a read served from the follower's replica right after a forwarded write of the same burst
				// (commands queued behind a waiting LOCK) may see the state before that write: replication lag
				f = d
			}
			staleCheck := false
			if fmt.Sprint(d) != fmt.Sprint(f) {
				sig := "C10:outcome-differs-via-follower"
				if a.Text && len(d) == len(f) {
					first := -1
					for i, st := range kept {
						if st.Text != nil {
							first = i
							break
						}
					}
					only := first >= 0
					for i := range d {
						if (fmt.Sprint(d[i]) != fmt.Sprint(f[i])) != (i == first) {
							only = false
						}
					}
					if only {
						sig += "/first-text-command-handled-locally"
					}
				}
				if !a.Text && len(d) == len(f) {
					// the only differing answers are those of concurrent-check requests (flag 0x08), which a node may answer
					// from its own copy of the key
					// (what differs afterwards follows from that answer: the request never reached the leader)
					only, any := true, false
					for i := range d {
						if fmt.Sprint(d[i]) != fmt.Sprint(f[i]) {
							any = true
							if i >= len(kept) || kept[i].Bin == nil || kept[i].Bin.Flag&0x08 == 0 {
								only = false
							}
							break // the first differing answer decides
						}
					}
					if only && any {
						sig += "/concurrent-check-answered-from-a-stale-copy"
						staleCheck = true
					}
				}
				vs = append(vs, explore.Violation{Sig: sig, Msg: fmt.Sprintf("sequence %v: sent to the leader it is answered %v, sent to the follower it is answered %v", names, d, f)})
			}
			if ls != lsf && staleCheck {
				vs = append(vs, explore.Violation{Sig: "C10:leader-state-differs-via-follower/concurrent-check-answered-from-a-stale-copy", Msg: fmt.Sprintf("sequence %v: leader state after direct traffic [%s], after forwarded traffic [%s]", names, ls, lsf)})
			} else if ls != lsf {
				vs = append(vs, explore.Violation{Sig: "C10:leader-state-differs-via-follower", Msg: fmt.Sprintf("sequence %v: leader state after direct traffic [%s], after forwarded traffic [%s]", names, ls, lsf)})
			}
			if lrf != fsf {
				sig := "C10:follower-diverged"
				for _, st := range kept {
					if j := strings.Join(st.Text, " "); len(st.Text) > 0 && (strings.Contains(j, " FLAG 4") || strings.Contains(j, " FLAG 5")) {
						sig = "C10:follower-diverged/client-sets-from-log-flag"
					}
				}
				vs = append(vs, explore.Violation{Sig: sig, Msg: fmt.Sprintf("sequence %v via follower: leader holds [%s], follower holds [%s]", names, lsf, fsf)})
			}
		case "held-stream":
			msg, e := runHeldStream(steps, a.Text)
			if e != "" {
				return EnumResult{Err: fmt.Sprintf("sequence %v: %s", names, e)}
			}
			distinct[strings.Join(names, ";")] = true
			if msg != "" {
				vs = append(vs, explore.Violation{Sig: "C10:follower-changed-on-its-own", Msg: fmt.Sprintf("sequence %v: %s", names, msg)})
			}
		case "demoted-expiry":
			msg, e := runDemotedExpiry(sq[0], sq[1] == 1)
			if e != "" {
				return EnumResult{Err: e}
			}
			distinct[fmt.Sprint(sq)] = true
			if msg != "" {
				vs = append(vs, explore.Violation{Sig: "C10:demoted-leader-ended-hold-on-its-own-clock", Msg: msg})
			}
		case "quit-leader-pending-ack":
			msg, e := runQuitLeaderPendingAck(sq[0], sq[1] == 1, sq[2])
			if e != "" {
				return EnumResult{Err: e}
			}
			distinct[fmt.Sprint(sq)] = true
			if msg != "" {
				vs = append(vs, explore.Violation{Sig: "C10:ex-leader-granted-after-quitting", Msg: msg})
			}
		case "admin-text-mode":
			msg, e := runAdminTextMode(sq[0])
			if e != "" {
				return EnumResult{Err: e}
			}
			distinct[fmt.Sprint(sq)] = true
			if msg != "" {
				vs = append(vs, explore.Violation{Sig: "C10:outcome-differs-via-follower/admin-text-mode", Msg: msg})
			}
		case "follower-expiry":
			msg, e := runFollowerExpiry(sq[0], len(sq) > 1 && sq[1] == 1)
			if e != "" {
				return EnumResult{Err: e}
			}
			distinct[fmt.Sprint(sq)] = true
			if msg != "" {
				vs = append(vs, explore.Violation{Sig: "C10:follower-ended-hold-on-its-own-clock", Msg: msg})
			}
		case "no-leader":
			for _, state := range []int{2, 3, 4, 5} { // follower, sync, config, vote
				msg, e := runNoLeader(steps, a.Text, state)
				if e != "" {
					return EnumResult{Err: fmt.Sprintf("sequence %v state %d: %s", names, state, e)}
				}
				distinct[fmt.Sprintf("%v/%d", names, state)] = true
				if msg != "" {
					sig := "C10:non-leader-decided"
					if i := strings.Index(msg, "|"); i > 0 && i < 16 {
						sig += "/answered-" + msg[:i]
						msg = msg[i+1:]
					}
					firstText := 0
					for i, st := range steps {
						if st.Text != nil {
							firstText = i
							break
						}
					}
					if strings.HasPrefix(msg, fmt.Sprintf("step%d ", firstText)) && a.Text {
						sig = "C10:non-leader-decided/first-text-command-handled-locally"
					}
					vs = append(vs, explore.Violation{Sig: sig, Msg: fmt.Sprintf("sequence %v, node forced into state %d without a leader: %s", names, state, msg)})
				}
			}
		}
	}
	res.Viol = dedupe(vs)
	res.SubNT = len(distinct)
	res.Nontrivial = true
	res.Obs = fmt.Sprintf("%d sequences, %d distinct outcomes", res.Sub, len(distinct))
	return res
}

// runHeldStream: with the leader->follower replication stream held, client traffic sent to the follower
// must not change the follower's own holds (it only forwards); the leader's do change.
func runHeldStream(steps []wStep, text bool) (msg string, err string) {
	rt := vrt.Run(vrt.Options{MaxPoints: 200_000_000}, func() {
		cl, e := StartLeaderFollowers(1, nil)
		if e != nil {
			err = e.Error()
			return
		}
		before := cl.Nodes[1].Snapshot().UserString()
		// hold every established link from the follower to the leader's port that carries the stream
		for _, l := range vnet.Links() {
			if l.DialGroup == "n1" && l.ListenAddr == nodeAddr(0) {
				l.BtoA.Hold = true
			}
		}
		// new forwarding connections opened later are not held
		if _, e := playWire(cl.Addrs[1], steps, text); e != nil {
			err = e.Error()
			return
		}
		after := cl.Nodes[1].Snapshot().UserString()
		if before != after {
			msg = fmt.Sprintf("the replication stream was held, yet the follower's holds changed from [%s] to [%s]", before, after)
		}
	})
	if rt.Crash != nil {
		err = "crash: " + rt.Crash.Value
	}
	return
}

// runAdminTextMode: a binary connection switches to the text form with ADMIN and goes on in text (variant picks the
// text commands that follow); the leader and a follower must answer alike and keep the connection.
func runAdminTextMode(variant int) (msg string, err string) {
	texts := [][][]string{{{"PING"}}, {{"PING"}, {"PING"}}, {{"LOCK", "k1", "LOCK_ID", "a1", "TIMEOUT", "0", "EXPRIED", "5"}, {"UNLOCK", "k1", "LOCK_ID", "a1"}}, {{"SET", "x", "1"}, {"GET", "x"}}}[variant]
	rt := vrt.Run(vrt.Options{MaxPoints: 400_000_000}, func() {
		cl, e := StartLeaderFollowers(1, nil)
		if e != nil {
			err = e.Error()
			return
		}
		var got [2][]string
		for i := 0; i < 2; i++ {
			c, e := wire.Dial(cl.Addrs[i])
			if e != nil {
				err = e.Error()
				return
			}
			_ = c.Send(make64(protocol.COMMAND_PING))
			c.TakeBin()
			_ = c.Send(make64(protocol.COMMAND_ADMIN))
			rs := c.TakeBin()
			got[i] = append(got[i], fmt.Sprintf("admin:%d replies", len(rs)))
			for _, t := range texts {
				_ = c.Send(wire.Resp(t...))
				got[i] = append(got[i], strings.Join(c.TakeText(), "|"))
			}
			vrt.AdvanceTo(vrt.Elapsed() + 200*ms)
			c.Pump()
			got[i] = append(got[i], fmt.Sprintf("closed=%v", c.Closed))
		}
		if fmt.Sprint(got[0]) != fmt.Sprint(got[1]) {
			msg = fmt.Sprintf("a binary connection that switches to text with ADMIN and sends %v: the leader answers %q, the follower %q", texts, got[0], got[1])
		}
	})
	if rt.Crash != nil {
		err = "crash: " + rt.Crash.Value
	}
	return
}

// runFollowerExpiry: a replicated hold with expiry E is not ended by the follower on its own clock while
// the leader is silent (stream held) until 300 s past the deadline; it ends when the leader's record arrives.
func runFollowerExpiry(E int, milli bool) (msg string, err string) {
	unit, un, ef := int64(sec), "s", uint16(efZeroAof)
	if milli {
		unit, un, ef = int64(ms), "ms", uint16(efZeroAof|fMilli)
	}
	rt := vrt.Run(vrt.Options{MaxPoints: 400_000_000}, func() {
		cl, e := StartLeaderFollowers(1, nil)
		if e != nil {
			err = e.Error()
			return
		}
		c, _ := wire.Dial(cl.Addrs[0])
		_ = c.Send(wire.BinFrame(withEF(hapi.Cmd{Type: 1, Req: 1, Key: 1, Id: 1, Expried: uint16(E)}, ef)))
		vrt.AdvanceTo(vrt.Elapsed() + 200*ms)
		t0 := vrt.Elapsed()
		var k1 [16]byte
		k1[15] = 1
		held := func(n hapi.Node) bool { ks := n.Snapshot().Key(0, k1); return ks != nil && len(ks.Holds) == 1 }
		if !held(cl.Nodes[1]) {
			err = "the hold was not replicated to the follower"
			return
		}
		for _, l := range vnet.Links() {
			if l.DialGroup == "n1" && l.ListenAddr == nodeAddr(0) {
				l.BtoA.Hold = true
			}
		}
		for _, dt := range []int64{int64(E)*unit + 3*sec, int64(E)*unit + 100*sec, int64(E)*unit + 290*sec} {
			vrt.AdvanceTo(t0 + dt)
			if held(cl.Nodes[0]) && dt > int64(E)*unit+2*sec {
				msg = fmt.Sprintf("leader still holds the lock %d s after taking it with expiry %d %s", dt/sec, E, un)
				return
			}
			if !held(cl.Nodes[1]) {
				msg = fmt.Sprintf("the follower ended the replicated hold (expiry %d %s) on its own clock %d s after the grant although the leader's stream was silent (it must wait up to 300 s past the deadline)", E, un, dt/sec)
				return
			}
		}
		for _, l := range vnet.Links() {
			l.BtoA.Hold = false
		}
		vrt.AdvanceTo(vrt.Elapsed() + 3*sec)
		if held(cl.Nodes[1]) {
			msg = "the follower still holds the lock 3 s after the leader's expiry record was delivered"
		}
	})
	if rt.Crash != nil {
		err = "crash: " + rt.Crash.Value
	}
	return
}

// runDemotedExpiry: a leader grants a hold (persisted at once, or after the default delay), then leaves the leader
// role while staying alive; no record about the hold arrives afterwards. Like any non-leader it must not end the
// replicated hold on its own clock while the (new) leader may still release or extend it.
func runDemotedExpiry(E int, immediate bool) (msg string, err string) {
	rt := vrt.Run(vrt.Options{MaxPoints: 400_000_000}, func() {
		node := hapi.Factories["n0"](hapi.Config{Name: "n0", FastKeys: 4, Concurrent: 1})
		if e := node.StartEngine(); e != nil {
			err = e.Error()
			return
		}
		vrt.AdvanceTo(1300 * ms)
		c := node.NewMemClient("a")
		cmd := hapi.Cmd{Type: 1, Req: 1, Key: 1, Id: 1, Expried: uint16(E)}
		if immediate {
			cmd = withEF(cmd, efZeroAof)
		}
		c.Do(cmd.Build())
		vrt.Quiesce()
		t0 := vrt.Elapsed()
		vrt.AdvanceTo(t0 + 2500*ms) // past the default persistence delay
		var k1 [16]byte
		k1[15] = 1
		ks := node.Snapshot().Key(0, k1)
		if ks == nil || len(ks.Holds) != 1 || !ks.Holds[0].IsAof {
			err = fmt.Sprintf("setup: the hold is not persisted 2.5 s after the grant (%v)", ks)
			return
		}
		node.Poke("setstate", 2)
		vrt.Quiesce()
		node.ClearEvents()
		for _, dt := range []int64{int64(E)*sec + 3*sec, int64(E)*sec + 60*sec, int64(E)*sec + 250*sec} {
			vrt.AdvanceTo(t0 + dt)
			ks := node.Snapshot().Key(0, k1)
			if ks == nil || len(ks.Holds) != 1 {
				msg = fmt.Sprintf("a node that left the leader role ended the replicated hold it had granted (expiry %d s, persisted) on its own clock %d s after the grant", E, dt/sec)
				return
			}
			for _, e := range node.Events() {
				if e.Result == 9 {
					msg = fmt.Sprintf("a node that left the leader role sent EXPRIED for the replicated hold (expiry %d s) %d s after the grant", E, e.T/sec-t0/sec)
					return
				}
			}
		}
	})
	if rt.Crash != nil {
		err = "crash: " + rt.Crash.Value
	}
	return
}

// runQuitLeaderPendingAck: leader + one follower; an acknowledgement-required LOCK is waiting for the follower
// (whose acknowledgement is held back) when the leader leaves its role in QuitLeader's order (state, forwarding,
// replication manager). fate 0: the acknowledgement never arrives; 1: it arrives 1 s after the role change;
// 2: the replication link breaks with it in flight. From then on the node is not the leader: it must not answer
// SUCCED to the waiting request nor keep it as a holder.
func runQuitLeaderPendingAck(fate int, fromQueue bool, mode int) (msg string, err string) {
	rt := vrt.Run(vrt.Options{MaxPoints: 400_000_000}, func() {
		cl, e := StartLeaderFollowers(1, func(i int, cfg *hapi.Config) { cfg.AckMode = uint(mode) })
		if e != nil {
			err = e.Error()
			return
		}
		leader := cl.Nodes[0]
		conn, _ := wire.Dial(cl.Addrs[0])
		_ = conn.Send(make64(protocol.COMMAND_PING))
		conn.TakeBin()
		if fromQueue {
			_ = conn.Send(wire.BinFrame(withEF(hapi.Cmd{Type: 1, Req: 50, Key: 1, Id: 8, Expried: 600}, efZeroAof)))
			conn.TakeBin()
		}
		vrt.AdvanceTo(vrt.Elapsed() + 500*ms)
		var repl *vnet.Link
		for _, l := range vnet.Links() {
			if l.DialGroup == "n1" && l.ListenAddr == nodeAddr(0) {
				repl = l
			}
		}
		if repl == nil {
			err = "no replication link"
			return
		}
		repl.AtoB.Hold = true
		t0 := vrt.Elapsed()
		_ = conn.Send(wire.BinFrame(hapi.Cmd{Type: 1, Req: 1, Key: 1, Id: 1, Timeout: 8, TimeoutFlag: tfAck, Expried: 60}))
		if fromQueue {
			vrt.AdvanceTo(t0 + 100*ms)
			_ = conn.Send(wire.BinFrame(hapi.Cmd{Type: 2, Req: 52, Key: 1, Id: 8}))
		}
		vrt.AdvanceTo(t0 + 300*ms)
		if r := pick(conn.TakeBin(), 1); len(r) != 0 {
			err = fmt.Sprintf("setup: the acknowledgement-required request was answered %s before any acknowledgement", binStr(r))
			return
		}
		leader.Poke("quitleader")
		vrt.AdvanceTo(t0 + 600*ms)
		if st := leader.StateName(); st == "leader" {
			err = "setup: the node is still leader after the role change"
			return
		}
		quitAt := vrt.Elapsed()
		switch fate {
		case 1:
			vrt.AdvanceTo(t0 + 1600*ms)
			repl.AtoB.Hold = false
		case 2:
			vrt.AdvanceTo(t0 + 1600*ms)
			repl.Break()
		}
		vrt.AdvanceTo(t0 + 12*sec)
		conn.Pump()
		mine := pick(conn.TakeBin(), 1)
		var k1 [16]byte
		k1[15] = 1
		held := false
		if ks := leader.Snapshot().Key(0, k1); ks != nil {
			for _, h := range ks.Holds {
				if h.LockId[15] == 1 {
					held = true
				}
			}
		}
		what := fmt.Sprintf("leader with one follower, ack mode %d, acknowledgement-required LOCK (from the queue: %v) waiting for the follower; the node leaves the leader role in QuitLeader's order at +%d ms; follower acknowledgement fate %d", mode, fromQueue, (quitAt-t0)/ms, fate)
		for _, r := range mine {
			if r.Result == 0 {
				msg = what + ": the node, no longer leader, answered the waiting request SUCCED"
				return
			}
		}
		if held {
			msg = what + ": the node, no longer leader, keeps LockId 1 as a holder it granted by itself"
			return
		}
		if len(mine) != 1 {
			msg = fmt.Sprintf("%s: the waiting request got %d terminal replies (%s)", what, len(mine), binStr(mine))
		}
	})
	if rt.Crash != nil {
		err = "crash: " + rt.Crash.Value
	}
	return
}

// runNoLeader: a node forced into a non-leader state that knows no leader refuses every request with
// STATE_ERROR (binary) / an error (text) and changes nothing.
func runNoLeader(steps []wStep, text bool, state int) (msg string, err string) {
	rt := vrt.Run(vrt.Options{MaxPoints: 200_000_000}, func() {
		node := hapi.Factories["n0"](hapi.Config{Name: "n0", FastKeys: 4, Concurrent: 1})
		if e := node.Start(); e != nil {
			err = e.Error()
			return
		}
		vrt.AdvanceTo(1300 * ms)
		// something to protect
		s, _ := wire.Dial(nodeAddr(0))
		_ = s.Send(wire.BinFrame(hapi.Cmd{Type: 1, Req: 99, Key: 1, Id: 1, Expried: 600, Rcount: 1}))
		node.Poke("setstate", state)
		node.Poke("changeleader", "")
		vrt.Quiesce()
		before := node.Snapshot().UserString()
		per, e := playWireSteps(nodeAddr(0), steps, text)
		if e != nil {
			err = e.Error()
			return
		}
		for si, r := range per {
			if si < len(steps) && steps[si].Text != nil {
				switch strings.ToUpper(steps[si].Text[0]) {
				case "GET", "EXISTS", "STRLEN", "TYPE", "TTL", "PTTL", "KEYS", "SCAN", "PING":
					continue // reads are served from the node's own replica: nothing is granted, queued or released
				}
			}
			if si < len(steps) && steps[si].Bin != nil && steps[si].Bin.Flag&0x08 != 0 && steps[si].Bin.Timeout == 0 && len(r) == 1 && strings.Contains(r[0], "TIMEOUT") {
				continue // concurrent-check request that does not want to wait: refused from the replica (nothing granted, queued or released)
			}
			for _, x := range r {
				ok := strings.Contains(x, "STATE_ERROR") || strings.HasPrefix(x, "-") || x == "<closed>" || strings.HasPrefix(x, "r238=") || x == "+PONG" // ping replies
				if !ok {
					kind := "other"
					for _, n := range []string{"UNLOCK_ERROR", "UNOWN_ERROR", "SUCCED", "TIMEOUT", "LOCKED_ERROR"} {
						if strings.Contains(x, n) {
							kind = n
						}
					}
					msg = kind + "|" + fmt.Sprintf("step%d a request was answered %q instead of being refused with STATE_ERROR (all replies %v)", si, x, per)
					return
				}
			}
		}
		after := node.Snapshot().UserString()
		if strip(before) != strip(after) {
			msg = fmt.Sprintf("holds changed from [%s] to [%s]", before, after)
		}
	})
	if rt.Crash != nil {
		err = "crash: " + rt.Crash.Value + firstLines(rt.Crash.Stack, 12)
	}
	return
}

// strip removes the remaining-time figures (time passes during the test) and the queued requests (only
// holds are replicated).
func strip(s string) string {
	out := ""
	inW := false
	for _, f := range strings.Fields(s) {
		if strings.HasPrefix(f, "W(") {
			inW = true
		}
		if strings.HasPrefix(f, "H(") || strings.HasPrefix(f, "db") || strings.HasPrefix(f, "key") || strings.HasPrefix(f, "val") {
			inW = false
		}
		if inW || strings.HasPrefix(f, "in") {
			continue
		}
		out += f + " "
	}
	return out
}

func c10Cases(quick bool) []EnumCase {
	var out []EnumCase
	depth := 3
	if !quick {
		depth = 4
	}
	for _, text := range []bool{false, true} {
		n := len(c10Alpha(text))
		sq := seqsOf(n, depth)
		for _, kind := range []string{"differential", "held-stream", "no-leader"} {
			ss := sq
			if kind != "differential" {
				ss = seqsOf(n, depth-1)
			}
			chunk := 6
			for f := 0; f < len(ss); f += chunk {
				t := f + chunk
				if t > len(ss) {
					t = len(ss)
				}
				out = append(out, mkCase(fmt.Sprintf("%s/text=%v/%d-%d", kind, text, f, t-1), c10Arg{Kind: kind, Text: text, Seqs: ss[f:t]}))
			}
		}
	}
	late := seqsOf(len(c10TextLateAlphabet()), 4)
	for f := 0; f < len(late); f += 8 {
		t := f + 8
		if t > len(late) {
			t = len(late)
		}
		out = append(out, mkCase(fmt.Sprintf("differential/late-results/%d-%d", f, t-1), c10Arg{Kind: "differential", Text: true, Seqs: late[f:t], Alpha: "late-results"}))
	}
	for _, E := range []int{2, 5, 9, 30} {
		if quick && E > 5 {
			continue
		}
		out = append(out, mkCase(fmt.Sprintf("follower-expiry/E%d", E), c10Arg{Kind: "follower-expiry", Seqs: [][]int{{E}}}))
	}
	for v := 0; v < 4; v++ {
		out = append(out, mkCase(fmt.Sprintf("admin-text-mode/%d", v), c10Arg{Kind: "admin-text-mode", Seqs: [][]int{{v}}}))
	}
	// ... and holds given in milliseconds (below 3000 ms they are ended by the millisecond timer, above by the second wheel)
	for _, E := range []int{400, 1200, 2999, 3500} {
		if quick && (E == 400 || E == 2999) {
			continue
		}
		out = append(out, mkCase(fmt.Sprintf("follower-expiry/E%dms", E), c10Arg{Kind: "follower-expiry", Seqs: [][]int{{E, 1}}}))
	}
	for _, E := range []int{4, 6, 9, 30} {
		for imm := 0; imm <= 1; imm++ {
			out = append(out, mkCase(fmt.Sprintf("demoted-expiry/E%d/immediate=%d", E, imm), c10Arg{Kind: "demoted-expiry", Seqs: [][]int{{E, imm}}}))
		}
	}
	// a leader leaves its role the way ArbiterManager.QuitLeader does it while acknowledgement-required requests
	// wait for their followers: fates of the follower's acknowledgement x fresh grant / grant from the queue x mode
	for _, fate := range []int{0, 1, 2} {
		for q := 0; q <= 1; q++ {
			for mode := 0; mode <= 1; mode++ {
				out = append(out, mkCase(fmt.Sprintf("quit-leader-pending-ack/fate%d/queue=%d/mode%d", fate, q, mode), c10Arg{Kind: "quit-leader-pending-ack", Seqs: [][]int{{fate, q, mode}}}))
			}
		}
	}
	return out
}

// oracleC10DbRoles: once the node has left the leader role every database it has, also one created while the
// role changed, carries a non-leader role (a database that still thinks it leads grants, queues, releases and
// expires on its own).
func oracleC10DbRoles(r *EngRun) []explore.Violation {
	p := r.Probes["dbstatuses"]
	if p == "" {
		return nil
	}
	f := strings.Fields(p)
	if f[0] == "node=1" {
		return nil
	}
	for _, x := range f[1:] {
		if strings.HasSuffix(x, ":1") {
			return []explore.Violation{{Sig: "C10:database-keeps-leader-role-after-step-down", Msg: fmt.Sprintf("after the step-down (%s) database %s still has the leader role: it answers client requests on its own", f[0], strings.TrimSuffix(x, ":1"))}}
		}
	}
	return nil
}

func btoi(b bool) int {
	if b {
		return 1
	}
	return 0
}

func init() {
	enumCheck("C10", "model_checking",
		func(q bool) []*EnumPlan {
			return []*EnumPlan{{Name: "any-node-same-outcome", Cases: c10Cases, Eval: evalC10}}
		},
		func(q bool) *SchedPlan {
			// requests in flight while the node leaves the leader role (SLock.updateState run by a second thread)
			cfg := hapi.Config{FastKeys: 1, Concurrent: 1}
			cfg2 := hapi.Config{FastKeys: 2, Concurrent: 2}
			down := PokeStep("setstate", 2)
			return &SchedPlan{Specs: []*EngSpec{
				{Name: "lock-vs-step-down", Cfg: cfg, Fine: true, Threads: [][]Step{{C(L(1, 1, 1, 0, 10, 0, 0))}, {down}}},
				{Name: "relock-vs-step-down", Cfg: cfg, Fine: true, Setup: []Step{C(L(9, 1, 1, 0, 10, 0, 2))}, Threads: [][]Step{{C(L(1, 1, 1, 0, 10, 0, 2))}, {down}}},
				{Name: "two-locks-two-shards-vs-step-down", Cfg: cfg2, Fine: true, Threads: [][]Step{{C(L(1, 1, 1, 0, 10, 0, 0))}, {C(L(2, 2, 2, 0, 10, 0, 0))}, {down}}},
				// the FIRST request for a database (the database object is built for it) races the step-down
				{Name: "first-use-of-database-vs-step-down", Cfg: cfg, Fine: true, Probes: []string{"dbstatuses"},
					Threads: [][]Step{{C(hapi.Cmd{Type: 1, Req: 1, DB: 7, Key: 1, Id: 1, Expried: 10})}, {down}}},
				{Name: "unlock-wakes-waiter-vs-step-down", Cfg: cfg, Fine: true, Setup: []Step{C(L(9, 1, 1, 0, 10, 0, 0)), C(L(8, 1, 2, 9, 10, 0, 0))}, Threads: [][]Step{{C(U(1, 1, 1))}, {down}}},
			}, Monitors: []MonitorFactory{MonitorC10}, Oracles: []Oracle{oracleC10DbRoles}, Bound: func(s *EngSpec, q bool) int {
				if q || len(s.Threads) > 2 {
					return 2
				}
				return 3
			}, MaxExec: schedCapT(6000, 60000)}
		},
		"every client request sequence up to a depth (binary and text protocol) is played twice on fresh two-node clusters built from real node copies (leader n0, follower n1 synced over the in-memory network): once against the leader, once through the follower's port; replies, the leader's final holds and the follower's converged holds must be equal. With the replication stream held, traffic sent to the follower must leave the follower's own holds unchanged. A node forced into follower / sync / config / vote state without a leader address must refuse every request and change nothing. distinct = distinct reply traces",
		[]string{"message handlers of the forwarding path run under the default schedule (no interleaving exploration inside handlers)", "concurrent-check flag (local probable refusal on a follower) is not in the alphabet", "role change between two requests of one connection is covered by the forced-state runs (state set before the first request)"})
}
