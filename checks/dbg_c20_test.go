package checks

import (
	"fmt"
	"os"
	"testing"

	"verif/hapi"
)

// TestDbgC20: debugging aid. DBGC20=1 go test -run TestDbgC20 ./checks/
func TestDbgC20(t *testing.T) {
	if os.Getenv("DBGC20") == "" {
		t.Skip()
	}
	var ops []hapi.QOp
	add := func(op string, n int) {
		for i := 0; i < n; i++ {
			o := hapi.QOp{Op: op}
			if op == "push" {
				o.Arg = len(ops) + 1
			}
			ops = append(ops, o)
		}
	}
	var a, b, c, d int
	fmt.Sscan(os.Getenv("DBGC20"), &a, &b, &c, &d)
	add("push", a)
	add("popright", b)
	add("pop", c)
	add("restructuring", 1)
	add("len", 1)
	add("push", d)
	var p1, p2, p3 int
	fmt.Sscan(os.Getenv("DBGC20P"), &p1, &p2, &p3)
	obs := hapi.QueueExec("lock", []int{p1, p2, p3}, ops)
	for i, o := range obs {
		if true {
			fmt.Printf("%d %s(%d) -> ret %d err %q state %s\n", i, ops[i].Op, ops[i].Arg, o.Ret, o.Err, o.State)
		}
	}
}
