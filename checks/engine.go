package checks

import (
	"fmt"
	"sort"
	"strings"

	"verif/explore"
	"verif/hapi"
	"verif/vrt"
)

const (
	ms  = int64(1e6)
	sec = int64(1e9)
)

// Step is one action of a client thread.
type Step struct {
	Cmd        *hapi.Cmd
	SleepUntil int64  // virtual ns since start; 0 = none
	Poke       string // harness action executed by the thread itself (e.g. "setstate")
	PokeArg    int
}

func PokeStep(what string, arg int) Step { return Step{Poke: what, PokeArg: arg} }

func C(c hapi.Cmd) Step { return Step{Cmd: &c} }
func At(t int64) Step   { return Step{SleepUntil: t} }

// EngSpec describes a concurrent scenario on an engine-only node.
type EngSpec struct {
	Name     string
	Cfg      hapi.Config
	T0       int64      // exploration starts here
	Setup    []Step     // executed by the root before exploration (client "s"), each followed by quiescence
	Threads  [][]Step   // client threads "a","b","c",...
	DrainTo  int64      // after the threads are done: advance to this instant (0 = T0+3s)
	Unlock   []hapi.Cmd // issued sequentially after the first drain (client "s"), then a second drain
	Fine     bool
	Points   int64
	Collect  bool     // run the pool collectors as an extra thread
	FinalFor int64    // length of the final drain after Unlock (default 5s)
	Probes   []string // harness pokes evaluated at the end of the run (results in EngRun.Probes)
}

// EngRun is everything observed in one execution.
type EngRun struct {
	Spec     *EngSpec
	Events   []hapi.Event
	Sent     []SentReq
	Monitor  []explore.Violation // findings raised while running (transition monitor)
	AfterRun *hapi.Snapshot      // at quiescence right after the threads finished
	Drained  *hapi.Snapshot      // after DrainTo
	Final    *hapi.Snapshot      // after Unlock + second drain
	RT       *vrt.RT
	EndT     int64
	Probes   map[string]string
}

type SentReq struct {
	Client string
	Cmd    hapi.Cmd
	T      int64
	EvSeq  int // number of replies the node had produced when the request was handed to it
}

func (r *EngRun) Trace() string {
	var b strings.Builder
	for _, e := range r.Events {
		fmt.Fprintf(&b, "%s@%d ", e.String(), e.T/ms)
	}
	if r.Drained != nil {
		b.WriteString("| " + strings.ReplaceAll(r.Drained.UserString(), "\n", " / "))
	}
	if r.Final != nil {
		b.WriteString(" | final " + strings.ReplaceAll(r.Final.UserString(), "\n", " / "))
		for _, d := range r.Final.DBs {
			fmt.Fprintf(&b, " db%d[l%d w%d k%d]", d.DB, d.LockedCount, d.WaitCount, d.KeyCount)
		}
	}
	return b.String()
}

// Oracle judges one run.
type Oracle func(r *EngRun) []explore.Violation

// MonitorFactory installs a running monitor on the node (called before exploration starts).
type MonitorFactory func(n hapi.Node, r *EngRun)

func clientName(i int) string { return string(rune('a' + i)) }

// EngineScenario turns a spec into an explorable scenario.
func EngineScenario(spec *EngSpec, monitors []MonitorFactory, oracles []Oracle, c *Ctx) explore.Scenario {
	return func(opt vrt.Options) (*vrt.RT, explore.Outcome) {
		run := &EngRun{Spec: spec}
		opt.Fine = spec.Fine
		if spec.Points > 0 {
			opt.MaxPoints = spec.Points
		} else {
			opt.MaxPoints = 3_000_000
		}
		var engErr string
		rt := vrt.Run(opt, func() {
			node := hapi.Factories["n0"](spec.Cfg)
			if err := node.StartEngine(); err != nil {
				engErr = "StartEngine: " + err.Error()
				return
			}
			t0 := spec.T0
			if t0 == 0 {
				t0 = 1300 * ms
			}
			sc := node.NewMemClient("s")
			send := func(cl hapi.Client, cmd hapi.Cmd) {
				run.Sent = append(run.Sent, SentReq{Client: cl.Name(), Cmd: cmd, T: vrt.Elapsed(), EvSeq: len(node.Events())})
				cl.Do(cmd.Build())
			}
			vrt.AdvanceTo(1100 * ms)
			for _, st := range spec.Setup {
				if st.SleepUntil > 0 {
					vrt.AdvanceTo(st.SleepUntil)
				}
				if st.Cmd != nil {
					send(sc, *st.Cmd)
					vrt.Quiesce()
				}
			}
			vrt.AdvanceTo(t0)
			for _, m := range monitors {
				m(node, run)
			}
			clients := make([]hapi.Client, len(spec.Threads))
			for i := range spec.Threads {
				clients[i] = node.NewMemClient(clientName(i))
			}
			done := 0
			vrt.SetExplore(true)
			for i := range spec.Threads {
				i := i
				vrt.GoN("client-"+clientName(i), func() {
					for _, st := range spec.Threads[i] {
						if st.SleepUntil > 0 && st.SleepUntil > vrt.Elapsed() {
							vrt.Sleep(st.SleepUntil - vrt.Elapsed())
						}
						if st.Cmd != nil {
							send(clients[i], *st.Cmd)
						}
						if st.Poke != "" {
							node.Poke(st.Poke, st.PokeArg)
						}
					}
					done++
				})
			}
			if spec.Collect {
				vrt.GoN("collector", func() { node.Poke("freecollect") })
			}
			vrt.R.Block(func() bool { return done == len(spec.Threads) })
			vrt.Quiesce()
			vrt.SetExplore(false)
			run.AfterRun = node.Snapshot()
			drain := spec.DrainTo
			if drain == 0 {
				drain = t0 + 3*sec
			}
			vrt.AdvanceTo(drain)
			run.Drained = node.Snapshot()
			if len(spec.Unlock) > 0 {
				for _, u := range spec.Unlock {
					send(sc, u)
					vrt.Quiesce()
				}
				ff := spec.FinalFor
				if ff == 0 {
					ff = 5 * sec
				}
				vrt.AdvanceTo(drain + ff)
			}
			run.Final = node.Snapshot()
			for _, p := range spec.Probes {
				if run.Probes == nil {
					run.Probes = map[string]string{}
				}
				run.Probes[p] = fmt.Sprint(node.Poke(p))
			}
			run.Events = append([]hapi.Event{}, node.Events()...)
			run.EndT = vrt.Elapsed()
		})
		run.RT = rt
		out := explore.Outcome{}
		if engErr != "" {
			out.EngineErr = engErr
			return rt, out
		}
		if rt.Diverged {
			out.EngineErr = "point budget exceeded (divergence)"
			return rt, out
		}
		out.Trace = run.Trace()
		var vs []explore.Violation
		if rt.Crash != nil {
			vs = append(vs, explore.Violation{Sig: "crash", Msg: "panic in " + rt.Crash.Thread + ": " + rt.Crash.Value + "\n" + firstLines(rt.Crash.Stack, 24)})
		}
		if rt.Deadlock != "" {
			vs = append(vs, explore.Violation{Sig: "deadlock", Msg: rt.Deadlock})
		}
		if rt.Crash == nil && rt.Deadlock == "" {
			vs = append(vs, run.Monitor...)
			for _, o := range oracles {
				vs = append(vs, o(run)...)
			}
		}
		if c != nil {
			out.Violations, out.Known = c.SplitKnown(vs)
		} else {
			out.Violations = vs
		}
		// non-trivial: replies of at least two different clients interleave or a request waited
		out.Nontrivial = interleaved(run)
		return rt, out
	}
}

func firstLines(s string, n int) string {
	l := strings.Split(s, "\n")
	if len(l) > n {
		l = l[:n]
	}
	return strings.Join(l, "\n")
}

// interleaved: replies were produced for at least two different client threads (both reached the key).
func interleaved(r *EngRun) bool {
	cl := map[string]bool{}
	for _, e := range r.Events {
		if e.Client != "s" {
			cl[e.Client] = true
		}
	}
	return len(cl) >= 2 || (len(r.Spec.Threads) < 2 && len(cl) >= 1)
}

// ---------------------------------------------------------------------------------------------------
// Oracles shared by C01 / C03 / C04 / C17 (each check selects the ones of its property).

type keyID struct {
	db  uint8
	key [16]byte
}

// MonitorC10 checks, at every release of a shard mutex: while the db is not in leader state no LockId becomes
// a holder unless the request came from the leader's log (from-aof flag).
func MonitorC10(n hapi.Node, r *EngRun) {
	snap := func() map[keyID]hapi.KeyState {
		s := n.Poke("keystates").(*hapi.Snapshot)
		m := map[keyID]hapi.KeyState{}
		for _, k := range s.Keys {
			m[keyID{k.DB, k.Key}] = k
		}
		return m
	}
	prev := snap()
	n.OnShardUnlock(func(db uint8, shard int) {
		cur := snap()
		st := n.Poke("dbstatus", int(db)).(int)
		if st != 1 {
			for id, k := range cur {
				if id.db != db {
					continue
				}
				was := map[[16]byte]uint8{}
				for _, h := range prev[id].Holds {
					was[h.LockId] = h.Depth
				}
				queued := map[[16]byte]bool{}
				for _, w := range prev[id].Waiters {
					queued[w.LockId] = true
				}
				for _, h := range k.Holds {
					if d, ok := was[h.LockId]; (!ok || h.Depth > d) && h.Flag&0x04 == 0 && len(r.Monitor) < 4 {
						sig, how := "C10:non-leader-decided/request-in-flight-across-role-change", "by a client request"
						if queued[h.LockId] {
							sig, how = "C10:non-leader-decided/queued-request-granted-after-step-down", "out of the wait queue"
						}
						r.Monitor = append(r.Monitor, explore.Violation{Sig: sig, Msg: fmt.Sprintf("t=%dms: db %d is in state %d (not leader) and LockId %x became a holder of key %x (depth %d) %s, not from the leader's log (holders before: [%s])", vrt.Elapsed()/ms, db, st, h.LockId[15], id.key[15], h.Depth, how, holdsStr(prev[id]))})
					}
				}
			}
		}
		prev = cur
	})
}

// MonitorC01 checks, at every release of a shard mutex, the grant rule of C01 keyed by (db,key).
func MonitorC01(n hapi.Node, r *EngRun) {
	prev := map[keyID]hapi.KeyState{}
	snap := func() map[keyID]hapi.KeyState {
		s := n.Poke("keystates").(*hapi.Snapshot)
		m := map[keyID]hapi.KeyState{}
		for _, k := range s.Keys {
			m[keyID{k.DB, k.Key}] = k
		}
		return m
	}
	prev = snap()
	seenSig := map[string]bool{}
	add := func(sig, msg string) {
		if !seenSig[sig] && len(r.Monitor) < 8 {
			seenSig[sig] = true
			r.Monitor = append(r.Monitor, explore.Violation{Sig: sig, Msg: msg})
		}
	}
	n.OnShardUnlock(func(db uint8, shard int) {
		cur := snap()
		for id, k := range cur {
			if k.Managers > 1 {
				add("C01:two-managers-one-key", fmt.Sprintf("t=%dms key %x of db %d is carried by %d live managers at once (holders %s)", vrt.Elapsed()/ms, id.key[15], id.db, k.Managers, holdsStr(k)))
			}
			if int(k.Locked) != k.DepthSum() {
				add("C01:locked-ne-depthsum", fmt.Sprintf("t=%dms key %x: manager count %d != sum of holder depths %d (%s)", vrt.Elapsed()/ms, id.key[15], k.Locked, k.DepthSum(), holdsStr(k)))
			}
			p := prev[id]
			pm := map[[16]byte]hapi.Hold{}
			for _, h := range p.Holds {
				pm[h.LockId] = h
			}
			for _, h := range k.Holds {
				if _, was := pm[h.LockId]; was {
					continue
				}
				// h is a new holder: the holds that were outstanding before and still are
				others, oldest := 0, (*hapi.Hold)(nil)
				for i, o := range k.Holds {
					if o.LockId == h.LockId {
						continue
					}
					if po, ok := pm[o.LockId]; ok {
						d := int(po.Depth)
						if int(o.Depth) < d {
							d = int(o.Depth)
						}
						others += d
						if oldest == nil {
							oldest = &k.Holds[i]
						}
					}
				}
				if others > int(h.Count) {
					add("C01:grant-exceeds-request-count", fmt.Sprintf("t=%dms key %x: LockId %x granted with Count %d while %d holds were outstanding (%s)", vrt.Elapsed()/ms, id.key[15], h.LockId[15], h.Count, others, holdsStr(k)))
				}
				if oldest != nil && others > int(oldest.Count) {
					add("C01:grant-exceeds-oldest-count", fmt.Sprintf("t=%dms key %x: LockId %x granted while %d holds outstanding but oldest holder %x has Count %d (%s)", vrt.Elapsed()/ms, id.key[15], h.LockId[15], others, oldest.LockId[15], oldest.Count, holdsStr(k)))
				}
			}
		}
		prev = cur
	})
}

func holdsStr(k hapi.KeyState) string {
	s := ""
	for _, h := range k.Holds {
		s += fmt.Sprintf("[id%x d%d c%d]", h.LockId[15], h.Depth, h.Count)
	}
	return s
}

// OracleC01Quiescent: user-level corollary at every quiescent snapshot: if all holders carry the same
// Count c there are at most c+1 holds.
func OracleC01Quiescent(r *EngRun) []explore.Violation {
	var vs []explore.Violation
	for _, s := range []*hapi.Snapshot{r.AfterRun, r.Drained, r.Final} {
		if s == nil {
			continue
		}
		for _, k := range s.Keys {
			if k.Managers > 1 {
				vs = append(vs, explore.Violation{Sig: "C01:two-managers-one-key", Msg: fmt.Sprintf("quiescent: key %x carried by %d managers", k.Key[15], k.Managers)})
			}
			if len(k.Holds) == 0 {
				continue
			}
			same := true
			for _, h := range k.Holds {
				if h.Count != k.Holds[0].Count {
					same = false
				}
			}
			if same && len(k.Holds) > int(k.Holds[0].Count)+1 {
				vs = append(vs, explore.Violation{Sig: "C01:more-than-count-plus-one", Msg: fmt.Sprintf("key %x: %d simultaneous holders although every holder has Count %d (%s)", k.Key[15], len(k.Holds), k.Holds[0].Count, holdsStr(k))})
			}
		}
	}
	return dedupe(vs)
}

// OracleC01Replies judges the grant rule on what the CLIENTS were told, with the Counts they sent (independent of the
// node's own bookkeeping: a hold kept in a structure the snapshot does not reach is still a hold). A hold is DEFINITELY
// outstanding from the moment its SUCCED reply was produced until its owner hands an unlock for it to the node (or
// an EXPRIED notice for it is produced). A SUCCED reply that makes a LockId a new holder of a key is illegal if, at the
// moment it was produced, the holds definitely outstanding on that key (those granted earlier and whose release had
// not even been requested yet) exceed the request's Count or the Count the oldest of them asked for. Replies of
// concurrent threads are recorded in the order they were produced; the rule only uses what that order proves.
func OracleC01Replies(r *EngRun) []explore.Violation {
	type kk struct {
		db  uint8
		key byte
	}
	type hold struct {
		id      byte
		count   uint16
		from    int   // index of the grant reply
		relFrom int   // number of replies produced when the first release request for it was handed in (or its EXPRIED index); -1: never
		until   int64 // virtual instant before which the hold cannot have been ended by time
	}
	sent := map[string]SentReq{}
	for _, s := range r.Sent {
		sent[fmt.Sprintf("%s/%d", s.Client, s.Cmd.Req)] = s
	}
	holds := map[kk][]*hold{}
	for i, e := range r.Events {
		s, ok := sent[fmt.Sprintf("%s/%d", e.Client, e.Req)]
		if ok && e.Cmd == 1 && e.Result == 0 && s.Cmd.Expried > 0 && e.LRCount == 1 {
			k := kk{e.DB, e.Key[15]}
			until := int64(1) << 62
			if s.Cmd.ExpriedFlag&fUnlim == 0 {
				until = e.T + unitNs(map[bool]string{true: "ms", false: map[bool]string{true: "min", false: "s"}[s.Cmd.ExpriedFlag&fMinute != 0]}[s.Cmd.ExpriedFlag&fMilli != 0], s.Cmd.Expried)
			}
			holds[k] = append(holds[k], &hold{id: e.LockId[15], count: s.Cmd.Count, from: i, relFrom: -1, until: until})
		}
	}
	// release requests (any client: unlock by id or unlock-first) and expiry notices end "definitely outstanding"
	for _, s := range r.Sent {
		if s.Cmd.Type != 2 {
			continue
		}
		for _, h := range holds[kk{s.Cmd.DB, s.Cmd.Key}] {
			if (h.id == s.Cmd.Id || s.Cmd.Flag&0x01 != 0) && s.EvSeq >= h.from && (h.relFrom < 0 || s.EvSeq < h.relFrom) {
				h.relFrom = s.EvSeq
			}
		}
	}
	for i, e := range r.Events {
		if e.Result != 9 {
			continue
		}
		for _, h := range holds[kk{e.DB, e.Key[15]}] {
			if h.id == e.LockId[15] && i > h.from && (h.relFrom < 0 || i < h.relFrom) {
				h.relFrom = i
			}
		}
	}
	var vs []explore.Violation
	for k, hs := range holds {
		for _, g := range hs {
			others := 0
			var oldest *hold
			for _, h := range hs {
				if h != g && h.from < g.from && (h.relFrom < 0 || h.relFrom > g.from) && r.Events[g.from].T < h.until {
					others++
					if oldest == nil || h.from < oldest.from {
						oldest = h
					}
				}
			}
			if others > int(g.count) || (oldest != nil && others > int(oldest.count)) {
				vs = append(vs, explore.Violation{Sig: "C01:client-told-it-holds-beyond-count", Msg: fmt.Sprintf("db%d key%d: LockId %d (Count %d as sent) was answered SUCCED as reply #%d while %d hold(s) granted earlier had not even been asked to be released (oldest asked for Count %d)", k.db, k.key, g.id, g.count, g.from, others, map[bool]uint16{true: 0, false: 0}[oldest == nil]+func() uint16 {
					if oldest != nil {
						return oldest.count
					}
					return 0
				}())})
			}
		}
	}
	return dedupe(vs)
}

func dedupe(vs []explore.Violation) []explore.Violation {
	seen := map[string]bool{}
	var out []explore.Violation
	for _, v := range vs {
		if !seen[v.Sig] {
			seen[v.Sig] = true
			out = append(out, v)
		}
	}
	return out
}

// OracleC03 checks the reply multiset per connection.
func OracleC03(r *EngRun) []explore.Violation {
	var vs []explore.Violation
	type rk struct {
		client string
		req    byte
	}
	sent := map[rk]hapi.Cmd{}
	for _, s := range r.Sent {
		sent[rk{s.Client, s.Cmd.Req}] = s.Cmd
	}
	term := map[rk][]hapi.Event{}
	expr := map[rk]int{}
	for _, e := range r.Events {
		k := rk{e.Client, e.Req}
		cmd, ok := sent[k]
		if !ok {
			vs = append(vs, explore.Violation{Sig: "C03:foreign-request-id", Msg: fmt.Sprintf("client %s received %s for RequestId %d which it never sent", e.Client, hapi.ResultName(e.Result), e.Req)})
			continue
		}
		if e.Result == 9 && cmd.Type == 1 { // EXPRIED notice
			expr[k]++
			continue
		}
		term[k] = append(term[k], e)
	}
	var keys []rk
	for k := range sent {
		keys = append(keys, k)
	}
	sort.Slice(keys, func(i, j int) bool {
		if keys[i].client != keys[j].client {
			return keys[i].client < keys[j].client
		}
		return keys[i].req < keys[j].req
	})
	for _, k := range keys {
		ts := term[k]
		if len(ts) == 0 {
			vs = append(vs, explore.Violation{Sig: "C03:no-terminal-reply", Msg: fmt.Sprintf("request %s of client %s never got a terminal reply (drained to %d ms)", sent[k].String(), k.client, r.EndT/ms)})
		}
		if len(ts) > 1 {
			vs = append(vs, explore.Violation{Sig: "C03:duplicate-terminal-reply", Msg: fmt.Sprintf("request %s of client %s got %d terminal replies: %v", sent[k].String(), k.client, len(ts), ts)})
		}
		if expr[k] > 1 {
			vs = append(vs, explore.Violation{Sig: "C03:duplicate-expried", Msg: fmt.Sprintf("request %s of client %s drew %d EXPRIED notices", sent[k].String(), k.client, expr[k])})
		}
		if expr[k] > 0 {
			ok := false
			for _, t := range ts {
				if t.Result == 0 || (t.Result == 5 && sent[k].Flag&0x02 != 0) {
					ok = true
				}
			}
			if !ok && len(ts) > 0 {
				vs = append(vs, explore.Violation{Sig: "C03:expried-without-grant", Msg: fmt.Sprintf("request %s of client %s drew EXPRIED but its terminal reply was %v", sent[k].String(), k.client, ts)})
			}
		}
	}
	return dedupe(vs)
}

// admissible is the documented admission rule evaluated on a snapshot (not by calling the implementation).
func admissible(k hapi.KeyState, count uint16) bool {
	d := k.DepthSum()
	if d == 0 {
		return true
	}
	if count == 0 {
		return false
	}
	if d >= 0xffff {
		return k.Holds[0].Count == 0xffff && count == 0xffff && d < 0x7fffffff
	}
	return d <= int(count) && d <= int(k.Holds[0].Count)
}

// OracleC04Quiescent: at quiescence no key has a live head waiter that could be admitted.
func OracleC04Quiescent(r *EngRun) []explore.Violation {
	var vs []explore.Violation
	for name, s := range map[string]*hapi.Snapshot{"after-run": r.AfterRun, "drained": r.Drained, "final": r.Final} {
		if s == nil {
			continue
		}
		for _, k := range s.Keys {
			if len(k.Waiters) == 0 {
				continue
			}
			w := k.Waiters[0]
			if w.TimeoutFlag&0x0200 != 0 && len(k.Holds) == 0 {
				continue // wait-when-unlocked: queued on a free key by design
			}
			for _, h := range k.Holds {
				if h.AckCount != 0xff {
					goto next // a grant is in flight (ack pending)
				}
			}
			if admissible(k, w.Count) {
				vs = append(vs, explore.Violation{Sig: "C04:lost-wakeup", Msg: fmt.Sprintf("%s: key %x has head waiter id%x (Count %d) although it is admissible: holders %s", name, k.Key[15], w.LockId[15], w.Count, holdsStr(k))})
			}
		next:
		}
	}
	return dedupe(vs)
}

// OracleC17 compares STATE counters with the census and requires everything reclaimed after the drain.
func OracleC17(r *EngRun) []explore.Violation {
	var vs []explore.Violation
	for name, s := range map[string]*hapi.Snapshot{"after-run": r.AfterRun, "drained": r.Drained, "final": r.Final} {
		if s == nil {
			continue
		}
		for _, d := range s.DBs {
			if int(d.LockedCount) != d.CensusLocked {
				vs = append(vs, explore.Violation{Sig: "C17:lockedcount", Msg: fmt.Sprintf("%s: db%d STATE.LockedCount=%d but %d holds outstanding", name, d.DB, d.LockedCount, d.CensusLocked)})
			}
			if int(d.WaitCount) != d.CensusWait {
				vs = append(vs, explore.Violation{Sig: "C17:waitcount", Msg: fmt.Sprintf("%s: db%d STATE.WaitCount=%d but %d live queued requests", name, d.DB, d.WaitCount, d.CensusWait)})
			}
			if int(d.KeyCount) != d.CensusKeys {
				vs = append(vs, explore.Violation{Sig: "C17:keycount", Msg: fmt.Sprintf("%s: db%d STATE.KeyCount=%d but %d live keys", name, d.DB, d.KeyCount, d.CensusKeys)})
			}
			if d.Misfiled > 0 {
				vs = append(vs, explore.Violation{Sig: "C17:timer-table-corrupt", Msg: fmt.Sprintf("%s: the timer tables of db%d are inconsistent:%s", name, d.DB, d.MisfiledDetail)})
			}
			if d.Orphans > 0 {
				vs = append(vs, explore.Violation{Sig: "C17:freed-record-reachable", Msg: fmt.Sprintf("%s: db%d %d freed request records still reachable from live structures:%s", name, d.DB, d.Orphans, d.Detail)})
			}
		}
	}
	return dedupe(vs)
}

// OracleC17Drained: the final snapshot (after unlocking everything and draining) must be empty.
func OracleC17Drained(r *EngRun) []explore.Violation {
	var vs []explore.Violation
	s := r.Final
	if s == nil {
		return nil
	}
	for _, k := range s.Keys {
		if len(k.Holds) > 0 || len(k.Waiters) > 0 {
			vs = append(vs, explore.Violation{Sig: "C17:not-drained", Msg: fmt.Sprintf("after drain key %x still has holders %s / %d waiters", k.Key[15], holdsStr(k), len(k.Waiters))})
		}
		if k.Value != nil {
			vs = append(vs, explore.Violation{Sig: "C17:value-left", Msg: fmt.Sprintf("after drain key %x still carries value %x", k.Key[15], k.Value)})
		}
	}
	for _, d := range s.DBs {
		if d.LockedCount != 0 || d.WaitCount != 0 || d.KeyCount != 0 {
			vs = append(vs, explore.Violation{Sig: "C17:counters-not-zero", Msg: fmt.Sprintf("after drain db%d LockedCount=%d WaitCount=%d KeyCount=%d", d.DB, d.LockedCount, d.WaitCount, d.KeyCount)})
		}
		if d.WheelLive+d.WheelDead > 0 || d.Unindexed > 0 || d.WaitRemove > 0 {
			vs = append(vs, explore.Violation{Sig: "C17:leftover-records", Msg: fmt.Sprintf("after drain db%d wheels still hold %d live + %d finished records, %d unindexed managers, %d managers awaiting removal", d.DB, d.WheelLive, d.WheelDead, d.Unindexed, d.WaitRemove)})
		}
	}
	return dedupe(vs)
}
