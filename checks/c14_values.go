package checks

import (
	"bytes"
	"fmt"
	"sort"

	"github.com/snower/slock/protocol"
	"verif/explore"
)

// c14ValueFrames: value frames built by the package's constructors must read back, through the accessors of
// the command side and of the result side, as the values they were built from: strings / bytes of every length
// 0..40, numbers at the boundaries, arrays and key-value maps over all shapes of 0..3 entries with lengths
// 0..4, each with and without a property header.
func c14ValueFrames(quick bool) C14Group {
	g := C14Group{Name: "value-frame-constructors"}
	distinct := map[string]bool{}
	bad := func(sig, msg string) {
		if len(g.Violations) < 6 {
			g.Violations = append(g.Violations, explore.Violation{Sig: "C14:" + sig, Msg: msg})
		}
	}
	blob := func(n int, seed byte) []byte {
		b := make([]byte, n)
		for i := range b {
			b[i] = seed + byte(i)*7
		}
		return b
	}
	res := func(d *protocol.LockCommandData) *protocol.LockResultCommandData {
		return protocol.NewLockResultCommandDataFromOriginBytes(d.Data)
	}
	// strings / bytes
	for n := 0; n <= 40; n++ {
		g.Evaluations++
		v := blob(n, 'a')
		d := protocol.NewLockCommandDataSetData(v)
		distinct[fmt.Sprintf("set%x", d.Data)] = true
		if got := d.GetBytesValue(); !bytes.Equal(got, v) {
			bad("value-frame-round-trip/set", fmt.Sprintf("SET of %d bytes reads back as %x (frame %x)", n, got, d.Data))
		}
		if got := res(d).GetBytesValue(); !bytes.Equal(got, v) {
			bad("value-frame-round-trip/set", fmt.Sprintf("SET of %d bytes reads back from the result side as %x (frame %x)", n, got, d.Data))
		}
	}
	// a property header in front of the value: property values of 0..300 bytes and around the 16-bit length limit
	// (a text SET / APPEND / INCR attaches the key text as a property: binary-safe keys of up to 64 KiB)
	plens := []int{0, 1, 2, 40, 255, 256, 300, 65529, 65530, 65531, 65532, 65533, 65534, 65535, 65536}
	for _, pl := range plens {
		g.Evaluations++
		pv := blob(pl, 'p')
		d := protocol.NewLockCommandDataSetStringWithProperty("value", []*protocol.LockCommandDataProperty{protocol.NewLockCommandDataProperty(1, pv)})
		distinct[fmt.Sprintf("prop%d", pl)] = true
		if got := d.GetStringValue(); got != "value" {
			bad("value-frame-round-trip/property", fmt.Sprintf("SET \"value\" with a property of %d bytes reads back as %d bytes %.20q (frame of %d bytes, header %x)", pl, len(got), got, len(d.Data), d.Data[:min(len(d.Data), 12)]))
			continue
		}
		if got := res(d).GetStringValue(); got != "value" {
			bad("value-frame-round-trip/property", fmt.Sprintf("SET \"value\" with a property of %d bytes reads back from the result side as %d bytes %.20q", pl, len(got), got))
			continue
		}
		if p := res(d).GetDataProperty(1); pl <= 65530 && (p == nil || !bytes.Equal(p.Value, pv)) && !(pl == 0 && (p == nil || len(p.Value) == 0)) {
			bad("value-frame-round-trip/property", fmt.Sprintf("SET with a property of %d bytes: the property reads back as %v", pl, p))
		}
	}
	// numbers
	for _, x := range []int64{0, 1, -1, 255, 256, 1 << 31, -(1 << 31), 1<<63 - 1, -(1 << 63)} {
		g.Evaluations++
		d := protocol.NewLockCommandDataIncrData(x)
		distinct[fmt.Sprintf("incr%x", d.Data)] = true
		if got := d.GetIncrValue(); got != x {
			bad("value-frame-round-trip/incr", fmt.Sprintf("INCR %d reads back as %d (frame %x)", x, got, d.Data))
		}
		if got := res(d).GetIncrValue(); got != x {
			bad("value-frame-round-trip/incr", fmt.Sprintf("INCR %d reads back from the result side as %d (frame %x)", x, got, d.Data))
		}
	}
	// arrays: all shapes of 0..3 elements with lengths 0..4 (empty elements are skipped by the reader by design)
	lens := []int{0, 1, 2, 3, 4}
	var shapes [][]int
	shapes = append(shapes, nil)
	for _, a := range lens {
		shapes = append(shapes, []int{a})
		for _, b := range lens {
			shapes = append(shapes, []int{a, b})
			for _, c := range lens {
				shapes = append(shapes, []int{a, b, c})
			}
		}
	}
	for _, sh := range shapes {
		g.Evaluations++
		var in, want [][]byte
		for i, n := range sh {
			e := blob(n, byte('A'+i))
			in = append(in, e)
			if n > 0 {
				want = append(want, e)
			}
		}
		d := protocol.NewLockCommandDataSetArray(in)
		distinct[fmt.Sprintf("arr%x", d.Data)] = true
		got := res(d).GetArrayValue()
		if len(got) != len(want) {
			bad("value-frame-round-trip/array", fmt.Sprintf("array with element lengths %v reads back with %d elements %x (frame %x)", sh, len(got), got, d.Data))
			continue
		}
		for i := range got {
			if !bytes.Equal(got[i], want[i]) {
				bad("value-frame-round-trip/array", fmt.Sprintf("array with element lengths %v: element %d reads back as %x (frame %x)", sh, i, got[i], d.Data))
			}
		}
	}
	// key-value maps: 1..2 entries, key lengths 1..4 (distinct first bytes), value lengths 1..4
	for k1 := 1; k1 <= 4; k1++ {
		for v1 := 1; v1 <= 4; v1++ {
			for two := 0; two <= 1; two++ {
				for k2 := 1; k2 <= 4; k2 += 3 {
					for v2 := 1; v2 <= 4; v2 += 3 {
						if two == 0 && (k2 != 1 || v2 != 1) {
							continue
						}
						g.Evaluations++
						m := map[string][]byte{string(blob(k1, 'k')): blob(v1, 'v')}
						if two == 1 {
							m[string(blob(k2, 'q'))] = blob(v2, 'w')
						}
						d := protocol.NewLockCommandDataSetKV(m)
						got := res(d).GetKVValue()
						var ks []string
						for k := range got {
							ks = append(ks, fmt.Sprintf("%x=%x", k, got[k]))
						}
						sort.Strings(ks)
						distinct[fmt.Sprintf("kv%d.%d.%d.%d.%d", k1, v1, two, k2, v2)] = true
						ok := len(got) == len(m)
						for k, v := range m {
							if !bytes.Equal(got[k], v) {
								ok = false
							}
						}
						if !ok {
							bad("value-frame-round-trip/kv", fmt.Sprintf("key-value map with key/value lengths %d/%d (second entry: %v, %d/%d) reads back as %v (frame %x)", k1, v1, two == 1, k2, v2, ks, d.Data))
						}
					}
				}
			}
		}
	}
	g.Distinct = len(distinct)
	g.Samples = append(g.Samples, "constructors NewLockCommandDataSet{Data,Array,KV}, IncrData read back through LockCommandData / LockResultCommandData accessors")
	return g
}
