package checks

import (
	"encoding/json"
	"fmt"
	"sort"
	"strings"

	"github.com/snower/slock/protocol"
	"verif/explore"
	"verif/hapi"
	"verif/vrt"
	"verif/vrt/vnet"
	"verif/wire"
)

// a replication workload: requests issued on the leader at fixed virtual instants; the follower joins at JoinAt
type replWorkload struct {
	Name            string
	Steps           []TStep
	JoinAt          int64
	EndAt           int64
	LeaderMod       func(c *hapi.Config)
	FollowerMod     func(c *hapi.Config)
	Stale           bool // the follower starts from a stale directory (it had synced an earlier prefix, then was down)
	Burst           int  // >0: at BurstAt the leader->follower stream is held back, Burst records are produced, then the stream is released at once
	BurstAt         int64
	Sparse          bool  // cut positions on a coarse grid only (long streams)
	CutStride       int   // with Sparse: distance between cut positions (default 1531)
	RestartLeaderAt int64 // >0: the leader is killed and started again on its directory at this instant (its ring is then empty)
	HoldStarted     int64 // >0: of the follower's first connection only the 64-byte SYNC request reaches the leader until this instant (the follower's "started" frame is late)
	Resume          bool  // with RestartLeaderAt: the follower had synced everything before, is restarted with the leader and resumes by position
}

func c09Workloads(quick bool) []replWorkload {
	z := func(c hapi.Cmd) hapi.Cmd { return withEF(c, efZeroAof) }
	set := protocol.NewLockCommandDataSetString("v1").Data
	app := protocol.NewLockCommandDataAppendString("+2").Data
	at := func(t int64, c hapi.Cmd) TStep { return TStep{At: t, Cmd: c} }
	base := []TStep{
		at(1500*ms, z(hapi.Cmd{Type: 1, Req: 1, Key: 1, Id: 1, Expried: 300, Rcount: 2})),
		at(1600*ms, z(hapi.Cmd{Type: 1, Req: 2, Key: 2, Id: 2, Expried: 200, Data: set})),
		at(1700*ms, z(hapi.Cmd{Type: 1, Req: 3, Key: 1, Id: 1, Expried: 300, Rcount: 2})),
		// follower joins at 2.5 s (file transfer of the above), the rest is the live stream
		at(4000*ms, z(hapi.Cmd{Type: 1, Req: 4, Key: 3, Id: 3, Expried: 100})),
		at(4200*ms, hapi.Cmd{Type: 2, Req: 5, Key: 1, Id: 1, Rcount: 1}),
		at(4400*ms, z(hapi.Cmd{Type: 1, Req: 6, Key: 2, Id: 2, Expried: 200, Rcount: 3, Data: app})),
		at(6000*ms, z(hapi.Cmd{Type: 1, Req: 7, Key: 4, Id: 4, Expried: 2})), // expires on the leader at ~9 s
		at(9500*ms, hapi.Cmd{Type: 2, Req: 8, Key: 3, Id: 3}),
		at(9600*ms, z(hapi.Cmd{Type: 1, Req: 9, Key: 5, Id: 5, Expried: 400, Count: 3})),
	}
	ws := []replWorkload{
		{Name: "transfer+stream", Steps: base, JoinAt: 2500 * ms, EndAt: 30 * sec},
		{Name: "rotation", Steps: base, JoinAt: 2500 * ms, EndAt: 30 * sec, LeaderMod: func(c *hapi.Config) { c.RewriteSz = 12 + 64*3; c.FileBuf = 64 }},
		{Name: "small-ring-buffer", Steps: base, JoinAt: 2500 * ms, EndAt: 40 * sec, LeaderMod: func(c *hapi.Config) { c.RingSz = 256; c.RingMaxSz = 256 }},
		// the leader is restarted (empty ring, everything in files) before an empty follower asks for the full transfer
		{Name: "leader-restart-then-join", Steps: base, RestartLeaderAt: 2500 * ms, JoinAt: 3800 * ms, EndAt: 30 * sec},
	}
	// the leader is restarted (empty ring); an empty follower asks for the full transfer, its "started" frame is
	// late, and meanwhile more records are committed than the ring has room for at its initial size
	late := append([]TStep{}, base[:3]...)
	for i := 0; i < 40; i++ {
		late = append(late, at(4200*ms+int64(i)*10*ms, z(hapi.Cmd{Type: 1, Req: byte(20 + i), Key: byte(30 + i), Id: 1, Expried: 500})))
	}
	ws = append(ws, replWorkload{Name: "empty-ring-started-frame-late", Steps: late, RestartLeaderAt: 2500 * ms, JoinAt: 3800 * ms, HoldStarted: 8 * sec, EndAt: 30 * sec, Sparse: true, CutStride: 401,
		LeaderMod: func(c *hapi.Config) { c.RingSz = 1024; c.RingMaxSz = 64 << 20 }})
	// the record the follower is told to sync up to is the LAST one of a log file and belongs to a hold that expires
	// while the follower's "started" frame is late; meanwhile the leader has rotated and writes into the new file
	// (positions with a smaller per-file offset than the bound's): re-entries of a hold, which show when applied twice
	var rot []TStep
	for i := 0; i < 3; i++ {
		rot = append(rot, at(1500*ms+int64(i)*20*ms, z(hapi.Cmd{Type: 1, Req: byte(1 + i), Key: byte(1 + i), Id: 1, Expried: 600, Rcount: 5})))
	}
	rot = append(rot, at(1600*ms, z(hapi.Cmd{Type: 1, Req: 4, Key: 4, Id: 1, Expried: 2}))) // fourth record: rotates; ends by time at about 4.6 s
	rot = append(rot, at(2500*ms, z(hapi.Cmd{Type: 1, Req: 5, Key: 1, Id: 1, Expried: 600, Rcount: 5})),
		at(2600*ms, z(hapi.Cmd{Type: 1, Req: 6, Key: 2, Id: 1, Expried: 600, Rcount: 5})),
		at(9000*ms, z(hapi.Cmd{Type: 1, Req: 7, Key: 3, Id: 1, Expried: 600, Rcount: 5})))
	ws = append(ws, replWorkload{Name: "rotation-while-started-frame-late", Steps: rot, JoinAt: 1800 * ms, HoldStarted: 6 * sec, EndAt: 30 * sec, Sparse: true, CutStride: 401,
		LeaderMod: func(c *hapi.Config) { c.RewriteSz = 12 + 64*4; c.FileBuf = 64 }})
	// three rotations before the follower joins; the records of the second file are all released again, so the
	// compacted file only holds records of file 1 while the leader writes file 4
	var gap []TStep
	for i := 0; i < 3; i++ {
		gap = append(gap, at(1500*ms+int64(i)*50*ms, z(hapi.Cmd{Type: 1, Req: byte(1 + i), Key: byte(1 + i), Id: 1, Expried: 600})))
		gap = append(gap, at(2500*ms+int64(i)*50*ms, z(hapi.Cmd{Type: 1, Req: byte(11 + i), Key: byte(11 + i), Id: 1, Expried: 600})))
		gap = append(gap, at(3500*ms+int64(i)*50*ms, hapi.Cmd{Type: 2, Req: byte(21 + i), Key: byte(11 + i), Id: 1}))
	}
	gap = append(gap, at(8000*ms, z(hapi.Cmd{Type: 1, Req: 40, Key: 40, Id: 1, Expried: 600})))
	small := func(c *hapi.Config) { c.RewriteSz = 12 + 64*3; c.FileBuf = 64 }
	ws = append(ws, replWorkload{Name: "rotations-before-join", Steps: gap, JoinAt: 5000 * ms, EndAt: 30 * sec, LeaderMod: small, FollowerMod: small, Sparse: true, CutStride: 7})
	// the same with a ring of four records and further records while a cut-off follower waits to reconnect: its
	// position is no longer in the ring, the leader makes it start over
	gap2 := append([]TStep{}, gap...)
	for i := 0; i < 6; i++ {
		gap2 = append(gap2, at(6000*ms+int64(i)*300*ms, z(hapi.Cmd{Type: 1, Req: byte(50 + i), Key: byte(50 + i), Id: 1, Expried: 600})))
	}
	smallRing := func(c *hapi.Config) { c.RewriteSz = 12 + 64*3; c.FileBuf = 64; c.RingSz = 256; c.RingMaxSz = 256 }
	ws = append(ws, replWorkload{Name: "rotations-before-join-small-ring", Steps: gap2, JoinAt: 5000 * ms, EndAt: 40 * sec, LeaderMod: smallRing, FollowerMod: small, Sparse: true, CutStride: 7})
	// a slow follower: 600 records become readable at once (more than the follower's 256 receive buffers)
	ws = append(ws, replWorkload{Name: "burst-of-600-records", Steps: base, JoinAt: 2500 * ms, EndAt: 40 * sec, Burst: 600, BurstAt: 12 * sec, Sparse: true})
	// values larger than the sender's 4096-byte batch buffer, right behind small records about the same key: a
	// sender that resumes after a cut has all of them pending in one drain
	big := protocol.NewLockCommandDataSetString(strings.Repeat("L", 5000)).Data
	big2 := protocol.NewLockCommandDataSetString(strings.Repeat("M", 4033)).Data
	large := append(append([]TStep{}, base[:3]...),
		at(4000*ms, z(hapi.Cmd{Type: 1, Req: 10, Key: 3, Id: 3, Expried: 100, Data: set})),
		at(4100*ms, z(hapi.Cmd{Type: 1, Req: 11, Key: 6, Id: 1, Expried: 300})),
		at(4200*ms, z(hapi.Cmd{Type: 1, Req: 17, Key: 8, Id: 8, Expried: 300})),
		at(4200*ms, hapi.Cmd{Type: 2, Req: 12, Key: 6, Id: 1}),
		at(4200*ms, z(hapi.Cmd{Type: 1, Req: 13, Key: 6, Id: 2, Expried: 300, Data: big})),
		at(4200*ms, z(hapi.Cmd{Type: 1, Req: 18, Key: 9, Id: 9, Expried: 300})),
		at(4300*ms, hapi.Cmd{Type: 2, Req: 14, Key: 3, Id: 3}),
		at(4300*ms, z(hapi.Cmd{Type: 1, Req: 15, Key: 3, Id: 4, Expried: 300, Data: big2})),
		at(4400*ms, z(hapi.Cmd{Type: 1, Req: 16, Key: 7, Id: 7, Expried: 300})))
	ws = append(ws, replWorkload{Name: "large-values", Steps: large, JoinAt: 2500 * ms, EndAt: 30 * sec, Sparse: true, CutStride: 31, LeaderMod: func(c *hapi.Config) { c.RingSz = 1 << 16; c.RingMaxSz = 1 << 20 }},
		// the same with the default ring: the batch overruns it, the sender gives up and the follower starts over
		replWorkload{Name: "large-values-small-ring", Steps: large, JoinAt: 2500 * ms, EndAt: 30 * sec, Sparse: true, CutStride: 97})
	if !quick {
		var many []TStep
		many = append(many, base...)
		for i := 0; i < 12; i++ {
			many = append(many, at(10*sec+int64(i)*100*ms, z(hapi.Cmd{Type: 1, Req: byte(20 + i), Key: byte(20 + i), Id: 1, Expried: 500})))
		}
		ws = append(ws, replWorkload{Name: "burst-while-cut", Steps: many, JoinAt: 2500 * ms, EndAt: 45 * sec, LeaderMod: func(c *hapi.Config) { c.RingSz = 256; c.RingMaxSz = 512 }},
			replWorkload{Name: "join-first", Steps: base, JoinAt: 1400 * ms, EndAt: 30 * sec})
	}
	return ws
}

type replOutcome struct {
	Leader, Follower string
	Restarted        bool   // the follower was stopped and started again on its own directory at the end
	RestartErr       string // that start failed
	Leader2          string // leader / follower 5 s after that start
	Follower2        string
	StreamBytes      int   // leader->follower bytes on the first replication link
	Links            int   // replication links the follower opened
	Boundaries       []int // offsets at which the leader's writes on the first link ended
	Err              string
}

// runRepl executes the workload with the first replication link cut after cut1 leader->follower bytes
// (cut1 < 0: no cut) and the second after cut2 bytes.
func runRepl(w *replWorkload, cut1, cut2 int) replOutcome { return runReplEx(w, cut1, cut2, false) }

// runReplEx: with restartFollower the follower is stopped cleanly at the end and started again on the directory
// its own synchronisation produced.
func runReplEx(w *replWorkload, cut1, cut2 int, restartFollower bool) replOutcome {
	var out replOutcome
	rt := vrt.Run(vrt.Options{MaxPoints: 600_000_000, HB: true}, func() {
		lc := hapi.Config{Name: "n0", Port: 5658, FastKeys: 4, Concurrent: 1}
		if w.LeaderMod != nil {
			w.LeaderMod(&lc)
		}
		leader := hapi.Factories["n0"](lc)
		if err := leader.Start(); err != nil {
			out.Err = err.Error()
			return
		}
		vrt.AdvanceTo(1300 * ms)
		c, err := wire.Dial(nodeAddr(0))
		if err != nil {
			out.Err = err.Error()
			return
		}
		_ = c.Send(make64(protocol.COMMAND_PING))
		var first *vnet.Link
		vnet.OnLink(func(l *vnet.Link) {
			if l.DialGroup != "n1" || l.ListenAddr != nodeAddr(0) {
				return
			}
			out.Links++
			switch out.Links {
			case 1:
				first = l
				l.BtoA.CutAt = cut1
				if w.HoldStarted > 0 {
					l.AtoB.HoldAfter = 64
				}
			case 2:
				l.BtoA.CutAt = cut2
			}
		})
		var follower hapi.Node
		steps := append([]TStep{}, w.Steps...)
		sort.SliceStable(steps, func(i, j int) bool { return steps[i].At < steps[j].At })
		join := func() {
			fc := hapi.Config{Name: "n1", Port: 5659, FastKeys: 4, Concurrent: 1, SlaveOf: nodeAddr(0)}
			if w.FollowerMod != nil {
				w.FollowerMod(&fc)
			}
			follower = hapi.Factories["n1"](fc)
			if err := follower.Start(); err != nil {
				out.Err = "follower start: " + err.Error()
			}
		}
		burst := func() {
			vrt.AdvanceTo(w.BurstAt)
			for _, l := range vnet.Links() {
				if l.DialGroup == "n1" && l.ListenAddr == nodeAddr(0) {
					l.BtoA.Hold = true
				}
			}
			for i := 0; i < w.Burst; i++ {
				_ = c.Send(wire.BinFrame(withEF(hapi.Cmd{Type: 1, Req: byte(i), DB: 1, Key: byte(100 + i/250), Id: byte(i % 250), Expried: 600, Count: 0xffff}, efZeroAof)))
			}
			vrt.Quiesce()
			for _, l := range vnet.Links() {
				l.BtoA.Hold = false
			}
		}
		restarted := w.RestartLeaderAt == 0
		restartLeader := func() {
			vrt.AdvanceTo(w.RestartLeaderAt)
			leader.Poke("flushaof")
			vrt.Quiesce()
			vrt.KillGroup("n0")
			leader = hapi.Factories["n0"](lc)
			if err := leader.Start(); err != nil {
				out.Err = "leader restart: " + err.Error()
				return
			}
			vrt.AdvanceTo(vrt.Elapsed() + 300*ms)
			c, err = wire.Dial(nodeAddr(0))
			if err != nil {
				out.Err = err.Error()
				return
			}
			_ = c.Send(make64(protocol.COMMAND_PING))
			restarted = true
		}
		for si := 0; si < len(steps); si++ {
			st := steps[si]
			if !restarted && st.At >= w.RestartLeaderAt {
				restartLeader()
				if out.Err != "" {
					return
				}
			}
			if follower == nil && st.At >= w.JoinAt {
				vrt.AdvanceTo(w.JoinAt)
				join()
				if out.Err != "" {
					return
				}
			}
			vrt.AdvanceTo(st.At)
			// steps scripted for the same instant are pipelined in one write: the connection handler works
			// through them in one go, so their records reach the replication ring as a batch
			frames := wire.BinFrame(st.Cmd)
			for si+1 < len(steps) && steps[si+1].At == st.At {
				si++
				frames = append(frames, wire.BinFrame(steps[si].Cmd)...)
			}
			_ = c.Send(frames)
		}
		if follower == nil {
			vrt.AdvanceTo(w.JoinAt)
			join()
		}
		if w.Burst > 0 {
			burst()
		}
		if w.HoldStarted > 0 {
			vrt.AdvanceTo(w.HoldStarted)
			if first != nil {
				first.AtoB.HoldAfter = 0
			}
		}
		vrt.AdvanceTo(w.EndAt)
		out.Leader = holdsOnly(leader.Snapshot())
		out.Follower = holdsOnly(follower.Snapshot())
		if first != nil {
			out.StreamBytes = first.BtoA.Written
		}
		if restartFollower {
			out.Restarted = true
			follower.Poke("flushaof")
			vrt.Quiesce()
			vrt.KillGroup("n1")
			vrt.AdvanceTo(vrt.Elapsed() + 500*ms)
			fc := hapi.Config{Name: "n1", Port: 5659, FastKeys: 4, Concurrent: 1, SlaveOf: nodeAddr(0)}
			if w.FollowerMod != nil {
				w.FollowerMod(&fc)
			}
			f2 := hapi.Factories["n1"](fc)
			if err := f2.Start(); err != nil {
				out.RestartErr = err.Error()
				return
			}
			vrt.AdvanceTo(vrt.Elapsed() + 5*sec)
			out.Leader2 = holdsOnly(leader.Snapshot())
			out.Follower2 = holdsOnly(f2.Snapshot())
		}
	})
	if rt.Crash != nil {
		out.Err = "crash: " + rt.Crash.Value + "\n" + firstLines(rt.Crash.Stack, 14)
	}
	if mr := rt.MapRaceReport(); mr != "" && out.Err == "" {
		out.Err = "crash: two threads access a map without an ordering between them (the Go runtime kills the process when they meet): " + mr
	}
	if rt.Deadlock != "" {
		out.Err = "deadlock: " + rt.Deadlock
	}
	return out
}

// holdsOnly renders the replicated part of a snapshot: keys, LockIds, depths, Count, value; deadlines
// rounded to 2 s buckets are compared separately with tolerance.
func holdsOnly(s *hapi.Snapshot) string {
	var rows []string
	for _, k := range s.Keys {
		if len(k.Holds) == 0 {
			continue
		}
		r := fmt.Sprintf("db%d key%x val%x:", k.DB, k.Key[15], valuePayload(k.Value))
		for _, h := range k.Holds {
			r += fmt.Sprintf(" H(id%x d%d c%d rc%d in%d)", h.LockId[15], h.Depth, h.Count, h.Rcount, h.ExpriedIn)
		}
		rows = append(rows, r)
	}
	sort.Strings(rows)
	return strings.Join(rows, " / ")
}

// sameHolds compares two renderings with a deadline tolerance of 2 s.
func sameHolds(a, b string) bool {
	fa, fb := strings.Fields(a), strings.Fields(b)
	if len(fa) != len(fb) {
		return false
	}
	for i := range fa {
		if fa[i] == fb[i] {
			continue
		}
		var x, y int64
		if strings.HasPrefix(fa[i], "in") && strings.HasPrefix(fb[i], "in") {
			fmt.Sscanf(strings.TrimRight(fa[i][2:], ")"), "%d", &x)
			fmt.Sscanf(strings.TrimRight(fb[i][2:], ")"), "%d", &y)
			if x-y <= 2 && y-x <= 2 {
				continue
			}
		}
		return false
	}
	return true
}

type c09Arg struct {
	W    int `json:"w"`
	From int `json:"f"`
	To   int `json:"t"`
	Two  int `json:"two"` // second cut offset on the re-established link (-1 none)
}

func c09Cases(quick bool) []EnumCase {
	var out []EnumCase
	for wi, w := range c09Workloads(quick) {
		base := runRepl(&w, -1, -1)
		n := base.StreamBytes
		if base.Err != "" || n == 0 {
			out = append(out, mkCase(fmt.Sprintf("%s/baseline", w.Name), c09Arg{wi, -1, -1, -1}))
			continue
		}
		out = append(out, mkCase(fmt.Sprintf("%s/baseline", w.Name), c09Arg{wi, -1, 0, -1}))
		chunk := 24
		if w.Sparse {
			stride := 1531
			if w.CutStride > 0 {
				stride = w.CutStride
			}
			for f := 7; f < n; f += stride {
				out = append(out, mkCase(fmt.Sprintf("%s/cut/%d", w.Name, f), c09Arg{wi, f, f + 1, -1}))
			}
			continue
		}
		for f := 0; f < n; f += chunk {
			t := f + chunk
			if t > n {
				t = n
			}
			out = append(out, mkCase(fmt.Sprintf("%s/cut/%d-%d", w.Name, f, t-1), c09Arg{wi, f, t, -1}))
		}
		// two cuts: the re-established link is cut again at a few offsets
		step := 61
		if !quick {
			step = 17
		}
		for f := 1; f < n; f += step {
			for _, two := range []int{1, 70, 200} {
				out = append(out, mkCase(fmt.Sprintf("%s/cut2/%d+%d", w.Name, f, two), c09Arg{wi, f, f + 1, two}))
			}
		}
	}
	return out
}

func evalC09(c *Ctx, cs EnumCase) EnumResult {
	var a c09Arg
	if err := json.Unmarshal(cs.Arg, &a); err != nil {
		return EnumResult{Err: err.Error()}
	}
	w := c09Workloads(c.Quick())[a.W]
	res := EnumResult{Nontrivial: true}
	var vs []explore.Violation
	distinct := map[string]bool{}
	judge := func(what string, o replOutcome) {
		res.Sub++
		if o.Err != "" {
			if strings.HasPrefix(o.Err, "crash") || strings.HasPrefix(o.Err, "deadlock") {
				vs = append(vs, explore.Violation{Sig: "C09:" + strings.SplitN(o.Err, ":", 2)[0], Msg: what + ": " + o.Err})
			} else {
				vs = append(vs, explore.Violation{Sig: "C09:engine", Msg: what + ": " + o.Err})
			}
			return
		}
		distinct[fmt.Sprintf("%d|%s", o.Links, o.Follower)] = true
		if !sameHolds(o.Leader, o.Follower) {
			vs = append(vs, explore.Violation{Sig: "C09:follower-differs-from-leader", Msg: fmt.Sprintf("%s: once the leader is quiescent it holds [%s] but the follower holds [%s] (%d replication links were opened)", what, o.Leader, o.Follower, o.Links)})
		} else if o.Restarted {
			if o.RestartErr != "" {
				vs = append(vs, explore.Violation{Sig: "C09:follower-cannot-restart", Msg: fmt.Sprintf("%s: the follower, stopped cleanly and started again on the directory its own synchronisation produced, does not start: %s", what, o.RestartErr)})
			} else if !sameHolds(o.Leader2, o.Follower2) {
				vs = append(vs, explore.Violation{Sig: "C09:follower-differs-after-restart", Msg: fmt.Sprintf("%s: 5 s after the follower was restarted on its own directory the leader holds [%s] but the follower holds [%s]", what, o.Leader2, o.Follower2)})
			}
		}
	}
	if a.From < 0 {
		o := runReplEx(&w, -1, -1, true)
		if a.To < 0 {
			return EnumResult{Err: fmt.Sprintf("workload %s: baseline run unusable: %s (stream %d bytes)", w.Name, o.Err, o.StreamBytes)}
		}
		judge(fmt.Sprintf("workload %s without cuts", w.Name), o)
		res.Obs = fmt.Sprintf("stream %d bytes; follower [%s]", o.StreamBytes, o.Follower)
	} else {
		for off := a.From; off < a.To; off++ {
			o := runReplEx(&w, off, a.Two, true)
			what := fmt.Sprintf("workload %s, leader->follower stream cut after %d bytes", w.Name, off)
			if a.Two >= 0 {
				what += fmt.Sprintf(" and the re-established stream after %d bytes", a.Two)
			}
			judge(what, o)
			res.Obs = fmt.Sprintf("%s: %d links, follower [%s]", what, o.Links, o.Follower)
		}
	}
	res.Viol = dedupe(vs)
	for i := range res.Viol {
		if res.Viol[i].Sig == "C09:engine" {
			return EnumResult{Err: res.Viol[i].Msg}
		}
	}
	res.SubNT = len(distinct)
	return res
}

// oracleRingOrder: the replication ring lists the persisted records in the order of the log (file index,
// then offset, without gaps inside a file).
func oracleRingOrder(r *EngRun) []explore.Violation {
	ids := strings.Fields(r.Probes["ringids"])
	pi, po := -1, -1
	for n, s := range ids {
		var i, o int
		fmt.Sscanf(s, "%d.%d", &i, &o)
		if n > 0 && (i < pi || (i == pi && o != po+1)) {
			return []explore.Violation{{Sig: "C09:ring-order-differs-from-log", Msg: fmt.Sprintf("the replication ring holds the records in the order [%s] (file.offset): record %s follows %d.%d, followers and joining followers see another sequence than the leader's log", strings.Join(ids, " "), s, pi, po)}}
		}
		pi, po = i, o
	}
	if len(ids) < 2 {
		return []explore.Violation{{Sig: "C09:ring-empty", Msg: fmt.Sprintf("harness: the ring holds %d records after two persisted locks", len(ids))}}
	}
	return nil
}

func init() {
	enumCheck("C09", "fault_enumeration",
		func(q bool) []*EnumPlan {
			return []*EnumPlan{{Name: "stream-cuts", Cases: c09Cases, Eval: evalC09}, {Name: "two-followers", Cases: c09TwoCases, Eval: evalC09Two}}
		},
		func(q bool) *SchedPlan {
			// concurrent appenders (one per key shard): the order of the replication ring must be the order of the log
			cfg := hapi.Config{FastKeys: 4, Concurrent: 2, FileBuf: 64}
			z := func(c hapi.Cmd) Step { return C(withEF(c, efZeroAof)) }
			return &SchedPlan{Specs: []*EngSpec{
				{Name: "two-appenders", Cfg: cfg, Fine: true, Probes: []string{"ringids"},
					Threads: [][]Step{{z(L(1, 1, 1, 0, 50, 0, 0))}, {z(L(2, 2, 2, 0, 50, 0, 0))}}},
				{Name: "two-appenders-after-history", Cfg: cfg, Fine: true, Probes: []string{"ringids"},
					Setup:   []Step{z(L(9, 5, 5, 0, 50, 0, 0)), z(L(8, 6, 6, 0, 50, 0, 0))},
					Threads: [][]Step{{z(L(1, 1, 1, 0, 50, 0, 0)), C(U(3, 1, 1))}, {z(L(2, 2, 2, 0, 50, 0, 0))}}},
			}, Oracles: []Oracle{oracleRingOrder}, Bound: func(s *EngSpec, q bool) int {
				if q {
					return 2
				}
				return 3
			}, MaxExec: schedCapT(6000, 60000)}
		},
		"leader n0 and follower n1 are real node copies connected over the in-memory network; for each workload (requests before the follower joins = file transfer, after = live stream; values, partial unlocks, an expiry, log rotation, a 4-record ring buffer) the leader->follower byte stream of the first replication link is cut after EVERY byte offset (one execution per offset; the follower's real 5 s reconnect runs on virtual time), plus a second cut of the re-established link at sampled offsets; once the leader is quiescent the follower's holds (key, LockId, depth, Count, Rcount, value, deadline within 2 s) must equal the leader's; distinct = distinct (links opened, follower state)",
		[]string{"message handlers run under the default schedule (handler atomicity); cuts are at byte granularity of the leader's writes", "all workload holds are persist-immediately so that the leader's state is its persisted state", "second cuts use a fixed grid of offsets (bounded, not every pair)"})
}
