package checks

import (
	"bytes"
	"fmt"

	"github.com/snower/slock/protocol"
	"verif/explore"
	"verif/hapi"
)

const (
	efZeroAof  = 0x0100
	efNeverAof = 0x0200
	efPctAof   = 0x1000
)

type holdKey struct {
	db  uint8
	key [16]byte
	id  [16]byte
}

func holdsOfSnap(s *hapi.Snapshot) map[holdKey]hapi.Hold {
	m := map[holdKey]hapi.Hold{}
	for _, k := range s.Keys {
		for _, h := range k.Holds {
			m[holdKey{k.DB, k.Key, h.LockId}] = h
		}
	}
	return m
}

func unitSeconds(ef uint16) int64 {
	if ef&fMinute != 0 {
		return 60
	}
	return 1
}

// persistClass: 2 = must be restored, 0 = must not, 1 = either.
func persistClass(h hapi.Hold, aofDelay int64) int {
	switch {
	case h.ExpriedFlag&efNeverAof != 0 && h.ExpriedFlag&efZeroAof == 0 && h.ExpriedFlag&efPctAof == 0:
		return 0
	case h.ExpriedFlag&0x1300 == efZeroAof:
		return 2
	case h.ExpriedFlag&0x1300 == 0 && h.StartAgo >= aofDelay+2:
		return 2
	}
	return 1
}

// OracleC07 compares the state recovered by a fresh node with the state before the stop.
func OracleC07(r *SeqRun) []explore.Violation {
	ro := r.Restart
	if ro == nil {
		return nil
	}
	var vs []explore.Violation
	add := func(sig, msg string) { vs = append(vs, explore.Violation{Sig: "C07:" + sig, Msg: msg}) }
	if ro.StartErr != "" {
		add("restart-failed", fmt.Sprintf("start on the data directory left by a drained leader failed: %s (files %v)", ro.StartErr, ro.Files))
		return vs
	}
	delay := int64(r.Spec.Cfg.WithDefaults().AofTime)
	before, after := holdsOfSnap(ro.Before), holdsOfSnap(ro.After)
	// holds granted while the key already had a holder: the implementation copies the persistence timing of
	// the key's oldest holder instead of honouring the request's own flag (listed known finding)
	joined := map[holdKey]bool{}
	updFresh := false
	updExisting := map[holdKey]bool{}    // holds whose terms were changed by a LOCK with the update flag
	firstDeadline := map[holdKey]int64{} // virtual instant at which the first record of a hold expires by its own terms
	var stopT int64
	var prev *hapi.Snapshot
	for _, st := range append(append([]SeqStep{}, r.Ramp...), r.Steps...) {
		if st.Snap == nil {
			continue
		}
		for _, k := range st.Snap.Keys {
			var pk *hapi.KeyState
			if prev != nil {
				pk = prev.Key(k.DB, k.Key)
			}
			for _, h := range k.Holds {
				was := false
				if pk != nil {
					for _, ph := range pk.Holds {
						if ph.LockId == h.LockId {
							was = true
						}
					}
				}
				if was && st.Op.Cmd != nil && st.Op.Cmd.Type == 1 && st.Op.Cmd.Flag&0x02 != 0 && st.Op.Cmd.Key == k.Key[15] && st.Op.Cmd.Id == h.LockId[15] {
					updExisting[holdKey{k.DB, k.Key, h.LockId}] = true
				}
				if !was && st.Op.Cmd != nil && st.Op.Cmd.Type == 1 && st.Op.Cmd.Key == k.Key[15] && st.Op.Cmd.Id == h.LockId[15] && st.Op.Cmd.ExpriedFlag&(fUnlim|fMilli) == 0 {
					// deadline carried by the first record of this hold
					firstDeadline[holdKey{k.DB, k.Key, h.LockId}] = st.T + int64(st.Op.Cmd.Expried)*unitSeconds(st.Op.Cmd.ExpriedFlag)*sec
				}
				if !was {
					if pk != nil && len(pk.Holds) > 0 {
						joined[holdKey{k.DB, k.Key, h.LockId}] = true
					}
					if st.Op.Cmd != nil && st.Op.Cmd.Type == 1 && st.Op.Cmd.Flag&0x02 != 0 {
						updFresh = true
					}
				}
			}
		}
		prev = st.Snap
		stopT = st.T
	}
	for hk, h := range before {
		cls := persistClass(h, delay)
		suffix := ""
		if joined[hk] {
			suffix = "/timing-inherited-from-oldest-holder"
		} else {
			for ok2 := range before {
				if ok2.db == hk.db && ok2.key == hk.key && ok2 != hk && joined[ok2] {
					// the oldest holder of a key whose other holders joined later: its record may be written AFTER theirs
					// (records are logged when they become due, not in grant order) and the replay applies the Count rule
					suffix = "/logged-after-a-co-holder-that-joined-later"
				}
			}
		}
		a, ok := after[hk]
		switch cls {
		case 2:
			if !ok && h.ExpriedFlag&fUnlim == 0 && h.ExpriedIn <= unitSeconds(h.ExpriedFlag)+1 {
				continue // no more than the deadline tolerance was left: it may count as expired after the outage
			}
			if fd, has := firstDeadline[hk]; !ok && suffix == "" && has && stopT >= fd {
				// the hold was renewed by a later re-lock / update, its first record's own period is over: what is left in the
				// log no longer adds up to a hold (e.g. one level was released since)
				suffix = "/renewed-hold-whose-first-record-lapsed"
			}
			if !ok {
				add("persisted-hold-lost"+suffix, fmt.Sprintf("hold db%d key%x id%x (depth %d, expiry flag %#x, age %ds) counts as persisted but was not restored", hk.db, hk.key[15], hk.id[15], h.Depth, h.ExpriedFlag, h.StartAgo))
				continue
			}
		case 0:
			if ok {
				add("never-persist-restored"+suffix, fmt.Sprintf("hold db%d key%x id%x was taken with the never-persist flag but was restored", hk.db, hk.key[15], hk.id[15]))
			}
			continue
		}
		if !ok {
			continue
		}
		if a.Depth != h.Depth || a.Count != h.Count || a.Rcount != h.Rcount {
			sfx := ""
			if updFresh {
				sfx = "/update-flag-on-fresh-lock"
			} else if updExisting[hk] && a.Depth < h.Depth {
				sfx = "/depth-lost-after-update-outlived-the-original-records"
			} else if fd, ok := firstDeadline[hk]; ok && a.Depth < h.Depth && stopT >= fd {
				// the hold was renewed by a later re-lock, but its first record still carries the old deadline
				sfx = "/depth-lost-after-relock-outlived-the-first-record"
			}
			add("restored-terms-differ"+sfx, fmt.Sprintf("hold db%d key%x id%x restored with depth %d Count %d Rcount %d, it had depth %d Count %d Rcount %d", hk.db, hk.key[15], hk.id[15], a.Depth, a.Count, a.Rcount, h.Depth, h.Count, h.Rcount))
		}
		// the deadline a hold really has decides whether it is unlimited: an update carrying (unlimited flag, Expried
		// 0xffff) leaves the flag on the hold and the deadline where it was (C06 finding update-to-unlimited-0xffff)
		if h.ExpriedFlag&fUnlim == 0 || h.ExpriedIn < 1<<39 {
			tol := unitSeconds(h.ExpriedFlag&^fUnlim) + 1
			if a.ExpriedIn > h.ExpriedIn+tol {
				add("deadline-renewed", fmt.Sprintf("hold db%d key%x id%x had %d s left before the stop and %d s after the restart (tolerance %d s): the outage renewed it", hk.db, hk.key[15], hk.id[15], h.ExpriedIn, a.ExpriedIn, tol))
			}
			if a.ExpriedIn < h.ExpriedIn-tol {
				add("deadline-shortened", fmt.Sprintf("hold db%d key%x id%x had %d s left before the stop but only %d s after the restart (tolerance %d s)", hk.db, hk.key[15], hk.id[15], h.ExpriedIn, a.ExpriedIn, tol))
			}
		} else if a.ExpriedIn < 1<<39 {
			add("unlimited-lost", fmt.Sprintf("hold db%d key%x id%x had unlimited expiry, restored with %d s", hk.db, hk.key[15], hk.id[15], a.ExpriedIn))
		}
	}
	if r.Spec.Restart2 {
		if ro.Start2Err != "" {
			add("second-restart-failed", "the third start failed: "+ro.Start2Err)
		} else if ro.After2 != nil {
			rel := map[string]bool{}
			for _, x := range ro.Released {
				rel[x] = true
			}
			for _, k := range ro.After2.Keys {
				for _, h := range k.Holds {
					id := fmt.Sprintf("db%d key%x id%x", k.DB, k.Key[15], h.LockId[15])
					if rel[id] {
						add("released-after-restart-yet-restored", fmt.Sprintf("hold %s was restored by the first restart, its unlock was accepted by that incarnation, and a second restart restores it again (depth %d)", id, h.Depth))
					}
				}
			}
		}
	}
	for hk, a := range after {
		if _, ok := before[hk]; !ok {
			add("released-hold-restored", fmt.Sprintf("restart restored hold db%d key%x id%x (depth %d) which was not outstanding at the stop", hk.db, hk.key[15], hk.id[15], a.Depth))
		}
	}
	// values: compared on keys whose every holder is certainly persisted
	for _, k := range ro.Before.Keys {
		all := len(k.Holds) > 0
		for _, h := range k.Holds {
			if persistClass(h, delay) != 2 {
				all = false
			}
		}
		if !all {
			continue
		}
		ak := ro.After.Key(k.DB, k.Key)
		var av []byte
		if ak != nil {
			av = ak.Value
		}
		if !bytes.Equal(valuePayload(av), valuePayload(k.Value)) {
			sig := "value-differs"
			for _, st := range r.Steps {
				if c := st.Op.Cmd; c != nil && c.Type == 2 && c.Data != nil && c.Key == k.Key[15] && c.DB == k.DB {
					sig = "value-differs/written-by-an-unlock"
				}
			}
			add(sig, fmt.Sprintf("key db%d key%x carried value %x before the stop and %x after the restart", k.DB, k.Key[15], k.Value, av))
		}
	}
	return dedupe(vs)
}

func valuePayload(d []byte) []byte {
	if len(d) < 6 || d[4]&0x3f == 1 {
		return nil
	}
	return d[6:]
}

func dbc(c hapi.Cmd, db uint8) hapi.Cmd { c.DB = db; return c }

func c07Alphabet(quick bool) []SeqOp {
	set := protocol.NewLockCommandDataSetString("v1").Data
	app := protocol.NewLockCommandDataAppendString("w").Data
	a := []SeqOp{
		op(0, withEF(L(0, 1, 1, 0, 50, 1, 2), efZeroAof)),
		op(0, withEF(L(0, 1, 2, 0, 40, 1, 2), 0)), // default persistence delay, re-enterable before it is first persisted
		op(0, withEF(L(0, 1, 3, 0, 30, 2, 0), efNeverAof)),
		op(0, withEF(L(0, 2, 1, 0, 3, 0, 0), efZeroAof|fMinute)),
		op(1, dbc(withEF(L(0, 1, 1, 0, 20, 0, 1), efZeroAof), 1)),
		op(0, withData(withEF(L(0, 2, 2, 0, 60, 0, 1), efZeroAof), set)),
		op(0, withData(withEF(L(0, 2, 2, 0, 60, 0, 1), efZeroAof), app)),
		op(0, withF(withEF(L(0, 1, 1, 0, 90, 1, 2), efZeroAof), 0x02)),
		op(1, withData(withEF(L(0, 3, 1, 0, 2, 0, 0), efZeroAof), protocol.NewLockCommandDataSetString("short-lived").Data)), // expires before most restarts
		op(0, U(0, 1, 1)),
		op(0, hapi.Cmd{Type: 2, Key: 1, Id: 1, Rcount: 1}),
		op(0, U(0, 1, 2)),
		op(0, U(0, 2, 2)),
		op(1, dbc(U(0, 1, 1), 1)),
		tick(1 * sec), tick(4 * sec),
	}
	if !quick {
		a = append(a,
			op(0, withEF(L(0, 1, 4, 5, 10, 0, 0), efZeroAof)), // queues behind the others
			op(0, withEF(L(0, 3, 1, 0, 2500, 0, 0), efZeroAof|fMilli)),
			op(0, withEF(L(0, 3, 2, 0, 0xffff, 0xffff, 0), efZeroAof|fUnlim)),
			tick(30*sec))
	}
	return a
}

func c07Specs(quick bool) []*SeqSpec {
	d := 4
	if !quick {
		d = 5
	}
	var specs []*SeqSpec
	for _, v := range []struct {
		name    string
		buf, rw uint
	}{{"buf64", 64, 1 << 20}, {"buf128-rotate", 128, 12 + 64*3}, {"buf64-rotate", 64, 12 + 64*3}, {"buf4096", 4096, 1 << 20}} {
		if quick && v.name == "buf4096" {
			continue
		}
		specs = append(specs, &SeqSpec{Name: "restart-" + v.name, Cfg: hapi.Config{FastKeys: 2, Concurrent: 2, FileBuf: v.buf, RewriteSz: v.rw, PreDBs: 2}, Alphabet: c07Alphabet(quick), Depth: d, Restart: true, MaxStates: 300000})
	}
	// the largest expiry values of every unit (the log stores the remaining time in 16 bits)
	specs = append(specs, &SeqSpec{Name: "restart-boundary-expiries", Cfg: hapi.Config{FastKeys: 2, Concurrent: 2, FileBuf: 64, RewriteSz: 1 << 20, PreDBs: 2}, Depth: 3, Restart: true, MaxStates: 300000, Alphabet: []SeqOp{
		op(0, withEF(L(0, 4, 1, 0, 0xffff, 0, 1), efZeroAof)),
		op(0, withEF(L(0, 5, 1, 0, 0xfffe, 0, 1), efZeroAof)),
		op(0, withEF(L(0, 6, 1, 0, 0xffff, 0, 1), efZeroAof|fMinute)),
		op(0, withEF(L(0, 7, 1, 0, 0xffff, 0, 1), efZeroAof|fMilli)),
		op(0, withEF(L(0, 8, 1, 0, 0x8000, 0, 1), efZeroAof)),
		// the SMALLEST values of the coarse units, logged at once and after the default delay
		op(0, withEF(L(0, 9, 1, 0, 1, 0, 1), efZeroAof|fMinute)),
		op(0, withEF(L(0, 11, 1, 0, 1, 0, 1), fMinute)),
		op(0, withEF(L(0, 12, 1, 0, 2, 0, 1), fMinute)),
		tick(1 * sec), tick(3 * sec),
	}})
	// terms shortened by an update before the hold is released or ends (the log then holds records whose own
	// deadline has passed next to records that are still needed), unlocks carrying the priority flag, millisecond
	// and unlimited flags combined, values written by zero-expiry requests and by unlocks of young co-holders
	z := func(c hapi.Cmd) hapi.Cmd { return withEF(c, efZeroAof) }
	v1 := protocol.NewLockCommandDataSetString("v1").Data
	v2 := protocol.NewLockCommandDataSetString("v2").Data
	rcfg := hapi.Config{FastKeys: 2, Concurrent: 2, FileBuf: 64, RewriteSz: 1 << 20, PreDBs: 2}
	specs = append(specs, &SeqSpec{Name: "restart-shortened-terms", Cfg: rcfg, Depth: d, Restart: true, MaxStates: 300000, Alphabet: []SeqOp{
		op(0, z(L(0, 10, 1, 0, 120, 0, 2))),
		op(0, withF(z(L(0, 10, 1, 0, 2, 0, 2)), 0x02)),                           // update: 120 s -> 2 s
		op(0, withF(withEF(L(0, 10, 1, 0, 1500, 0, 1), efZeroAof|fMilli), 0x02)), // update: -> 1500 ms
		op(0, U(0, 10, 1)),
		op(0, hapi.Cmd{Type: 2, Key: 10, Id: 1, TimeoutFlag: 0x10, Rcount: 2}), // unlock carrying the priority flag
		op(1, z(L(0, 10, 2, 0, 120, 0, 0))),                                    // another LockId takes the key once it is free
		tick(1 * sec), tick(5 * sec),
	}})
	specs = append(specs, &SeqSpec{Name: "restart-flag-combinations", Cfg: rcfg, Depth: d, Restart: true, MaxStates: 300000, Alphabet: []SeqOp{
		op(0, withData(L(0, 11, 2, 0, 120, 1, 0), v1)),                                                       // default persistence delay
		op(1, L(0, 11, 1, 0, 120, 1, 0)),                                                                     // young co-holder
		op(1, withData(hapi.Cmd{Type: 2, Key: 11, Id: 1}, v2)),                                               // ... whose unlock writes the value
		op(1, withData(withEF(hapi.Cmd{Type: 1, Key: 11, Id: 3, Count: 1}, fMilli), v2)),                     // zero-expiry value operation with the millisecond flag
		op(0, withEF(L(0, 12, 1, 0, 1, 0, 0), fUnlim|fMilli|efZeroAof)),                                      // unlimited + millisecond flags
		op(0, withEF(L(0, 13, 1, 0, 60000, 0, 0), fMilli)),                                                   // millisecond hold persisted after the default delay
		op(0, L(0, 17, 1, 0, 30, 0, 0)),                                                                      // default delay ...
		op(0, hapi.Cmd{Type: 1, Key: 17, Id: 1, Flag: 0x02, Expried: 0xffff, ExpriedFlag: fUnlim, Count: 1}), // ... updated with "keep the deadline" before its first record is written
		tick(1 * sec), tick(4 * sec),
	}})
	// a value that outlives the hold that wrote it: the next holder comes out of the wait queue (or joins a counting
	// key) and never writes the value itself
	specs = append(specs, &SeqSpec{Name: "restart-inherited-value", Cfg: rcfg, Depth: d, Restart: true, MaxStates: 300000, Alphabet: []SeqOp{
		op(0, withData(z(L(0, 16, 1, 0, 120, 1, 0)), v1)),
		op(1, z(L(0, 16, 2, 5, 120, 0, 0))), // exclusive: waits for id 1 to leave
		op(1, z(L(0, 16, 3, 0, 120, 1, 0))), // shares the key with id 1
		op(0, U(0, 16, 1)),
		op(0, withData(hapi.Cmd{Type: 2, Key: 16, Id: 1}, v2)),
		tick(1 * sec),
	}})
	// a hold entered with a short period and re-entered / updated with a longer one: when the restart comes the FIRST
	// record's own period is over, the later records' is not; also next to a co-holder of the counting key
	specs = append(specs, &SeqSpec{Name: "restart-first-record-lapsed", Cfg: rcfg, Depth: 5, Restart: true, MaxStates: 300000, Alphabet: []SeqOp{
		op(0, z(L(0, 17, 1, 0, 3, 2, 5))),
		op(0, z(L(0, 17, 1, 0, 30, 2, 5))),
		op(0, withF(z(L(0, 17, 1, 0, 60, 0, 5)), 0x02)),
		op(1, z(L(0, 17, 2, 0, 60, 2, 0))),
		op(0, hapi.Cmd{Type: 2, Key: 17, Id: 1, Rcount: 1}),
		tick(2500 * ms),
	}})
	// a configured persistence delay of 4 s (records written late carry the time that is LEFT) and of 50 s (longer than
	// the 44 s a hold spends in the short expiry wheel before it moves to the long table)
	late := rcfg
	late.AofTime = 4
	specs = append(specs, &SeqSpec{Name: "restart-persistence-delay-4s", Cfg: late, Depth: d, Restart: true, MaxStates: 300000, Alphabet: []SeqOp{
		op(0, withEF(L(0, 13, 1, 0, 60000, 0, 0), fMilli)),
		op(0, L(0, 14, 1, 0, 60, 0, 1)),
		op(0, withEF(L(0, 15, 1, 0, 2, 0, 0), fMinute)),
		tick(1 * sec), tick(4 * sec), tick(6 * sec),
	}})
	later := rcfg
	later.AofTime = 50
	specs = append(specs, &SeqSpec{Name: "restart-persistence-delay-50s", Cfg: later, Depth: 3, Restart: true, MaxStates: 300000, Alphabet: []SeqOp{
		op(0, L(0, 14, 1, 0, 300, 0, 1)),
		op(0, withEF(L(0, 15, 1, 0, 10, 0, 0), fMinute)),
		tick(30 * sec), tick(25 * sec),
	}})
	// two restarts: whatever the first restart restores is released in the second incarnation and must stay released
	specs = append(specs, &SeqSpec{Name: "restart-twice-buf64", Cfg: hapi.Config{FastKeys: 2, Concurrent: 2, FileBuf: 64, RewriteSz: 1 << 20, PreDBs: 2}, Alphabet: c07Alphabet(quick), Depth: d - 1, Restart: true, Restart2: true, MaxStates: 300000})
	return specs
}

func init() {
	seqCheck("C07", "model_checking", func(q bool) *SeqPlan {
		return &SeqPlan{Specs: c07Specs(q), Oracles: []SeqOracle{OracleC07}}
	}, "explicit-state breadth-first search over operation histories on a leader with a real append-only log (in-memory file system); at the end of EVERY history (= at every quiescent prefix) the persistence queue is drained, the node is killed and a fresh node is started on the same directory; the recovered holds are compared with the holds outstanding before the stop: persisted ones (persist-immediately flag, or older than the configured delay) restored with the same key/LockId/depth/Count/Rcount/value and a deadline within one unit + 1 s, never-persist ones absent, nothing else restored",
		[]string{"kill of the node after the queue has drained (stricter than a graceful stop)", "in-memory file system: a completed write is durable", "aof buffer sizes 64/128/4096 bytes; rotation threshold of 3 records so that histories spread over several append files plus a rewrite file",
			"holds younger than the persistence delay and percent-timed holds may or may not be restored (the statement leaves it open)"})
}
