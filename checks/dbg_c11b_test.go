package checks

import (
	"fmt"
	"os"
	"testing"

	"verif/hapi"
	"verif/vrt"
)

// TestDbgC11b: debugging aid for require-ack re-lock / update. DBGC11B=<missing acks> go test -run TestDbgC11b ./checks/
func TestDbgC11b(t *testing.T) {
	if os.Getenv("DBGC11B") == "" {
		t.Skip()
	}
	var miss int
	fmt.Sscan(os.Getenv("DBGC11B"), &miss)
	vars := []string{"relock", "update", "update-unlock", "zero-expiry"}
	if os.Getenv("DBGC11V") != "" {
		vars = []string{os.Getenv("DBGC11V")}
	}
	for _, variant := range vars {
		if variant == "queued-behind-unacked" || variant == "update-after-unacked" {
			vrt.Run(vrt.Options{MaxPoints: 100_000_000}, func() {
				node := hapi.Factories["n0"](hapi.Config{FastKeys: 1, Concurrent: 1, PreDBs: 1, MissingAcks: 1})
				_ = node.StartEngine()
				a, b := node.NewMemClient("a"), node.NewMemClient("b")
				vrt.AdvanceTo(1500 * ms)
				do := func(c hapi.Client, cmd hapi.Cmd) { c.Do(cmd.Build()); vrt.Quiesce() }
				show := func(tag string) {
					fmt.Printf("%s t=%d %s: %s\n   events %s\n", variant, vrt.Elapsed()/ms, tag, node.Snapshot().Canon(), evStr(node.Events()))
					node.ClearEvents()
				}
				if variant == "queued-behind-unacked" {
					do(a, withTF(L(1, 1, 1, 2, 30, 0, 2), tfAck))
					do(b, withTF(L(2, 1, 2, 5, 30, 1, 0), tfAck))
				} else {
					do(b, withTF(L(1, 1, 2, 2, 30, 1, 0), tfAck))
					do(a, withF(withTF(L(2, 1, 1, 2, 40, 0, 2), tfAck), 0x02))
				}
				show("sent")
				for i := 0; i < 8; i++ {
					vrt.AdvanceTo(vrt.Elapsed() + 1*sec)
					show("tick")
				}
				do(a, U(200, 1, 1))
				do(b, U(201, 1, 2))
				show("unlock all")
				vrt.AdvanceTo(vrt.Elapsed() + 70*sec)
				show("drained")
			})
			continue
		}
		vrt.Run(vrt.Options{MaxPoints: 100_000_000}, func() {
			node := hapi.Factories["n0"](hapi.Config{FastKeys: 1, Concurrent: 1, PreDBs: 1})
			_ = node.StartEngine()
			a := node.NewMemClient("a")
			vrt.AdvanceTo(1500 * ms)
			do := func(c hapi.Client, cmd hapi.Cmd) { c.Do(cmd.Build()); vrt.Quiesce() }
			show := func(tag string) {
				fmt.Printf("%s t=%d %s: %s\n   events %s\n", variant, vrt.Elapsed()/ms, tag, node.Snapshot().Canon(), evStr(node.Events()))
				node.ClearEvents()
			}
			do(a, withTF(L(1, 1, 1, 0, 30, 0, 2), tfAck))
			show("first lock")
			if miss > 0 {
				node.Poke("missingacks", miss)
			}
			switch variant {
			case "relock":
				do(a, withTF(L(2, 1, 1, 0, 30, 0, 2), tfAck))
				show("re-lock")
			case "update":
				do(a, withF(withTF(L(2, 1, 1, 2, 40, 0, 2), tfAck), 0x02))
				show("update")
			case "update-unlock":
				a.Do(withF(withTF(L(2, 1, 1, 2, 40, 0, 2), tfAck), 0x02).Build())
				a.Do(U(3, 1, 1).Build())
				vrt.Quiesce()
				show("update + unlock")
			case "zero-expiry":
				do(a, withTF(L(2, 2, 5, 0, 0, 0, 0), tfAck))
				show("zero expiry on another key")
			}
			do(a, U(4, 1, 1))
			show("unlock")
			vrt.AdvanceTo(vrt.Elapsed() + 5*sec)
			do(a, L(5, 1, 7, 0, 5, 0, 0))
			show("5 s later, another lock")
		})
	}
}
