package checks

import (
	"encoding/json"
	"fmt"
	"os"
	"sort"

	"verif/explore"
	"verif/vrt"
)

// SchedPlan is a set of concurrent engine scenarios explored by deviation-bounded schedule DFS.
type SchedPlan struct {
	Specs    []*EngSpec
	Monitors []MonitorFactory
	Oracles  []Oracle
	Bound    func(s *EngSpec, quick bool) int
	MaxExec  func(s *EngSpec, quick bool) int64 // per worker cap (0 = none)
}

func (p *SchedPlan) find(name string) *EngSpec {
	for _, s := range p.Specs {
		if s.Name == name {
			return s
		}
	}
	return nil
}

// Worker runs one shard of one scenario and prints its Stats as JSON.
func (p *SchedPlan) Worker(c *Ctx) int {
	spec := p.find(c.Scen)
	if spec == nil {
		return EngineError("unknown scenario %q", c.Scen)
	}
	sc := EngineScenario(spec, p.Monitors, p.Oracles, c)
	d := &explore.DFS{Sc: sc, Bound: p.Bound(spec, c.Quick()), Worker: c.Worker, NWorkers: c.NWorker, SplitDepth: 1}
	if p.MaxExec != nil {
		d.MaxExec = p.MaxExec(spec, c.Quick())
	}
	if d.Bound >= 2 {
		d.SplitDepth = 2
	}
	st := d.Run()
	b, _ := json.Marshal(st)
	os.Stdout.Write(b)
	return 0
}

type SchedResult struct {
	Total      *explore.Stats
	PerScen    map[string]*explore.Stats
	Violations int
	EngineErr  string
}

// Master explores every scenario with c.NProc workers, confirms violations by replay and reports.
func (p *SchedPlan) Master(c *Ctx) *SchedResult {
	res := &SchedResult{Total: explore.NewStats(), PerScen: map[string]*explore.Stats{}}
	for _, spec := range p.Specs {
		sc := EngineScenario(spec, p.Monitors, p.Oracles, c)
		// determinism gate: the default schedule twice
		x1 := explore.RunPrefix(sc, vrt.Options{}, nil)
		x2 := explore.RunPrefix(sc, vrt.Options{}, nil)
		if x1.Out.EngineErr != "" {
			res.EngineErr = fmt.Sprintf("scenario %s: %s", spec.Name, x1.Out.EngineErr)
			return res
		}
		if x1.Out.Trace != x2.Out.Trace || len(x1.Choices) != len(x2.Choices) {
			res.EngineErr = fmt.Sprintf("scenario %s: two default executions differ (nondeterminism not owned by the runtime)\n%s\n%s", spec.Name, x1.Out.Trace, x2.Out.Trace)
			return res
		}
		st, err := c.RunWorkers(spec.Name, c.NProc)
		if err != nil {
			res.EngineErr = err.Error()
			return res
		}
		if len(st.EngineErrs) > 0 {
			res.EngineErr = fmt.Sprintf("scenario %s: %v", spec.Name, st.EngineErrs)
			return res
		}
		res.PerScen[spec.Name] = st
		res.Total.Merge(st)
		fmt.Printf("  scenario %-28s bound=%d executions=%d distinct-traces=%d choice-points<=%d cut-by-known=%d violations=%d%s\n", spec.Name, p.Bound(spec, c.Quick()), st.Executions, len(st.Traces), st.MaxChoices, st.CutByKnown, len(st.Violations), capNote(st))
		// confirm and report
		sort.Slice(st.Violations, func(i, j int) bool { return len(st.Violations[i].Prefix) < len(st.Violations[j].Prefix) })
		reported := map[string]bool{}
		for _, f := range st.Violations {
			sig := ""
			for _, m := range f.Msgs {
				sig += m.Sig + ";"
			}
			if reported[sig] {
				continue
			}
			ok, why := Confirm(sc, vrt.Options{}, f)
			if !ok {
				res.EngineErr = fmt.Sprintf("scenario %s: violation not reproducible: %s (choices %v)", spec.Name, why, f.Prefix)
				return res
			}
			reported[sig] = true
			res.Violations++
			c.ReportViolation(Replay{Scenario: spec.Name, Choices: f.Prefix, Findings: f.Msgs, Trace: f.Trace})
		}
	}
	c.ReportKnown(res.Total.KnownHits)
	return res
}

func capNote(st *explore.Stats) string {
	if st.CapHit {
		return " (execution cap hit: not exhaustive)"
	}
	return ""
}

// Coverage builds the evidence coverage map for an exploration-level check.
func (r *SchedResult) Coverage(rule string, plan *SchedPlan, quick bool) map[string]interface{} {
	nontrivial := 0
	for h := range r.Total.Traces {
		if r.Total.Nontrivial[h] {
			nontrivial++
		}
	}
	var samples []interface{}
	per := map[string]interface{}{}
	for _, s := range plan.Specs {
		st := r.PerScen[s.Name]
		if st == nil {
			continue
		}
		per[s.Name] = map[string]interface{}{"bound": plan.Bound(s, quick), "executions": st.Executions, "distinct_traces": len(st.Traces), "max_choice_points": st.MaxChoices, "cap_hit": st.CapHit, "points": st.Points, "cut_by_known_finding": st.CutByKnown}
		n := 0
		var hs []string
		for h := range st.TraceSample {
			hs = append(hs, h)
		}
		sort.Strings(hs)
		for _, h := range hs {
			if n >= 2 {
				break
			}
			samples = append(samples, map[string]interface{}{"scenario": s.Name, "threads": describeThreads(s), "observed": st.TraceSample[h]})
			n++
		}
	}
	return map[string]interface{}{
		"evaluations":          r.Total.Executions,
		"distinct_nontrivial":  nontrivial,
		"distinct_traces":      len(r.Total.Traces),
		"rule":                 rule,
		"samples":              samples,
		"scenarios":            per,
		"points_executed":      r.Total.Points,
		"exhaustive":           !r.Total.CapHit,
		"cut_by_known_finding": r.Total.CutByKnown,
	}
}

func describeThreads(s *EngSpec) []string {
	var out []string
	if len(s.Setup) > 0 {
		t := "setup:"
		for _, st := range s.Setup {
			if st.Cmd != nil {
				t += " " + st.Cmd.String() + ";"
			}
		}
		out = append(out, t)
	}
	for i, th := range s.Threads {
		t := clientName(i) + ":"
		for _, st := range th {
			if st.SleepUntil > 0 {
				t += fmt.Sprintf(" sleep-until %dms;", st.SleepUntil/ms)
			}
			if st.Cmd != nil {
				t += " " + st.Cmd.String() + ";"
			}
		}
		out = append(out, t)
	}
	return out
}

// ReplayFile re-executes a recorded schedule with a synchronisation trace.
func (p *SchedPlan) ReplayFile(c *Ctx, path string) int {
	b, err := os.ReadFile(path)
	if err != nil {
		return EngineError("%v", err)
	}
	var r Replay
	if err := json.Unmarshal(b, &r); err != nil {
		return EngineError("%v", err)
	}
	spec := p.find(r.Scenario)
	if spec == nil {
		return EngineError("unknown scenario %q", r.Scenario)
	}
	sc := EngineScenario(spec, p.Monitors, p.Oracles, c)
	x := explore.RunPrefix(sc, vrt.Options{TraceSync: true}, r.Choices)
	for _, l := range x.RT.SyncTrace {
		fmt.Println(l)
	}
	fmt.Println("threads:", describeThreads(spec))
	fmt.Println("choices:", x.Choices)
	fmt.Println("trace:", x.Out.Trace)
	if x.Out.EngineErr != "" {
		return EngineError("%s", x.Out.EngineErr)
	}
	for _, k := range x.Out.Known {
		fmt.Printf("KNOWN-FINDING: property=%s %s\n", c.ID, k)
	}
	if len(x.Out.Violations) > 0 {
		for _, f := range x.Out.Violations {
			fmt.Printf("  finding[%s]: %s\n", f.Sig, f.Msg)
		}
		fmt.Printf("VIOLATION property=%s replay=%s\n", c.ID, path)
		return 1
	}
	return 0
}
