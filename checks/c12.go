package checks

import (
	"fmt"
	"strings"

	"verif/explore"
	"verif/hapi"
	"verif/vrt"
	"verif/vrt/vnet"
	"verif/wire"
)

type c12Spec struct {
	Name      string
	NewerLog  int   // 0: equal logs; 1: n1 has records n2 lacks (its stream from the leader is held)
	AckedLock bool  // a lock acknowledged by a majority is taken before the leader dies
	RestartAt int64 // >0: member n1 is killed and restarted from its saved metadata this long after the leader's death
}

func parseArb(s string) (commit, prop int) {
	fmt.Sscanf(s, "commit=%d prop=%d", &commit, &prop)
	return
}

func c12Scenario(sp *c12Spec) explore.Scenario {
	return func(opt vrt.Options) (*vrt.RT, explore.Outcome) {
		var engErr string
		var vs []explore.Violation
		var trace []string
		var detail []string
		add := func(sig, msg string) {
			for _, v := range vs {
				if v.Sig == "C12:"+sig {
					return
				}
			}
			vs = append(vs, explore.Violation{Sig: "C12:" + sig, Msg: sp.Name + ": " + msg})
		}
		opt.MaxPoints = 300_000_000
		rt := vrt.Run(opt, func() {
			nodes := make([]hapi.Node, 3)
			cfgs := make([]hapi.Config, 3)
			for i := 0; i < 3; i++ {
				cfgs[i] = hapi.Config{Name: fmt.Sprintf("n%d", i), Port: uint(5658 + i), FastKeys: 4, Concurrent: 1, ReplSet: "rs", AckMode: 1}
				nodes[i] = hapi.Factories[cfgs[i].Name](cfgs[i])
				if err := nodes[i].Start(); err != nil {
					engErr = err.Error()
					return
				}
			}
			vrt.AdvanceTo(1300 * ms)
			c, _ := wire.Dial(nodeAddr(0))
			_ = c.Send(wire.Resp("replset", "config", nodeAddr(0), "weight", "1", "arbiter", "0"))
			vrt.AdvanceTo(vrt.Elapsed() + 3*sec)
			_ = c.Send(wire.Resp("replset", "add", nodeAddr(1), "weight", "1", "arbiter", "0"))
			_ = c.Send(wire.Resp("replset", "add", nodeAddr(2), "weight", "1", "arbiter", "0"))
			vrt.AdvanceTo(vrt.Elapsed() + 8*sec)
			c.TakeText()
			for i := 1; i < 3; i++ {
				if nodes[i].StateName() != "follower" {
					engErr = fmt.Sprintf("bootstrap: n%d is %s: %v", i, nodes[i].StateName(), nodes[i].Poke("arbiter"))
					return
				}
			}
			bc, _ := wire.Dial(nodeAddr(0))
			_ = bc.Send(make64(5))
			bc.TakeBin()
			if sp.NewerLog == 1 {
				// n2 stops receiving the leader's stream; n1 keeps up
				for _, l := range vnet.Links() {
					if l.DialGroup == "n2" && l.ListenAddr == nodeAddr(0) {
						l.BtoA.Hold = true
					}
				}
			}
			_ = bc.Send(wire.BinFrame(withEF(hapi.Cmd{Type: 1, Req: 1, Key: 1, Id: 1, Expried: 600}, efZeroAof)))
			if sp.AckedLock {
				_ = bc.Send(wire.BinFrame(withEF(hapi.Cmd{Type: 1, Req: 2, Key: 2, Id: 2, Timeout: 5, TimeoutFlag: tfAck, Expried: 600}, efZeroAof)))
			}
			vrt.AdvanceTo(vrt.Elapsed() + 500*ms)
			acked := false
			for _, r := range bc.TakeBin() {
				if r.Req[0] == 2 && r.Result == 0 {
					acked = true
				}
			}
			if sp.AckedLock && !acked {
				engErr = "the ack-required lock was not acknowledged before the leader's death"
				return
			}
			// ---- the leader dies; candidacies, votes, proposals and commits are explored
			lastC, lastP := map[int]int{}, map[int]int{}
			for i := 1; i < 3; i++ {
				lastC[i], lastP[i] = parseArb(nodes[i].Poke("arbiter").(string))
			}
			check := func() {
				leaders := 0
				for i := 1; i < 3; i++ {
					if nodes[i] == nil {
						continue
					}
					cm, pr := parseArb(nodes[i].Poke("arbiter").(string))
					if cm < lastC[i] {
						add("commit-number-decreased", fmt.Sprintf("member n%d: committed number went from %d to %d", i, lastC[i], cm))
					}
					if pr < lastP[i] {
						add("proposal-number-decreased", fmt.Sprintf("member n%d: accepted proposal number went from %d to %d", i, lastP[i], pr))
					}
					lastC[i], lastP[i] = cm, pr
					if nodes[i].StateName() == "leader" {
						leaders++
					}
				}
				if leaders > 1 {
					add("two-leaders", "two surviving members are leader at the same instant")
				}
			}
			t0 := vrt.Elapsed()
			vrt.KillGroup("n0")
			vnetRelease()
			vrt.SetExplore(true)
			stop := false
			restarted := false
			vrt.GoN("sampler", func() {
				for !stop {
					vrt.Sleep(20 * ms)
					check()
					if sp.RestartAt > 0 && !restarted && vrt.Elapsed()-t0 >= sp.RestartAt {
						restarted = true
						before := nodes[1].Poke("arbiter").(string)
						vrt.KillGroup("n1")
						n := hapi.Factories["n1"](cfgs[1])
						if err := n.Start(); err != nil {
							add("restart-failed", "member n1 could not be restarted from its saved metadata: "+err.Error())
							nodes[1] = nil
							continue
						}
						nodes[1] = n
						cm, pr := parseArb(n.Poke("arbiter").(string))
						bc, bp := parseArb(before)
						if cm < bc || pr < bp {
							add("numbers-regress-across-restart", fmt.Sprintf("member n1 had %s before the restart and commit=%d prop=%d after loading its saved metadata", before, cm, pr))
						}
						lastC[1], lastP[1] = cm, pr
					}
				}
			})
			vrt.Sleep(3 * sec)
			stop = true
			vrt.Quiesce()
			vrt.SetExplore(false)
			vrt.AdvanceTo(vrt.Elapsed() + 12*sec)
			check()
			// ---- outcome
			var leader = -1
			for i := 1; i < 3; i++ {
				if nodes[i] != nil && nodes[i].StateName() == "leader" {
					leader = i
				}
				if nodes[i] != nil {
					cm, pr := parseArb(nodes[i].Poke("arbiter").(string))
					trace = append(trace, fmt.Sprintf("n%d=%s(commit %d, accepted %d)", i, nodes[i].StateName(), cm, pr))
					detail = append(detail, fmt.Sprintf("n%d: %v", i, nodes[i].Poke("arbiter")))
				}
			}
			if leader < 0 {
				// Liveness is not part of the property (it bounds the number of winners from above): an election
				// that has not produced a leader 15 s after the leader's death is recorded in the trace only.
				// (Known to happen on the unchanged tree: a candidate that promised a higher number to the other
				// survivor refuses its own commit after that survivor accepted it and stopped to wait for the
				// announcement.)
				trace = append(trace, "no-leader-after-15s")
				_ = detail
				return
			}
			if sp.NewerLog == 1 && leader != 1 {
				add("stale-member-elected", fmt.Sprintf("n1 held log records n2 had not received, yet n%d was elected", leader))
			}
			snap := nodes[leader].Snapshot()
			if ks := snap.Key(0, ckey(1)); sp.NewerLog != 1 && (ks == nil || len(ks.Holds) != 1) {
				add("hold-lost", "the persisted hold on key 1 is not held by the new leader")
			}
			if sp.AckedLock {
				if ks := snap.Key(0, ckey(2)); ks == nil || len(ks.Holds) != 1 {
					add("acked-lock-lost", fmt.Sprintf("the lock acknowledged by a majority before the leader's death is not held by the new leader n%d: %s", leader, snap.UserString()))
				}
			}
			trace = append(trace, "holds:"+strip(snap.UserString()))
		})
		out := explore.Outcome{Trace: strings.Join(trace, " "), Nontrivial: true}
		if engErr != "" {
			out.EngineErr = engErr
			return rt, out
		}
		if rt.Diverged {
			out.EngineErr = "point budget exceeded"
			return rt, out
		}
		if rt.Crash != nil {
			vs = append(vs, explore.Violation{Sig: "C12:crash", Msg: rt.Crash.Value + "\n" + firstLines(rt.Crash.Stack, 16)})
		}
		if rt.Deadlock != "" {
			vs = append(vs, explore.Violation{Sig: "C12:deadlock", Msg: rt.Deadlock})
		}
		out.Violations = vs
		return rt, out
	}
}

// vnetRelease: bytes that were held back when the leader died never arrive.
func vnetRelease() {
	for _, l := range vnet.Links() {
		if l.BtoA.Hold {
			l.BtoA.Drop()
		}
		if l.AtoB.Hold {
			l.AtoB.Drop()
		}
		l.BtoA.Hold = false
		l.AtoB.Hold = false
	}
}

func c12Plan(quick bool) *FuncPlan {
	specs := []*c12Spec{
		{Name: "leader-dies-equal-logs"},
		{Name: "leader-dies-n1-newer-log-acked-lock", NewerLog: 1, AckedLock: true},
	}
	if !quick {
		specs = append(specs, &c12Spec{Name: "leader-dies-acked-lock", AckedLock: true})
	}
	for _, at := range []int64{100 * ms, 300 * ms, 600 * ms, 1000 * ms} {
		if quick && at != 300*ms {
			continue
		}
		specs = append(specs, &c12Spec{Name: fmt.Sprintf("member-restart-%dms", at/ms), RestartAt: at})
	}
	var scens []*FuncScenario
	for _, sp := range specs {
		sp := sp
		scens = append(scens, &FuncScenario{Name: sp.Name, Sc: c12Scenario(sp), Desc: []string{"3 data members (real node copies) bootstrapped with the replset admin commands; the leader's process is killed; the survivors run the real vote / proposal / commit rounds over the in-memory network"},
			Bound: func(q bool) int {
				if q {
					return 1
				}
				return 2
			}})
	}
	return &FuncPlan{Scens: scens, MaxExec: func(q bool) int64 {
		if q {
			return 60
		}
		return 5000
	}}
}

func init() {
	Registry["C12"] = func(c *Ctx) int {
		p := c12Plan(c.Quick())
		if c.Worker >= 0 {
			if strings.HasPrefix(c.Scen, "votes/") {
				return c12VoteWorker(c)
			}
			return p.Worker(c)
		}
		if len(c.Args) == 2 && c.Args[0] == "--replay" {
			return p.ReplayFile(c, c.Args[1])
		}
		votesOnly := len(c.Args) == 1 && c.Args[0] == "--votes-only" // development aid: skip the full-node part
		if votesOnly {
			p.Scens = nil
		}
		res := p.Master(c)
		if res.EngineErr != "" {
			return EngineError("%s", res.EngineErr)
		}
		maxStates := 60000
		if !c.Quick() {
			maxStates = 2000000
		}
		votes := map[string]interface{}{}
		knownHits := map[string]int{}
		vStates, vTrans, vViol, vCapped := 0, 0, 0, false
		for _, sp := range c12VoteSpecs(c.Quick()) {
			st, e := c12VoteMaster(c, sp, maxStates)
			if e != "" {
				return EngineError("%s", e)
			}
			for k, n := range st.Known {
				knownHits[k] += n
			}
			vStates += st.States
			vTrans += st.Transitions
			vViol += st.Violations
			vCapped = vCapped || st.Capped
			var w []string
			for k := range st.Winners {
				w = append(w, k)
			}
			votes[sp.Name] = map[string]interface{}{"members": sp.Members, "candidates": sp.Candidates, "links_down": sp.Down, "rounds": sp.Rounds, "max_lost_messages": sp.MaxLoss,
				"states": st.States, "transitions": st.Transitions, "new_states_per_depth": st.PerDepth, "distinct_winning_candidacies": len(w), "state_cap_hit": st.Capped, "sample_complete_histories": st.Sample}
			fmt.Printf("  votes %-36s states=%d transitions=%d depth=%d winners=%d violations=%d%s\n", sp.Name, st.States, st.Transitions, len(st.PerDepth), len(w), st.Violations, map[bool]string{true: " (state cap hit)", false: ""}[st.Capped]+" "+fmt.Sprint(w))
		}
		res.Violations += vViol
		c.ReportKnown(knownHits)
		cov := p.Coverage(res, "deviation-bounded DFS over the delivery order of vote / proposal / commit / announcement traffic (every network read, write, accept and every blocking is a choice point; handlers atomic) between two surviving members of a 3-member replica set after the leader's process was killed, with an optional kill-and-restart of one member from its saved metadata; a sampler evaluates every 20 virtual ms: accepted and committed numbers never decrease per member (also across the restart), never two leaders at once; at the end: a leader exists, it is the member with the newest log, persisted and majority-acknowledged holds are held by it; non-trivial = every execution (two candidates compete)", c.Quick())
		cov["message_level_search"] = votes
		cov["states"] = vStates
		cov["transitions"] = vTrans
		cov["traces_validated_against_impl"] = vTrans
		if vCapped {
			cov["exhaustive"] = false
		}
		c.WriteEvidence("exploration", cov, []string{"message-level search: explicit-state BFS over fate and order of every vote / proposal / commit request of 2-3 simultaneous candidates on real ArbiterManager objects (3-5 members incl. weight-0 members and arbiters, log positions across the wrap-around, permanently down links, bounded number of lost requests / replies); a candidate's own acceptance happens when its phase starts; non-candidate members may be restarted from their saved metadata between events (real ArbiterStore.Save/Load)",
			"full-node scenarios: 3 members, 2 concurrent candidates", "coarse scheduling: message handlers are atomic", "message loss is not injected beyond the dead leader's connections; kill -9 of real OS processes is replaced by in-process group kill"}, res.Violations)
		fmt.Printf("C12 %s: %d executions, %d distinct traces; message-level search: %d states, %d transitions; %d violations\n", c.Tier, res.Total.Executions, len(res.Total.Traces), vStates, vTrans, res.Violations)
		if res.Violations > 0 {
			return 1
		}
		return 0
	}
}
