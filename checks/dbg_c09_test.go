package checks

import (
	"fmt"
	"os"
	"testing"
	_ "verif/gen/n1/server"
)

func TestDbgC09(t *testing.T) {
	if os.Getenv("DBGC09") == "" {
		t.Skip()
	}
	for _, w := range c09Workloads(true) {
		if w.Name != os.Getenv("DBGC09") {
			continue
		}
		o := runRepl(&w, -1, -1)
		fmt.Printf("err=%q bytes=%d links=%d\nleader  : %.600s\nfollower: %.600s\n", o.Err, o.StreamBytes, o.Links, o.Leader, o.Follower)
	}
}
