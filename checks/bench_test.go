package checks

import (
	"os"
	"runtime/pprof"
	"testing"
	"time"

	"verif/explore"
	_ "verif/gen/n0/server"
	"verif/vrt"
)

func TestBenchExec(t *testing.T) {
	specs := coreSchedSpecs(true)
	sc := EngineScenario(specs[0], []MonitorFactory{MonitorC01}, []Oracle{OracleC01Quiescent}, nil)
	f, _ := os.Create("/tmp/cpu.prof")
	pprof.StartCPUProfile(f)
	start := time.Now()
	n := 1000
	var pts int64
	for i := 0; i < n; i++ {
		x := explore.RunPrefix(sc, vrt.Options{}, nil)
		pts += x.RT.Points
	}
	pprof.StopCPUProfile()
	t.Log("per exec", time.Since(start)/time.Duration(n), "points", pts/int64(n))
}
