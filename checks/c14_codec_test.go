package checks

import (
	"fmt"
	"os"
	"testing"
	"time"
)

func c14Report(t *testing.T, quick bool) {
	t0 := time.Now()
	var gs []C14Group
	for _, f := range []func(bool) C14Group{c14EncodeDecode, c14ReadmeOffsets, c14DecodeEncode, c14TextChunking, c14ResultText} {
		t1 := time.Now()
		g := f(quick)
		fmt.Printf("  group %s took %v\n", g.Name, time.Since(t1))
		gs = append(gs, g)
	}
	fmt.Printf("C14 codec quick=%v took %v\n", quick, time.Since(t0))
	for _, g := range gs {
		fmt.Printf("== %s: evaluations=%d distinct=%d violations=%d\n", g.Name, g.Evaluations, g.Distinct, len(g.Violations))
		for _, v := range g.Violations {
			fmt.Printf("   VIOLATION %s: %s\n", v.Sig, v.Msg)
		}
		for _, s := range g.Samples {
			if len(s) > 1500 {
				s = s[:1500] + "..."
			}
			fmt.Printf("   sample: %s\n", s)
		}
	}
}

func TestC14Quick(t *testing.T) { c14Report(t, true) }

func TestC14Thorough(t *testing.T) {
	if os.Getenv("C14_THOROUGH") == "" {
		t.Skip("set C14_THOROUGH=1")
	}
	c14Report(t, false)
}
