package checks

import (
	"bufio"
	"encoding/json"
	"fmt"
	"io"
	"os"
	"os/exec"
	"sync"
)

// Pool is a set of persistent worker processes (this binary with --worker) that map JSON tasks to JSON
// results, one line each. The runtime is a per-process singleton, so parallelism is by process.
type Pool struct {
	c     *Ctx
	scen  string
	procs []*poolProc
	tasks chan poolTask
	wg    sync.WaitGroup
	err   error
	mu    sync.Mutex
}

type poolProc struct {
	cmd *exec.Cmd
	in  io.WriteCloser
	out *bufio.Reader
}

type poolTask struct {
	idx int
	in  []byte
	out *[][]byte
	wg  *sync.WaitGroup
}

func (c *Ctx) NewPool(scen string, n int) (*Pool, error) {
	self, err := os.Executable()
	if err != nil {
		return nil, err
	}
	p := &Pool{c: c, scen: scen, tasks: make(chan poolTask, 1024)}
	for k := 0; k < n; k++ {
		cmd := exec.Command(self, append([]string{c.ID, "--tier", c.Tier, "--worker", fmt.Sprintf("%d/%d", k, n), "--scenario", scen}, c.Args...)...)
		cmd.Env = append(os.Environ(), "GOMAXPROCS=1", "GOGC=400")
		cmd.Stderr = os.Stderr
		in, _ := cmd.StdinPipe()
		out, _ := cmd.StdoutPipe()
		if err := cmd.Start(); err != nil {
			return nil, err
		}
		pp := &poolProc{cmd: cmd, in: in, out: bufio.NewReaderSize(out, 1<<20)}
		p.procs = append(p.procs, pp)
		p.wg.Add(1)
		go func() {
			defer p.wg.Done()
			for t := range p.tasks {
				if _, err := pp.in.Write(append(t.in, '\n')); err != nil {
					p.fail(err)
					t.wg.Done()
					continue
				}
				line, err := pp.out.ReadBytes('\n')
				if err != nil {
					p.fail(fmt.Errorf("worker died: %v", err))
					t.wg.Done()
					continue
				}
				(*t.out)[t.idx] = line
				t.wg.Done()
			}
			pp.in.Close()
			pp.cmd.Wait()
		}()
	}
	return p, nil
}

func (p *Pool) fail(err error) {
	p.mu.Lock()
	if p.err == nil {
		p.err = err
	}
	p.mu.Unlock()
}

// Map runs every input through a worker and returns the outputs in order.
func (p *Pool) Map(inputs [][]byte) ([][]byte, error) {
	out := make([][]byte, len(inputs))
	var wg sync.WaitGroup
	wg.Add(len(inputs))
	for i, in := range inputs {
		p.tasks <- poolTask{idx: i, in: in, out: &out, wg: &wg}
	}
	wg.Wait()
	p.mu.Lock()
	defer p.mu.Unlock()
	if p.err != nil {
		return nil, p.err
	}
	return out, nil
}

func (p *Pool) Close() {
	close(p.tasks)
	p.wg.Wait()
}

// ServeWorker is the worker side: f maps one task line to one result (marshalled as one JSON line).
func ServeWorker(f func(task []byte) interface{}) int {
	in := bufio.NewReaderSize(os.Stdin, 1<<20)
	out := bufio.NewWriter(os.Stdout)
	for {
		line, err := in.ReadBytes('\n')
		if len(line) > 0 {
			res := f(line)
			b, merr := json.Marshal(res)
			if merr != nil {
				fmt.Fprintln(os.Stderr, "worker marshal:", merr)
				return 3
			}
			out.Write(b)
			out.WriteByte('\n')
			out.Flush()
		}
		if err != nil {
			return 0
		}
	}
}
