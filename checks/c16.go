package checks

import (
	"encoding/json"
	"fmt"
	"regexp"
	"strings"

	"github.com/snower/slock/protocol"
	"verif/explore"
	"verif/hapi"
	"verif/vrt/vos"
)

func c16Cfg() hapi.Config {
	return hapi.Config{FastKeys: 4, Concurrent: 1, FileBuf: 64, RewriteSz: 12 + 64*3}
}

func c16Histories(quick bool) [][]SeqOp {
	z := func(c hapi.Cmd) hapi.Cmd { return withEF(c, efZeroAof) }
	set := protocol.NewLockCommandDataSetString("val").Data
	mk := func(n int, withUnlocks, withVals bool) []SeqOp {
		var h []SeqOp
		for i := 1; i <= n; i++ {
			c := z(L(0, byte(i), byte(i), 0, 90, 0, 1))
			if withVals && i%3 == 0 {
				c = withData(c, set)
			}
			h = append(h, op(0, c))
			if withUnlocks && i%3 == 2 {
				h = append(h, op(0, U(0, byte(i-1), byte(i-1))))
			}
			if i%4 == 0 {
				h = append(h, op(0, z(L(0, byte(i), byte(i), 0, 90, 0, 1)))) // re-entrant: depth 2
			}
		}
		return h
	}
	// holds renewed with the update flag, records several seconds old when the compaction starts
	upd := func(n int) []SeqOp {
		h := []SeqOp{
			op(0, z(L(0, 30, 30, 0, 90, 0, 1))),
			op(0, withF(z(L(0, 30, 30, 0, 120, 0, 1)), 0x02)),                       // update of an existing hold
			op(0, withF(withEF(L(0, 31, 31, 0, 3, 0, 0), efZeroAof|fMinute), 0x02)), // update flag on a fresh key, minute lease
			tick(3 * sec),
		}
		return append(h, mk(n, true, false)...)
	}
	// order-sensitive histories that span a rewrite file and later append files: a depth-2 hold partially
	// released after it was compacted, and a multi-holder key whose value is set again by a later holder
	ord := func() []SeqOp {
		v1 := protocol.NewLockCommandDataSetString("v-one").Data
		v2 := protocol.NewLockCommandDataSetString("v-two").Data
		h := []SeqOp{
			op(0, z(L(0, 40, 40, 0, 90, 0, 1))), op(0, z(L(0, 40, 40, 0, 90, 0, 1))), // depth 2
			op(0, withData(z(L(0, 41, 1, 0, 90, 1, 0)), v1)),
		}
		h = append(h, mk(4, false, false)...) // rotations + first compactions
		h = append(h, op(0, hapi.Cmd{Type: 2, Key: 40, Id: 40, Rcount: 1}), op(0, withData(z(L(0, 41, 2, 0, 90, 1, 0)), v2)))
		for i := 50; i < 56; i++ {
			h = append(h, op(0, z(L(0, byte(i), byte(i), 0, 90, 0, 0))))
		}
		return h
	}
	// keys with two holders whose value was written by a holder that has left since (the value lives on with the
	// key, the records that carry it belong to a LockId that holds nothing any more)
	v1 := protocol.NewLockCommandDataSetString("v-one").Data
	v2 := protocol.NewLockCommandDataSetString("v-two").Data
	departed := append([]SeqOp{
		op(0, z(L(0, 42, 2, 0, 90, 1, 0))),               // B, no value
		op(0, withData(z(L(0, 42, 1, 0, 90, 1, 0)), v1)), // A sets the value
		op(0, U(0, 42, 1)),                               // A leaves: B holds, the value stays
	}, mk(5, false, false)...)
	unlockValue := append([]SeqOp{
		op(0, withData(z(L(0, 43, 1, 0, 90, 1, 0)), v1)),
		op(0, z(L(0, 43, 2, 0, 90, 1, 0))),
		op(0, withData(hapi.Cmd{Type: 2, Key: 43, Id: 1}, v2)), // A's UNLOCK carries the new value
	}, mk(5, false, false)...)
	// holds whose Rcount byte is a priority (timeout flag 0x10): renewed by an update, and taken with the update flag
	prio := append([]SeqOp{
		op(0, withTF(z(L(0, 44, 1, 0, 30, 0, 3)), 0x10)),
		tick(1 * sec),
		op(0, withF(withTF(z(L(0, 44, 1, 0, 600, 0, 3)), 0x10), 0x02)),
		op(0, withF(withTF(z(L(0, 45, 1, 0, 600, 0, 3)), 0x10), 0x02)),
	}, mk(5, false, false)...)
	// an unlimited hold taken with the update flag (Expried 0xffff) on a key whose value changes afterwards
	unlimited := append([]SeqOp{
		op(0, withData(withF(withEF(hapi.Cmd{Type: 1, Key: 46, Id: 1, Expried: 0xffff, Count: 1}, fUnlim|efZeroAof), 0x02), v1)),
		op(0, withData(z(L(0, 46, 2, 0, 600, 1, 0)), v2)),
	}, mk(5, false, false)...)
	hs := [][]SeqOp{mk(7, false, false), mk(8, true, false), mk(9, true, true), mk(12, true, true), upd(7), ord(), departed, unlockValue, prio, unlimited}
	if !quick {
		hs = append(hs, mk(5, true, false), mk(10, false, true), mk(14, true, true), mk(16, true, false),
			append(mk(6, true, false), tick(3*sec), op(0, z(L(0, 20, 20, 0, 2, 0, 0))), tick(4*sec), op(0, z(L(0, 21, 21, 0, 90, 0, 0))), op(0, z(L(0, 22, 22, 0, 90, 0, 0)))))
	}
	return hs
}

// departedValue: the two renderings differ only in the value of key 0x2a / 0x2b (histories "departed" and
// "unlockValue": the value was written by a holder that has left since)
var c16ValRe = regexp.MustCompile(`key2[ab] val[0-9a-f]*:`)

func departedValue(a, b string) bool {
	return a != b && c16ValRe.ReplaceAllString(a, "key2x val:") == c16ValRe.ReplaceAllString(b, "key2x val:")
}

// onlyKey2e: the two renderings differ only in the row of key 0x2e (history "unlimited")
func onlyKey2e(a, b string) bool {
	strip := func(s string) string {
		var keep []string
		for _, row := range strings.Split(strings.ReplaceAll(s, "\n", " / "), " / ") {
			if !strings.Contains(row, "key2e ") {
				keep = append(keep, row)
			}
		}
		return strings.Join(keep, " / ")
	}
	return a != b && strip(a) == strip(b)
}

func departedSecond(msg string) bool {
	items := strings.Split(strings.TrimRight(strings.TrimSpace(msg), "; "), "; ")
	for _, it := range items {
		if !(strings.Contains(it, "key2a carried value") || strings.Contains(it, "key2b carried value")) {
			return false
		}
	}
	return len(items) > 0
}

type c16Arg struct {
	Hist int `json:"h"`
}

func isCompactionPoint(p vos.FSPoint) bool {
	if strings.Contains(p.Path, "rewrite.aof") {
		return true
	}
	return p.Op == "remove"
}

func evalC16(c *Ctx, cs EnumCase) EnumResult {
	var a c16Arg
	if err := json.Unmarshal(cs.Arg, &a); err != nil {
		return EnumResult{Err: err.Error()}
	}
	cfg := c16Cfg()
	h := c16Histories(c.Quick())[a.Hist]
	cap := runCapture(cfg, h, true)
	if cap.Err != "" {
		return EnumResult{Err: cap.Err}
	}
	res := EnumResult{}
	var vs []explore.Violation
	distinct := map[string]bool{}
	refState, refIdx := "", -1
	runs := 0
	for i, p := range cap.PointAt {
		if !isCompactionPoint(p) {
			refIdx = -1
			continue
		}
		if refIdx < 0 {
			// first point of a compaction run: the reference is the image just before it
			if i == 0 {
				continue
			}
			r := recoverImage(cfg, cap.Points[i-1], cap.EndT, false)
			if r.StartErr != "" || r.Crash != "" {
				return EnumResult{Err: fmt.Sprintf("history %d: recovering the pre-compaction image failed: %s %s", a.Hist, r.StartErr, r.Crash)}
			}
			refState, refIdx = r.State, i-1
			runs++
		}
		// the directory is recovered, used a little, and recovered again: what the start-up compaction of the
		// first recovery makes of the leftovers must still be the same state
		r := recoverImage(cfg, cap.Points[i], cap.EndT, true)
		res.Sub++
		what := fmt.Sprintf("history %d, crash right after file-system call #%d of a compaction (%s %s)", a.Hist, p.N, p.Op, p.Path)
		if r.Crash == "" && r.StartErr == "" && r.Second != "" {
			sig := "C16:second-restart-differs"
			if departedSecond(r.Second) {
				sig += "/value-written-by-departed-holder"
			} else if a.Hist == 9 && strings.Contains(r.Second, "key2e") {
				sig += "/unlimited-hold-created-by-update-flag"
			}
			vs = append(vs, explore.Violation{Sig: sig, Msg: what + ": the first restart recovers the expected state, the restart after it does not: " + r.Second})
		}
		if r.Crash != "" {
			vs = append(vs, explore.Violation{Sig: "C16:recovery-crash", Msg: what + ": " + r.Crash})
			continue
		}
		if r.StartErr != "" {
			sig := "C16:start-failed"
			if p.Op == "rename" && strings.HasSuffix(p.Path, "rewrite.aof") {
				sig += "/between-the-two-renames"
			}
			vs = append(vs, explore.Violation{Sig: sig, Msg: what + ": the next start fails: " + r.StartErr})
			continue
		}
		distinct[fmt.Sprintf("%d|%s|%s", a.Hist, p.Op, r.State)] = true
		if r.State != refState {
			sig := "C16:interrupted-compaction-changes-state"
			switch {
			case p.Op == "remove":
				sig += "/inputs-removed-before-rename"
			case p.Op == "rename" && strings.HasSuffix(p.Path, "rewrite.aof"):
				sig += "/record-file-renamed-before-value-file"
			}
			if departedValue(r.State, refState) {
				sig = "C16:interrupted-compaction-changes-state/value-written-by-departed-holder"
			} else if a.Hist == 9 && onlyKey2e(r.State, refState) {
				sig = "C16:interrupted-compaction-changes-state/unlimited-hold-created-by-update-flag"
			}
			vs = append(vs, explore.Violation{Sig: sig, Msg: fmt.Sprintf("%s: recovers [%s], the directory before the compaction recovers [%s]", what, strings.ReplaceAll(r.State, "\n", " / "), strings.ReplaceAll(refState, "\n", " / "))})
		}
	}
	_ = refIdx
	if res.Sub == 0 {
		return EnumResult{Err: fmt.Sprintf("history %d never triggered a compaction", a.Hist)}
	}
	// completed compactions as a whole: the final directory recovers like the directory of the same history
	// written without any compaction (huge threshold)
	big := cfg
	big.RewriteSz = 1 << 20
	capBig := runCapture(big, h, false)
	rb := recoverImage(big, capBig.Final, cap.EndT, false)
	rf := recoverImage(cfg, cap.Final, cap.EndT, false)
	res.Sub += 1
	if rb.State != rf.State {
		sig := "C16:compaction-changes-state"
		if departedValue(rb.State, rf.State) {
			sig += "/value-written-by-departed-holder"
		} else if a.Hist == 9 && onlyKey2e(rb.State, rf.State) {
			sig += "/unlimited-hold-created-by-update-flag"
		}
		vs = append(vs, explore.Violation{Sig: sig, Msg: fmt.Sprintf("history %d: after %d completed compactions the directory recovers [%s]; the same history logged without compaction recovers [%s]", a.Hist, runs, strings.ReplaceAll(rf.State, "\n", " / "), strings.ReplaceAll(rb.State, "\n", " / "))})
	}
	// appends continuing while a compaction runs: at EVERY file-system call of every compaction of this history a
	// burst of further requests arrives and is logged (enough to rotate the append file again) before the call
	// returns; the final directory must recover like the same request sequence logged without compaction
	injected := 0
	if a.Hist == 1 || a.Hist == 5 {
		np := 0
		for _, p := range cap.PointAt {
			if isCompactionPoint(p) {
				np++
			}
		}
		var burst []SeqOp
		for i := 0; i < 4; i++ {
			burst = append(burst, op(1, withEF(L(0, byte(60+i), byte(60+i), 0, 90, 0, 0), efZeroAof)))
		}
		burst = append(burst, op(1, U(0, 60, 60)))
		for j := 0; j < np; j++ {
			inj := &captureInject{AtPoint: j, Burst: burst}
			ci := runCaptureInject(cfg, h, false, inj)
			if ci.Err != "" || inj.OpIndex < 0 {
				continue // the injection point cannot take further requests (or was not reached)
			}
			injected++
			res.Sub++
			h2 := append(append(append([]SeqOp{}, h[:inj.OpIndex+1]...), burst...), h[inj.OpIndex+1:]...)
			ref := runCapture(big, h2, false)
			ri := recoverImage(cfg, ci.Final, ci.EndT, false)
			rr := recoverImage(big, ref.Final, ci.EndT, false)
			distinct[fmt.Sprintf("inj|%d|%s", a.Hist, ri.State)] = true
			if ri.StartErr != "" || ri.Crash != "" {
				vs = append(vs, explore.Violation{Sig: "C16:start-failed-after-concurrent-appends", Msg: fmt.Sprintf("history %d, %d requests arriving during compaction file-system call #%d: the next start fails: %s %s", a.Hist, len(burst), j, ri.StartErr, ri.Crash)})
			} else if ri.State != rr.State {
				vs = append(vs, explore.Violation{Sig: "C16:appends-during-compaction-lost", Msg: fmt.Sprintf("history %d, %d requests arriving (and logged) while compaction file-system call #%d was being made: the directory recovers [%s]; the same request sequence logged without compaction recovers [%s]", a.Hist, len(burst), j, strings.ReplaceAll(ri.State, "\n", " / "), strings.ReplaceAll(rr.State, "\n", " / "))})
			}
		}
	}
	// a graceful shutdown that arrives while a compaction is running: at every file-system call of every compaction a
	// shutdown (SLock.Close) is started in another thread; once it has finished the directory must recover like the
	// prefix of the history executed so far logged without compaction
	shut := 0
	if a.Hist <= 2 {
		np := 0
		for _, p := range cap.PointAt {
			if isCompactionPoint(p) {
				np++
			}
		}
		for j := 0; j < np; j++ {
			inj := &captureInject{AtPoint: j, Shutdown: true}
			ci := runCaptureInject(cfg, h, false, inj)
			if inj.OpIndex < 0 {
				continue
			}
			res.Sub++
			shut++
			if ci.Err != "" {
				vs = append(vs, explore.Violation{Sig: "C16:shutdown-during-compaction-hangs", Msg: fmt.Sprintf("history %d, graceful shutdown started during compaction file-system call #%d: %s", a.Hist, j, ci.Err)})
				continue
			}
			ref := runCapture(big, h[:inj.OpIndex+1], false)
			ri := recoverImage(cfg, ci.Final, ci.EndT, false)
			rr := recoverImage(big, ref.Final, ci.EndT, false)
			if ri.StartErr != "" || ri.Crash != "" {
				vs = append(vs, explore.Violation{Sig: "C16:start-failed-after-shutdown-during-compaction", Msg: fmt.Sprintf("history %d, graceful shutdown started during compaction file-system call #%d: the next start fails: %s %s", a.Hist, j, ri.StartErr, ri.Crash)})
			} else if ri.State != rr.State {
				vs = append(vs, explore.Violation{Sig: "C16:shutdown-during-compaction-changes-state", Msg: fmt.Sprintf("history %d, graceful shutdown started while compaction file-system call #%d was being made: the directory recovers [%s]; the same requests logged without compaction recover [%s]", a.Hist, j, strings.ReplaceAll(ri.State, "\n", " / "), strings.ReplaceAll(rr.State, "\n", " / "))})
			}
		}
	}
	res.Viol = dedupe(vs)
	res.SubNT = len(distinct)
	res.Nontrivial = true
	res.Obs = fmt.Sprintf("%d compaction runs, %d crash images recovered, %d injection points with concurrent appends, final state [%s]", runs, res.Sub, injected, strings.ReplaceAll(rf.State, "\n", " / "))
	return res
}

func init() {
	enumCheck("C16", "fault_enumeration",
		func(q bool) []*EnumPlan {
			return []*EnumPlan{{Name: "compaction-crash", Eval: evalC16, Cases: func(quick bool) []EnumCase {
				var out []EnumCase
				for i := range c16Histories(quick) {
					out = append(out, mkCase(fmt.Sprintf("h%d", i), c16Arg{i}))
				}
				return out
			}}}
		}, nil,
		"workload histories on a leader whose rotation threshold is 3 records, so that they spread over 1-4 append files plus a rewrite file and compaction runs at every rotation; the directory image right after EVERY file-system mutation performed during a compaction (create/write of rewrite.aof.tmp, remove of every input, both renames) is recovered by a fresh node and compared with the recovery of the image just before that compaction began (differential oracle); in addition the final directory must recover like the same history logged without any compaction; distinct = distinct (history, call kind, recovered state)",
		[]string{"crash model: process stop, completed file-system calls durable", "compactions triggered at the size threshold and at start-up (each recovery runs the start-up compaction); concurrent appends during compaction are not explored in this check",
			"reference recoveries are produced by the implementation's own loader (differential)"})
}
