package checks

import (
	"fmt"
	"os"
	"testing"

	"verif/hapi"
	"verif/vrt"
)

// TestDbgC02: debugging aid. DBGC02=1 go test -run TestDbgC02 ./checks/
func TestDbgC02(t *testing.T) {
	if os.Getenv("DBGC02") == "" {
		t.Skip()
	}
	vrt.Run(vrt.Options{MaxPoints: 100_000_000}, func() {
		node := hapi.Factories["n0"](hapi.Config{FastKeys: 1, Concurrent: 1})
		_ = node.StartEngine()
		a := node.NewMemClient("a")
		vrt.AdvanceTo(1500 * ms)
		do := func(c hapi.Client, cmd hapi.Cmd) { c.Do(cmd.Build()); vrt.Quiesce() }
		show := func(tag string) {
			fmt.Printf("t=%d %s: %s\n   events %s\n", vrt.Elapsed()/ms, tag, node.Snapshot().Canon(), evStr(node.Events()))
			node.ClearEvents()
		}
		do(a, withEF(L(9, 2, 3, 0, 30, 0, 0), efZeroAof))
		fmt.Println(node.Poke("keytable"))
		do(a, L(8, 1, 1, 0, 10, 0, 0))
		show("setup")
		fmt.Println(node.Poke("keytable"))
		do(a, U(1, 2, 3))
		show("fast owner unlocked")
		do(a, U(2, 1, 1))
		show("slow unlocked")
	})
}
