package checks

import (
	"fmt"
	"strings"

	"github.com/snower/slock/protocol"
	"verif/explore"
	"verif/hapi"
	"verif/vrt"
	"verif/vrt/vos"
	"verif/wire"
)

// A follower whose own log cannot be written must not acknowledge positively, in whichever order its log thread
// and its replay thread come to the record. Leader + one follower (real node copies); from a chosen moment every
// write to the follower's data directory fails; an acknowledgement-required LOCK is sent to the leader; schedules
// of all threads of both nodes are explored (coarse mode: choice points are network operations and every
// blocking); SUCCED for the request is a violation (the only follower did not log the record).
func c11DiskScenario() explore.Scenario {
	return func(opt vrt.Options) (*vrt.RT, explore.Outcome) {
		var engErr, got string
		opt.MaxPoints = 200_000_000
		rt := vrt.Run(opt, func() {
			cl, err := StartLeaderFollowers(1, nil)
			if err != nil {
				engErr = err.Error()
				return
			}
			conn, _ := wire.Dial(cl.Addrs[0])
			_ = conn.Send(make64(protocol.COMMAND_PING))
			conn.TakeBin()
			vos.Cur().ShortWrite = func(p vos.FSPoint, n int) int {
				if strings.Contains(p.Path, "/n1/") {
					return 0
				}
				return n
			}
			done := false
			vrt.GoN("requester", func() {
				_, _ = conn.C.Write(wire.BinFrame(hapi.Cmd{Type: 1, Req: 1, Key: 1, Id: 1, Timeout: 3, TimeoutFlag: tfAck, Expried: 60}))
				done = true
			})
			vrt.SetExplore(true)
			vrt.R.Block(func() bool { return done })
			vrt.Quiesce()
			vrt.SetExplore(false)
			vrt.AdvanceTo(vrt.Elapsed() + 6*sec)
			conn.Pump()
			got = binStr(pick(conn.TakeBin(), 1))
		})
		out := explore.Outcome{Trace: got, Nontrivial: got != ""}
		if engErr != "" {
			out.EngineErr = engErr
			return rt, out
		}
		if rt.Diverged {
			out.EngineErr = "point budget exceeded"
			return rt, out
		}
		if rt.Crash != nil {
			out.Violations = []explore.Violation{{Sig: "C11:crash", Msg: rt.Crash.Value + "\n" + firstLines(rt.Crash.Stack, 14)}}
			return rt, out
		}
		if strings.Contains(got, "SUCCED") {
			out.Violations = []explore.Violation{{Sig: "C11:succeeded-without-quorum", Msg: fmt.Sprintf("leader + one follower whose disk refuses every write: the acknowledgement-required LOCK was answered %s although the follower cannot have logged the record", got)}}
		}
		return rt, out
	}
}

func init() {
	enumFuncs["C11"] = func(q bool) *FuncPlan {
		return &FuncPlan{Scens: []*FuncScenario{{Name: "follower-disk-fails", Sc: c11DiskScenario(), Bound: func(q bool) int {
			if q {
				return 2
			}
			return 3
		}, Desc: []string{"leader + follower; the follower's disk refuses writes; one acknowledgement-required LOCK; all threads of both nodes explored"}}},
			MaxExec: func(q bool) int64 {
				if q {
					return 4000
				}
				return 200000
			}}
	}
}
