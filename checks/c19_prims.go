package checks

import (
	"encoding/json"
	"fmt"
	"strings"

	"verif/explore"
	cl "verif/gen/n0/client"
	"verif/hapi"
	"verif/vrt"
	"verif/vrt/vnet"
)

// Histories of the packaged primitives against their textbook models.
//
// For every primitive a small alphabet of NON-BLOCKING calls (timeout 0) on two or three objects held by two
// client connections, plus a clock tick; every history up to a depth is played through the real client
// against a full node (directly, or through a follower's forwarding port of a two-node cluster) and each
// call's outcome is compared with what the textbook primitive answers:
//
//	lock       X+ succeeds iff nobody holds; X- iff X holds
//	rlock      X+ succeeds iff nobody else holds (depth+1); X- iff X holds (depth-1)
//	semaphore  X+ succeeds iff fewer than n are taken; X- iff at least one is taken (releases the oldest)
//	flow       X+ succeeds iff X is not inside and fewer than n are; X- iff X is inside
//	rwlock     Xr+ iff no writer; Xr- iff object X has a reader inside; Xw+ iff no writer and no reader; Xw- iff X writes
//	event      IsSet answers the flag; Wait(0) succeeds iff set (Set / Clear outcomes are not judged)
//	priority   like lock
//
// Expiry is 60 s and a history has at most two ticks of 1.7 s, so no hold ends by time.
type primKind struct {
	name string
	ops  []string
	n    int
}

func primKinds() []primKind {
	ab := []string{"A+", "A-", "B+", "B-", "T"}
	return []primKind{
		{"lock", ab, 0}, {"rlock", ab, 0}, {"prioritylock", ab, 0},
		{"semaphore-1", ab, 1}, {"semaphore-2", ab, 2}, {"semaphore-3", ab, 3},
		{"flow-1", []string{"A+", "A-", "B+", "B-", "C+", "C-", "T"}, 1}, {"flow-2", []string{"A+", "A-", "B+", "B-", "C+", "C-", "T"}, 2},
		{"rwlock", []string{"Ar+", "Ar-", "Aw+", "Aw-", "Br+", "Br-", "Bw+", "Bw-", "T"}, 0},
		{"event-default-set", []string{"As", "Ac", "A?", "Aw", "Bs", "Bc", "B?", "Bw", "T"}, 0},
		{"event-default-clear", []string{"As", "Ac", "A?", "Aw", "Bs", "Bc", "B?", "Bw", "T"}, 0},
	}
}

func primKindByName(n string) *primKind {
	for _, k := range primKinds() {
		if k.name == n {
			kk := k
			return &kk
		}
	}
	return nil
}

// primModel is the textbook primitive.
type primModel struct {
	kind    string
	n       int
	holder  string
	depth   int
	taken   int
	inside  map[string]bool
	readers map[string]int
	writer  string
	set     bool
}

func newPrimModel(k *primKind) *primModel {
	m := &primModel{kind: k.name, n: k.n, inside: map[string]bool{}, readers: map[string]int{}}
	if k.name == "event-default-set" {
		m.set = true
	}
	return m
}

func okIf(b bool) string {
	if b {
		return "ok"
	}
	return "fail"
}

// apply returns the expected outcome ("" = not judged).
func (m *primModel) apply(op string) string {
	x, act := op[:1], op[1:]
	switch {
	case m.kind == "lock" || m.kind == "prioritylock":
		if act == "+" {
			ok := m.holder == ""
			if ok {
				m.holder = x
			}
			return okIf(ok)
		}
		ok := m.holder == x
		if ok {
			m.holder = ""
		}
		return okIf(ok)
	case m.kind == "rlock":
		if act == "+" {
			ok := m.holder == "" || m.holder == x
			if ok {
				m.holder = x
				m.depth++
			}
			return okIf(ok)
		}
		ok := m.holder == x
		if ok {
			m.depth--
			if m.depth == 0 {
				m.holder = ""
			}
		}
		return okIf(ok)
	case strings.HasPrefix(m.kind, "semaphore"):
		if act == "+" {
			ok := m.taken < m.n
			if ok {
				m.taken++
			}
			return okIf(ok)
		}
		ok := m.taken > 0
		if ok {
			m.taken--
		}
		return okIf(ok)
	case strings.HasPrefix(m.kind, "flow"):
		if act == "+" {
			ok := !m.inside[x] && len(m.inside) < m.n
			if ok {
				m.inside[x] = true
			}
			return okIf(ok)
		}
		ok := m.inside[x]
		delete(m.inside, x)
		return okIf(ok)
	case m.kind == "rwlock":
		total := 0
		for _, v := range m.readers {
			total += v
		}
		switch act {
		case "r+":
			ok := m.writer == ""
			if ok {
				m.readers[x]++
			}
			return okIf(ok)
		case "r-":
			ok := m.readers[x] > 0
			if ok {
				m.readers[x]--
			}
			return okIf(ok)
		case "w+":
			ok := m.writer == "" && total == 0
			if ok {
				m.writer = x
			}
			return okIf(ok)
		case "w-":
			ok := m.writer == x
			if ok {
				m.writer = ""
			}
			return okIf(ok)
		}
	case strings.HasPrefix(m.kind, "event"):
		switch act {
		case "s":
			m.set = true
			return ""
		case "c":
			m.set = false
			return ""
		case "?":
			if m.set {
				return "true"
			}
			return "false"
		case "w":
			return okIf(m.set)
		}
	}
	return ""
}

// primObjs are the real objects of one run.
type primObjs struct {
	kind  string
	lock  map[string]*cl.Lock
	rlock map[string]*cl.RLock
	prio  map[string]*cl.PriorityLock
	sem   map[string]*cl.Semaphore
	flow  map[string]*cl.MaxConcurrentFlow
	rw    map[string]*cl.RWLock
	event map[string]*cl.Event
	wHeld map[string]bool
}

func newPrimObjs(k *primKind, conn map[string]*cl.Client) *primObjs {
	o := &primObjs{kind: k.name, lock: map[string]*cl.Lock{}, rlock: map[string]*cl.RLock{}, prio: map[string]*cl.PriorityLock{}, sem: map[string]*cl.Semaphore{},
		flow: map[string]*cl.MaxConcurrentFlow{}, rw: map[string]*cl.RWLock{}, event: map[string]*cl.Event{}, wHeld: map[string]bool{}}
	key := ckey(31)
	for x, c := range conn {
		switch {
		case k.name == "lock":
			o.lock[x] = c.Lock(key, 0, 60)
		case k.name == "rlock":
			o.rlock[x] = c.RLock(key, 0, 60)
		case k.name == "prioritylock":
			p := uint8(1)
			if x == "B" {
				p = 5
			}
			o.prio[x] = c.PriorityLock(key, p, 0, 60)
		case strings.HasPrefix(k.name, "semaphore"):
			o.sem[x] = c.Semaphore(key, 0, 60, uint16(k.n))
		case strings.HasPrefix(k.name, "flow"):
			o.flow[x] = c.MaxConcurrentFlow(key, uint16(k.n), 0, 60)
		case k.name == "rwlock":
			o.rw[x] = c.RWLock(key, 0, 60)
		case k.name == "event-default-set":
			o.event[x] = c.Event(key, 0, 60, true)
		case k.name == "event-default-clear":
			o.event[x] = c.Event(key, 0, 60, false)
		}
	}
	return o
}

func errOut(err error) string {
	if err == nil {
		return "ok"
	}
	return "fail"
}

func (o *primObjs) exec(op string) (out string, detail string) {
	x, act := op[:1], op[1:]
	var err error
	switch {
	case o.lock[x] != nil:
		if act == "+" {
			_, err = o.lock[x].Lock()
		} else {
			_, err = o.lock[x].Unlock()
		}
	case o.rlock[x] != nil:
		if act == "+" {
			_, err = o.rlock[x].Lock()
		} else {
			_, err = o.rlock[x].Unlock()
		}
	case o.prio[x] != nil:
		if act == "+" {
			if o.wHeld[x] {
				// PriorityLock.Lock() takes a fresh LockId and forgets the one it holds: calling it on an
				// object that is inside is misuse of the object, not a contender; not issued
				return "fail", ""
			}
			_, err = o.prio[x].Lock()
			if err == nil {
				o.wHeld[x] = true
			}
		} else {
			if !o.wHeld[x] {
				return "fail", "" // Unlock of an object that never locked: nothing to ask the server
			}
			_, err = o.prio[x].Unlock()
			if err == nil {
				o.wHeld[x] = false
			}
		}
	case o.sem[x] != nil:
		if act == "+" {
			_, err = o.sem[x].Acquire()
		} else {
			_, err = o.sem[x].Release()
		}
	case o.flow[x] != nil:
		if act == "+" {
			_, err = o.flow[x].Acquire()
		} else {
			_, err = o.flow[x].Release()
		}
	case o.rw[x] != nil:
		switch act {
		case "r+":
			_, err = o.rw[x].RLock()
		case "r-":
			_, err = o.rw[x].RUnlock()
		case "w+":
			_, err = o.rw[x].Lock()
		case "w-":
			_, err = o.rw[x].Unlock()
		}
	case o.event[x] != nil:
		switch act {
		case "s":
			_, err = o.event[x].Set()
		case "c":
			_, err = o.event[x].Clear()
		case "?":
			var b bool
			b, err = o.event[x].IsSet()
			if err != nil {
				return "error", err.Error()
			}
			return fmt.Sprintf("%v", b), ""
		case "w":
			_, err = o.event[x].Wait(0)
		}
	}
	if err != nil {
		return "fail", err.Error()
	}
	return "ok", ""
}

type c19PrimArg struct {
	Kind  string  `json:"k"`
	Via   int     `json:"v"` // 0: clients talk to the leader; 1: to the follower of a two-node cluster
	Conns int     `json:"c"` // 1: all objects on one connection; 2: A (and C) on one, B on another
	Seqs  [][]int `json:"s"`
	Rec   bool    `json:"r,omitempty"` // alphabet extended by R: connection A is cut, the client reconnects 3 s later
}

func c19PrimSeqs(n, depth, maxT int, tIdx int) [][]int { return c19PrimSeqsR(n, depth, maxT, tIdx, -1) }

func c19PrimSeqsR(n, depth, maxT int, tIdx int, rIdx int) [][]int {
	var out [][]int
	var rec func(cur []int, ts int)
	rec = func(cur []int, ts int) {
		if len(cur) == depth {
			out = append(out, append([]int{}, cur...))
			return
		}
		for i := 0; i < n; i++ {
			if i == tIdx {
				if ts%10 >= maxT || len(cur) == 0 || len(cur) == depth-1 {
					continue // a tick first or last observes nothing
				}
				rec(append(cur, i), ts+1)
				continue
			}
			if i == rIdx {
				if ts >= 10 || len(cur) == 0 || len(cur) == depth-1 {
					continue // one reconnect, with something before and after it
				}
				rec(append(cur, i), ts+10)
				continue
			}
			rec(append(cur, i), ts)
		}
	}
	rec(nil, 0)
	return out
}

func c19PrimCases(quick bool) []EnumCase {
	var out []EnumCase
	for _, k := range primKinds() {
		for _, cfg := range [][2]int{{0, 2}, {0, 1}, {1, 2}, {2, 2}} {
			via, conns := cfg[0], cfg[1]
			depth := 5
			if len(k.ops) > 5 {
				depth = 4
			}
			if via == 1 || conns == 1 {
				depth--
			}
			if via == 2 && len(k.ops) > 5 && quick {
				depth--
			}
			if !quick {
				depth += 2
				if len(k.ops) > 7 {
					depth--
				}
			}
			sq := c19PrimSeqs(len(k.ops), depth, 1+btoi(!quick), len(k.ops)-1)
			rec := false
			if via == 2 {
				via, rec = 0, true
				sq = c19PrimSeqsR(len(k.ops)+1, depth, 1, len(k.ops)-1, len(k.ops))
				var only [][]int
				for _, q := range sq {
					for _, i := range q {
						if i == len(k.ops) {
							only = append(only, q)
							break
						}
					}
				}
				sq = only
			}
			chunk := 60
			for f := 0; f < len(sq); f += chunk {
				t := f + chunk
				if t > len(sq) {
					t = len(sq)
				}
				out = append(out, mkCase(fmt.Sprintf("%s/via%d-conns%d-reconnect%v/%d-%d", k.name, via, conns, rec, f, t-1), c19PrimArg{Kind: k.name, Via: via, Conns: conns, Seqs: sq[f:t], Rec: rec}))
			}
		}
	}
	return out
}

func evalC19Prim(c *Ctx, cs EnumCase) EnumResult {
	var a c19PrimArg
	if err := json.Unmarshal(cs.Arg, &a); err != nil {
		return EnumResult{Err: err.Error()}
	}
	k := primKindByName(a.Kind)
	if k == nil {
		return EnumResult{Err: "unknown primitive " + a.Kind}
	}
	res := EnumResult{Nontrivial: true}
	distinct := map[string]bool{}
	seenSig := map[string]bool{}
	for _, sq := range a.Seqs {
		res.Sub++
		var names []string
		for _, i := range sq {
			if i == len(k.ops) {
				names = append(names, "R")
				continue
			}
			names = append(names, k.ops[i])
		}
		hist := strings.Join(names, " ")
		var engErr string
		var viol *explore.Violation
		var obs []string
		rt := vrt.Run(vrt.Options{MaxPoints: 100_000_000}, func() {
			port := uint(5658)
			if a.Via == 0 {
				node := hapi.Factories["n0"](hapi.Config{FastKeys: 4, Concurrent: 1})
				if err := node.Start(); err != nil {
					engErr = err.Error()
					return
				}
				vrt.AdvanceTo(1300 * ms)
			} else {
				if _, err := StartLeaderFollowers(1, nil); err != nil {
					engErr = err.Error()
					return
				}
				port = 5659
			}
			var cs []*cl.Client
			linksBefore := len(vnet.Links())
			for i := 0; i < a.Conns; i++ {
				cc := cl.NewClient("127.0.0.1", port)
				if err := cc.Open(); err != nil {
					engErr = "client open: " + err.Error()
					return
				}
				cs = append(cs, cc)
			}
			vrt.Quiesce()
			conn := map[string]*cl.Client{"A": cs[0], "B": cs[len(cs)-1]}
			if strings.HasPrefix(k.name, "flow") {
				conn["C"] = cs[0]
			}
			objs := newPrimObjs(k, conn)
			model := newPrimModel(k)
			for i, op := range names {
				if op == "T" {
					vrt.AdvanceTo(vrt.Elapsed() + c19Tick)
					obs = append(obs, "T")
					continue
				}
				if op == "R" {
					// the connection of A breaks; the client library reconnects under its client id 3 s later
					nl := len(vnet.Links())
					vnet.Links()[linksBefore].Break()
					vrt.AdvanceTo(vrt.Elapsed() + 3500*ms)
					vrt.Quiesce()
					if len(vnet.Links()) != nl+1 {
						engErr = fmt.Sprintf("the client did not reconnect within 3.5 s (%d links before, %d after)", nl, len(vnet.Links()))
						return
					}
					obs = append(obs, "R")
					continue
				}
				want := model.apply(op)
				got, detail := objs.exec(op)
				obs = append(obs, op+"="+got)
				if want != "" && got != want {
					viol = &explore.Violation{Sig: "C19:primitive-history/" + k.name, Msg: fmt.Sprintf("%s (via %s, %d connection(s)), history [%s]: step %d %s answered %q, the textbook primitive answers %q (%s); so far %v",
						k.name, map[int]string{0: "leader", 1: "follower port"}[a.Via], a.Conns, hist, i, op, got, want, detail, obs)}
					return
				}
			}
		})
		if engErr != "" {
			return EnumResult{Err: engErr + " in " + hist}
		}
		if rt.Diverged {
			return EnumResult{Err: "point budget exceeded in history " + hist}
		}
		if rt.Crash != nil {
			res.Viol = append(res.Viol, explore.Violation{Sig: "C19:crash", Msg: fmt.Sprintf("%s history [%s]: %s\n%s", k.name, hist, rt.Crash.Value, firstLines(rt.Crash.Stack, 12))})
			continue
		}
		if rt.Deadlock != "" {
			res.Viol = append(res.Viol, explore.Violation{Sig: "C19:deadlock", Msg: fmt.Sprintf("%s history [%s]: %s", k.name, hist, rt.Deadlock)})
			continue
		}
		if viol != nil {
			if !seenSig[viol.Sig] {
				seenSig[viol.Sig] = true
				res.Viol = append(res.Viol, *viol)
			}
			continue
		}
		distinct[strings.Join(obs, " ")] = true
	}
	res.SubNT = len(distinct)
	res.Obs = fmt.Sprintf("%d histories", len(a.Seqs))
	return res
}

func c19PrimPlan() *EnumPlan {
	return &EnumPlan{Name: "primitive-histories", Cases: c19PrimCases, Eval: evalC19Prim}
}

// Event.Wait with real waiting: 2..3 goroutines wait on one event with timeouts from {1, 3, 8} s, the event
// is set at a chosen moment (or never); every combination, both event modes. A Wait may return success only
// once the event has been set, and must report a timeout when it was not set before its own deadline.
type c19WaitArg struct {
	Mode     bool  `json:"m"` // default-set mode
	Timeouts []int `json:"t"`
	SetAt    int   `json:"s"` // 100 ms units; 0 = never
}

func c19WaitCases(quick bool) []EnumCase {
	var out []EnumCase
	tos := []int{1, 3, 8}
	sets := []int{0, 20, 55}
	if !quick {
		tos = []int{1, 2, 3, 5, 8}
		sets = []int{0, 5, 15, 20, 45, 55, 100}
	}
	var combos [][]int
	for _, a := range tos {
		for _, b := range tos {
			combos = append(combos, []int{a, b})
			for _, c := range tos {
				combos = append(combos, []int{a, b, c})
			}
		}
	}
	for _, mode := range []bool{true, false} {
		for _, t := range combos {
			for _, s := range sets {
				out = append(out, mkCase(fmt.Sprintf("event-wait/defaultset=%v/timeouts%v/set-at-%d00ms", mode, t, s), c19WaitArg{mode, t, s}))
			}
		}
	}
	return out
}

func evalC19Wait(c *Ctx, cs EnumCase) EnumResult {
	var a c19WaitArg
	if err := json.Unmarshal(cs.Arg, &a); err != nil {
		return EnumResult{Err: err.Error()}
	}
	res := EnumResult{Nontrivial: true}
	var engErr string
	type ret struct {
		at  int64
		ok  bool
		err string
	}
	rets := make([]*ret, len(a.Timeouts))
	var setAt int64 = -1
	var t0 int64
	rt := vrt.Run(vrt.Options{MaxPoints: 100_000_000}, func() {
		node := hapi.Factories["n0"](hapi.Config{FastKeys: 4, Concurrent: 1})
		if err := node.Start(); err != nil {
			engErr = err.Error()
			return
		}
		vrt.AdvanceTo(1300 * ms)
		var cs []*cl.Client
		for i := 0; i <= len(a.Timeouts); i++ {
			cc := cl.NewClient("127.0.0.1", 5658)
			if err := cc.Open(); err != nil {
				engErr = "client open: " + err.Error()
				return
			}
			cs = append(cs, cc)
		}
		vrt.Quiesce()
		key := ckey(41)
		setter := cs[len(a.Timeouts)].Event(key, 0, 60, a.Mode)
		_, _ = setter.Clear() // on a fresh database a default-clear event is clear already (the server answers "unknown db")
		if set, err := setter.IsSet(); err != nil || set {
			engErr = fmt.Sprintf("the event is not clear after Clear(): IsSet=%v err=%v", set, err)
			return
		}
		t0 = vrt.Elapsed()
		for i, to := range a.Timeouts {
			i, to := i, to
			ev := cs[i].Event(key, 0, 60, a.Mode)
			vrt.GoN(fmt.Sprintf("waiter%d", i), func() {
				_, err := ev.Wait(uint32(to))
				r := &ret{at: vrt.Elapsed(), ok: err == nil}
				if err != nil {
					r.err = err.Error()
				}
				rets[i] = r
			})
			vrt.Quiesce()
		}
		if a.SetAt > 0 {
			vrt.AdvanceTo(t0 + int64(a.SetAt)*100*ms)
			if _, err := setter.Set(); err != nil {
				engErr = "Set: " + err.Error()
				return
			}
			setAt = vrt.Elapsed()
		}
		vrt.AdvanceTo(t0 + 12*sec)
	})
	if engErr != "" {
		return EnumResult{Err: engErr}
	}
	if rt.Crash != nil {
		res.Viol = append(res.Viol, explore.Violation{Sig: "C19:crash", Msg: rt.Crash.Value})
		return res
	}
	var obs []string
	for i, r := range rets {
		to := int64(a.Timeouts[i]) * sec
		what := fmt.Sprintf("event (default-set mode %v) cleared; waiters with timeouts %v s; Set at %s: waiter %d", a.Mode, a.Timeouts, map[bool]string{true: fmt.Sprintf("+%d ms", (setAt-t0)/ms), false: "never"}[setAt >= 0], i)
		if r == nil {
			res.Viol = append(res.Viol, explore.Violation{Sig: "C19:event-wait-never-returns", Msg: what + " has not returned 12 s after it started"})
			continue
		}
		obs = append(obs, fmt.Sprintf("w%d:%v@%dms", i, r.ok, (r.at-t0)/ms))
		switch {
		case r.ok && (setAt < 0 || r.at < setAt):
			res.Viol = append(res.Viol, explore.Violation{Sig: "C19:event-wait-returned-before-set", Msg: fmt.Sprintf("%s returned success at +%d ms although the event had not been set", what, (r.at-t0)/ms)})
		case !r.ok && setAt >= 0 && setAt-t0 < to-500*ms:
			res.Viol = append(res.Viol, explore.Violation{Sig: "C19:event-wait-missed-set", Msg: fmt.Sprintf("%s returned %q at +%d ms although the event was set well before its deadline", what, r.err, (r.at-t0)/ms)})
		case !r.ok && r.at-t0 < to:
			res.Viol = append(res.Viol, explore.Violation{Sig: "C19:event-wait-gave-up-early", Msg: fmt.Sprintf("%s returned %q at +%d ms, before its timeout", what, r.err, (r.at-t0)/ms)})
		}
	}
	res.Obs = strings.Join(obs, " ")
	return res
}

func c19WaitPlan() *EnumPlan {
	return &EnumPlan{Name: "event-wait-timeouts", Cases: c19WaitCases, Eval: evalC19Wait}
}

// Holders keep their primitive for the WHOLE expiry: a primitive taken with expiry 2 s at every phase of the
// server's second (0..900 ms) must still refuse a contender on another connection 1.0 / 1.45 / 1.9 s later.
type c19EdgeArg struct {
	Kind  string `json:"k"`
	Phase int    `json:"p"` // ms after a whole virtual second at which the holder acquires
	Probe int    `json:"q"` // ms after the acquisition at which the contender tries
}

func c19EdgeCases(quick bool) []EnumCase {
	var out []EnumCase
	for _, k := range []string{"lock", "rlock", "prioritylock", "semaphore-1", "flow-1", "rwlock-writer-vs-reader", "rwlock-reader-vs-writer"} {
		for ph := 0; ph < 1000; ph += 100 {
			for _, pr := range []int{1000, 1450, 1900} {
				out = append(out, mkCase(fmt.Sprintf("expiry-boundary/%s/phase%d/probe%d", k, ph, pr), c19EdgeArg{k, ph, pr}))
			}
		}
	}
	return out
}

func evalC19Edge(c *Ctx, cs EnumCase) EnumResult {
	var a c19EdgeArg
	if err := json.Unmarshal(cs.Arg, &a); err != nil {
		return EnumResult{Err: err.Error()}
	}
	res := EnumResult{Nontrivial: true}
	var engErr, msg string
	rt := vrt.Run(vrt.Options{MaxPoints: 100_000_000}, func() {
		node := hapi.Factories["n0"](hapi.Config{FastKeys: 4, Concurrent: 1})
		if err := node.Start(); err != nil {
			engErr = err.Error()
			return
		}
		vrt.AdvanceTo(1300 * ms)
		var cs []*cl.Client
		for i := 0; i < 2; i++ {
			cc := cl.NewClient("127.0.0.1", 5658)
			if err := cc.Open(); err != nil {
				engErr = "client open: " + err.Error()
				return
			}
			cs = append(cs, cc)
		}
		vrt.Quiesce()
		key := ckey(51)
		var take, probe func() error
		switch a.Kind {
		case "lock":
			h, p := cs[0].Lock(key, 0, 2), cs[1].Lock(key, 0, 2)
			take, probe = func() error { _, e := h.Lock(); return e }, func() error { _, e := p.Lock(); return e }
		case "rlock":
			h, p := cs[0].RLock(key, 0, 2), cs[1].RLock(key, 0, 2)
			take, probe = func() error { _, e := h.Lock(); return e }, func() error { _, e := p.Lock(); return e }
		case "prioritylock":
			h, p := cs[0].PriorityLock(key, 1, 0, 2), cs[1].PriorityLock(key, 5, 0, 2)
			take, probe = func() error { _, e := h.Lock(); return e }, func() error { _, e := p.Lock(); return e }
		case "semaphore-1":
			h, p := cs[0].Semaphore(key, 0, 2, 1), cs[1].Semaphore(key, 0, 2, 1)
			take, probe = func() error { _, e := h.Acquire(); return e }, func() error { _, e := p.Acquire(); return e }
		case "flow-1":
			h, p := cs[0].MaxConcurrentFlow(key, 1, 0, 2), cs[1].MaxConcurrentFlow(key, 1, 0, 2)
			take, probe = func() error { _, e := h.Acquire(); return e }, func() error { _, e := p.Acquire(); return e }
		case "rwlock-writer-vs-reader":
			h, p := cs[0].RWLock(key, 0, 2), cs[1].RWLock(key, 0, 2)
			take, probe = func() error { _, e := h.RLock(); return e }, func() error { _, e := p.Lock(); return e }
		case "rwlock-reader-vs-writer":
			h, p := cs[0].RWLock(key, 0, 2), cs[1].RWLock(key, 0, 2)
			take, probe = func() error { _, e := h.Lock(); return e }, func() error { _, e := p.RLock(); return e }
		}
		vrt.AdvanceTo(3*sec + int64(a.Phase)*ms)
		if err := take(); err != nil {
			engErr = "the holder could not acquire: " + err.Error()
			return
		}
		vrt.AdvanceTo(3*sec + int64(a.Phase)*ms + int64(a.Probe)*ms)
		if err := probe(); err == nil {
			msg = fmt.Sprintf("%s taken with expiry 2 s at second-phase %d ms: %d ms later a contender on another connection was admitted although the holder is still inside its expiry", a.Kind, a.Phase, a.Probe)
		}
	})
	if engErr != "" {
		return EnumResult{Err: engErr}
	}
	if rt.Crash != nil {
		res.Viol = append(res.Viol, explore.Violation{Sig: "C19:crash", Msg: rt.Crash.Value})
		return res
	}
	if msg != "" {
		res.Viol = append(res.Viol, explore.Violation{Sig: "C19:holder-lost-its-primitive-before-expiry", Msg: msg})
	}
	res.Obs = fmt.Sprintf("%s/%d/%d refused=%v", a.Kind, a.Phase, a.Probe, msg == "")
	return res
}

func c19EdgePlan() *EnumPlan {
	return &EnumPlan{Name: "expiry-boundary", Cases: c19EdgeCases, Eval: evalC19Edge}
}
