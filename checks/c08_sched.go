package checks

import (
	"fmt"

	"verif/explore"
	"verif/hapi"
	"verif/vrt"
)

// A restart replays the log through one persistence channel per shard while the start-up path waits for them and
// then starts the compaction of the old files. Two shards, holds on keys of both; the schedules of the restart's
// threads (loader, the two channels, the compaction) are explored in coarse mode (choice points: every blocking
// and every channel hand-over); afterwards the node is stopped cleanly and started once more under the default
// schedule: both holds must still be there (a compaction that ran before a channel had replayed its records
// keeps only what it finds in memory and the next restart has lost the rest).
func c08RestartScenario() explore.Scenario {
	cfg := hapi.Config{FastKeys: 4, Concurrent: 2, FileBuf: 64, RewriteSz: 12 + 64*4} // the fourth record rotates the append file: the first compaction leaves a rewrite.aof for the restarts to compact again
	return func(opt vrt.Options) (*vrt.RT, explore.Outcome) {
		var engErr, got string
		var lost []string
		opt.MaxPoints = 200_000_000
		rt := vrt.Run(opt, func() {
			node := hapi.Factories["n0"](cfg)
			if err := node.StartEngine(); err != nil {
				engErr = err.Error()
				return
			}
			c := node.NewMemClient("a")
			vrt.AdvanceTo(1500 * ms)
			for k := byte(1); k <= 6; k++ {
				c.Do(withEF(hapi.Cmd{Type: 1, Req: k, Key: k, Id: k, Expried: 600}, efZeroAof).Build())
				vrt.Quiesce()
			}
			vrt.AdvanceTo(vrt.Elapsed() + 250*ms)
			node.Poke("flushaof")
			vrt.Quiesce()
			name := cfg.WithDefaults().Name
			vrt.KillGroup(name)
			// restart #1, explored
			n1 := hapi.Factories["n0"](cfg)
			var err error
			done := false
			vrt.GoN("starter", func() {
				err = n1.StartEngine()
				done = true
			})
			vrt.SetExplore(true)
			vrt.R.Block(func() bool { return done })
			vrt.Quiesce()
			vrt.SetExplore(false)
			if err != nil {
				engErr = "restart 1: " + err.Error()
				return
			}
			vrt.AdvanceTo(vrt.Elapsed() + 1*sec)
			s1 := n1.Snapshot()
			n1.Poke("flushaof")
			vrt.Quiesce()
			vrt.KillGroup(name)
			// restart #2, default schedule
			n2 := hapi.Factories["n0"](cfg)
			if err := n2.StartEngine(); err != nil {
				engErr = "restart 2: " + err.Error()
				return
			}
			vrt.AdvanceTo(vrt.Elapsed() + 1*sec)
			s2 := n2.Snapshot()
			for k := byte(1); k <= 6; k++ {
				h1, h2 := 0, 0
				if ks := s1.Key(0, [16]byte{15: k}); ks != nil {
					h1 = len(ks.Holds)
				}
				if ks := s2.Key(0, [16]byte{15: k}); ks != nil {
					h2 = len(ks.Holds)
				}
				got += fmt.Sprintf("k%d:%d/%d ", k, h1, h2)
				if h1 != 1 {
					lost = append(lost, fmt.Sprintf("key %d has %d holds after the first restart", k, h1))
				} else if h2 != 1 {
					lost = append(lost, fmt.Sprintf("key %d: held after the first restart, %d holds after the second", k, h2))
				}
			}
		})
		out := explore.Outcome{Trace: got, Nontrivial: got != ""}
		if engErr != "" {
			out.EngineErr = engErr
			return rt, out
		}
		if rt.Diverged {
			out.EngineErr = "point budget exceeded"
			return rt, out
		}
		if rt.Crash != nil {
			out.Violations = []explore.Violation{{Sig: "C08:recovery-crash/scheduled-restart", Msg: rt.Crash.Value + "\n" + firstLines(rt.Crash.Stack, 14)}}
			return rt, out
		}
		if rt.Deadlock != "" {
			out.Violations = []explore.Violation{{Sig: "C08:restart-deadlock", Msg: rt.Deadlock}}
			return rt, out
		}
		if len(lost) > 0 {
			out.Violations = []explore.Violation{{Sig: "C08:second-restart/hold-lost-after-clean-restarts", Msg: fmt.Sprintf("six persisted holds (keys 1-6, two shards, the first four already compacted into rewrite.aof), clean stop, restart, clean stop, restart: %v", lost)}}
		}
		return rt, out
	}
}

func init() {
	enumFuncs["C08"] = func(q bool) *FuncPlan {
		return &FuncPlan{Scens: []*FuncScenario{{Name: "restart-schedules", Sc: c08RestartScenario(), Bound: func(q bool) int {
			if q {
				return 2
			}
			return 3
		}, Desc: []string{"two shards, six persisted holds (four of them in rewrite.aof); restart with the schedules of loader / persistence channels / start-up compaction explored; clean stop; second restart"}}},
			MaxExec: func(q bool) int64 {
				if q {
					return 3000
				}
				return 200000
			}}
	}
}
