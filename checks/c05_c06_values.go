package checks

import (
	"encoding/json"
	"fmt"

	"verif/explore"
	"verif/hapi"
	"verif/vrt"
)

// Deadline placement for EVERY value of the 16-bit Timeout / Expried field in each unit. The timed cases of
// c05_c06.go show that a recorded deadline is honoured (sweeper ladder, long tables); this plan shows that the
// deadline recorded for a request is right for all 65535 values: 200 requests with consecutive values are put
// on one key of a fresh engine and their recorded deadlines (census of the live structures) are compared with
// t_enqueue/t_grant + value.
type valArg struct {
	Kind  string `json:"kind"` // timeout | expiry | expiry-via-queue
	Unit  string `json:"unit"`
	From  int    `json:"from"`
	To    int    `json:"to"`
	Phase int64  `json:"phase"`
}

func valueCases(kinds []string) func(quick bool) []EnumCase {
	return func(quick bool) []EnumCase {
		var out []EnumCase
		phases := []int64{500 * ms}
		if !quick {
			phases = []int64{50 * ms, 500 * ms, 950 * ms}
		}
		for _, kind := range kinds {
			for _, unit := range []string{"s", "min", "ms"} {
				for _, ph := range phases {
					for f := 1; f <= 65535; f += 200 {
						t := f + 199
						if t > 65535 {
							t = 65535
						}
						out = append(out, mkCase(fmt.Sprintf("%s/%s/%d-%d/ph%d", kind, unit, f, t, ph/ms), valArg{kind, unit, f, t, ph}))
					}
				}
			}
		}
		return out
	}
}

func evalValues(prefix string) func(c *Ctx, cs EnumCase) EnumResult {
	return func(c *Ctx, cs EnumCase) EnumResult {
		var a valArg
		if err := json.Unmarshal(cs.Arg, &a); err != nil {
			return EnumResult{Err: err.Error()}
		}
		var vs []explore.Violation
		var engErr string
		checked := 0
		add := func(sig, msg string) {
			if len(vs) < 4 {
				vs = append(vs, explore.Violation{Sig: prefix + ":" + sig, Msg: fmt.Sprintf("%s: %s", cs.Name, msg)})
			}
		}
		rt := vrt.Run(vrt.Options{MaxPoints: 500_000_000}, func() {
			node := hapi.Factories["n0"](hapi.Config{FastKeys: 1, Concurrent: 1})
			if err := node.StartEngine(); err != nil {
				engErr = err.Error()
				return
			}
			cl := node.NewMemClient("a")
			tb := 2*sec + a.Phase
			flag := unitFlag(a.Unit)
			base := tb // instant the period starts from
			if a.Kind != "expiry" {
				vrt.AdvanceTo(1500 * ms)
				cl.Do(hapi.Cmd{Type: 1, Req: 250, Key: 1, Id: 250, Expried: 0xffff, ExpriedFlag: fUnlim}.Build())
				vrt.Quiesce()
			}
			vrt.AdvanceTo(tb)
			val := map[byte]int{}
			for v := a.From; v <= a.To; v++ {
				id := byte(10 + v - a.From)
				val[id] = v
				var cmd hapi.Cmd
				switch a.Kind {
				case "timeout":
					cmd = hapi.Cmd{Type: 1, Req: id, Key: 1, Id: id, Timeout: uint16(v), TimeoutFlag: flag, Expried: 5}
				case "expiry":
					cmd = hapi.Cmd{Type: 1, Req: id, Key: 1, Id: id, Expried: uint16(v), ExpriedFlag: flag, Count: 0xffff}
				case "expiry-via-queue":
					cmd = hapi.Cmd{Type: 1, Req: id, Key: 1, Id: id, Timeout: 60, Expried: uint16(v), ExpriedFlag: flag, Count: 0xffff}
				}
				cl.Do(cmd.Build())
			}
			vrt.Quiesce()
			if a.Kind == "expiry-via-queue" {
				base = tb + 3500*ms
				vrt.AdvanceTo(base)
				cl.Do(hapi.Cmd{Type: 2, Req: 251, Key: 1, Id: 250}.Build())
				vrt.Quiesce()
			}
			if a.Unit == "ms" {
				vrt.AdvanceTo(base + 3200*ms) // past the hand-over from the millisecond wheel
			}
			snap := node.Snapshot()
			var key [16]byte
			key[15] = 1
			ks := snap.Key(0, key)
			seen := map[byte]bool{}
			judge := func(id byte, at int64, what string) {
				v, ok := val[id]
				if !ok {
					return
				}
				seen[id] = true
				checked++
				n := unitNs(a.Unit, uint16(v))
				if at*sec < base+n {
					add("deadline-early", fmt.Sprintf("%s %d %s taken at %d ms has its deadline recorded at second %d: %d ms after, earlier than the time it was given", what, v, a.Unit, base/ms, at, (at*sec-base)/ms))
				} else if at*sec > base+n+2*sec {
					add("deadline-late", fmt.Sprintf("%s %d %s taken at %d ms has its deadline recorded at second %d: %d ms after, more than two seconds late", what, v, a.Unit, base/ms, at, (at*sec-base)/ms))
				}
			}
			if ks != nil {
				if a.Kind == "timeout" {
					for _, w := range ks.Waiters {
						judge(w.LockId[15], w.TimeoutAt, "timeout")
					}
				} else {
					for _, h := range ks.Holds {
						judge(h.LockId[15], h.ExpriedAt, "expiry")
					}
				}
			}
			// requests no longer live: they must have been answered, and not early
			want := uint8(8)
			if a.Kind != "timeout" {
				want = 9
			}
			for _, e := range node.Events() {
				v, ok := val[e.Req]
				if !ok || e.Result != want {
					continue
				}
				seen[e.Req] = true
				checked++
				if n := unitNs(a.Unit, uint16(v)); e.T-base < n {
					add("answered-early", fmt.Sprintf("value %d %s: answered %s %d ms after the period began", v, a.Unit, hapi.ResultName(e.Result), (e.T-base)/ms))
				}
			}
			for id, v := range val {
				if !seen[id] {
					add("lost", fmt.Sprintf("value %d %s: the request is neither live nor answered (events %s)", v, a.Unit, evStr(node.Events())))
					break
				}
			}
		})
		if engErr != "" {
			return EnumResult{Err: engErr}
		}
		if rt.Crash != nil {
			vs = append(vs, explore.Violation{Sig: "crash", Msg: rt.Crash.Value + "\n" + firstLines(rt.Crash.Stack, 16)})
		}
		return EnumResult{Viol: dedupe(vs), Obs: fmt.Sprintf("%s %s %d..%d: %d deadlines", a.Kind, a.Unit, a.From, a.To, checked), Nontrivial: checked > 0, Sub: a.To - a.From + 1, SubNT: a.To - a.From + 1}
	}
}
