package checks

import (
	"fmt"
	"os"
	"strings"
	"testing"

	"verif/hapi"
	"verif/vrt"
)

// TestDbgC12: debugging aid. DBGC12=<spec name> DBGC12C=<candidate whose messages are delivered first> go test -run TestDbgC12 ./checks/
func TestDbgC12(t *testing.T) {
	name := os.Getenv("DBGC12")
	if name == "" {
		t.Skip()
	}
	pref := os.Getenv("DBGC12C") + ">"
	for _, sp := range c12VoteSpecs(false) {
		if sp.Name != name {
			continue
		}
		var hist []hapi.ArbEvent
		for step := 0; step < 40; step++ {
			var obs hapi.ArbObs
			vrt.Run(vrt.Options{MaxPoints: 50_000_000}, func() { obs = hapi.ArbExec(sp, hist) })
			var pick string
			for _, p := range obs.Pending {
				if strings.HasPrefix(p, pref) {
					pick = p
					break
				}
			}
			if pick == "" {
				fmt.Println("pending:", obs.Pending, "winners:", obs.Winners, "viol:", obs.Viol)
				for _, l := range obs.Log {
					fmt.Println("  ", l)
				}
				return
			}
			hist = append(hist, hapi.ArbEvent{Msg: pick, Fate: "deliver"})
		}
	}
}
