package checks

import (
	"encoding/json"
	"fmt"

	"github.com/snower/slock/protocol"
	"verif/explore"
	"verif/hapi"
	"verif/vrt"
	"verif/vrt/vnet"
	"verif/wire"
)

// The acknowledgement-required lock as the ONLY holder of its key: every combination of persistence-timing
// expiry flag (none, persist-immediately 0x0100, never-persist 0x0200, percent timing 0x1000), follower count,
// acknowledgement fate and what another connection does meanwhile (nothing, unlock-first with another LockId,
// plain unlock with another LockId, unlock with the right LockId). Oracle: the requester gets exactly one
// terminal reply; if it is SUCCED the hold exists and the owner's unlock is accepted afterwards; otherwise no
// hold is left; nobody else's unlock is answered SUCCED unless the hold was really released and the requester
// was told.
type c11SoleCase struct {
	Followers int    `json:"f"`
	EFlag     uint16 `json:"e"`
	Fate      string `json:"fate"`   // deliver | held | late
	Interf    string `json:"interf"` // none | unlock-first-other | unlock-other | unlock-own
}

func (c c11SoleCase) name() string {
	return fmt.Sprintf("sole-holder/f%d/eflag%04x/%s/%s", c.Followers, c.EFlag, c.Fate, c.Interf)
}

func c11SoleCases(quick bool) []EnumCase {
	var out []EnumCase
	for f := 0; f <= 1; f++ {
		for _, ef := range []uint16{0, 0x0100, 0x0200, 0x1000} {
			for _, fate := range []string{"deliver", "held", "late"} {
				if f == 0 && fate != "deliver" {
					continue
				}
				for _, in := range []string{"none", "unlock-first-other", "unlock-other", "unlock-own"} {
					c := c11SoleCase{f, ef, fate, in}
					out = append(out, mkCase(c.name(), c))
				}
			}
		}
	}
	return out
}

func evalC11Sole(c *Ctx, cs EnumCase) EnumResult {
	var k c11SoleCase
	if err := json.Unmarshal(cs.Arg, &k); err != nil {
		return EnumResult{Err: err.Error()}
	}
	var vs []explore.Violation
	add := func(sig, msg string) {
		vs = append(vs, explore.Violation{Sig: "C11:" + sig, Msg: k.name() + ": " + msg})
	}
	var engErr, obs string
	rt := vrt.Run(vrt.Options{MaxPoints: 400_000_000}, func() {
		cl, err := StartLeaderFollowers(k.Followers, nil)
		if err != nil {
			engErr = err.Error()
			return
		}
		leader := cl.Nodes[0]
		conn, _ := wire.Dial(cl.Addrs[0])
		_ = conn.Send(make64(protocol.COMMAND_PING))
		conn.TakeBin()
		other, _ := wire.Dial(cl.Addrs[0])
		_ = other.Send(make64(protocol.COMMAND_PING))
		other.TakeBin()
		var repl *vnet.Link
		for _, l := range vnet.Links() {
			if l.DialGroup == "n1" && l.ListenAddr == nodeAddr(0) {
				repl = l
			}
		}
		if k.Followers == 1 && repl == nil {
			engErr = "no replication link"
			return
		}
		if k.Fate != "deliver" {
			repl.AtoB.Hold = true
		}
		t0 := vrt.Elapsed()
		_ = conn.Send(wire.BinFrame(hapi.Cmd{Type: 1, Req: 1, Key: 2, Id: 1, Timeout: 3, TimeoutFlag: tfAck, Expried: 60, ExpriedFlag: k.EFlag}))
		vrt.AdvanceTo(t0 + 200*ms)
		var ireq byte
		switch k.Interf {
		case "unlock-first-other":
			ireq = 61
			_ = other.Send(wire.BinFrame(hapi.Cmd{Type: 2, Req: 61, Key: 2, Id: 99, Flag: 0x01}))
		case "unlock-other":
			ireq = 62
			_ = other.Send(wire.BinFrame(hapi.Cmd{Type: 2, Req: 62, Key: 2, Id: 99}))
		case "unlock-own":
			ireq = 63
			_ = other.Send(wire.BinFrame(hapi.Cmd{Type: 2, Req: 63, Key: 2, Id: 1}))
		}
		vrt.AdvanceTo(t0 + 1500*ms)
		if k.Fate == "late" {
			repl.AtoB.Hold = false
		}
		vrt.AdvanceTo(t0 + 9*sec)
		conn.Pump()
		other.Pump()
		mine := pick(conn.TakeBin(), 1)
		rest := other.TakeBin()
		var irep []wire.BinReply
		if ireq != 0 {
			irep = pick(rest, ireq)
		}
		var k2 [16]byte
		k2[15] = 2
		held := false
		if ks := leader.Snapshot().Key(0, k2); ks != nil {
			for _, h := range ks.Holds {
				if h.LockId[15] == 1 {
					held = true
				}
			}
		}
		obs = fmt.Sprintf("requester %s; interference %s; held=%v", binStr(mine), binStr(irep), held)
		if len(mine) != 1 {
			add("not-exactly-one-reply", fmt.Sprintf("the ack-required request (only holder of its key) got %d terminal replies %s within 9 s; the other connection's %s was answered %s; hold present: %v", len(mine), binStr(mine), k.Interf, binStr(irep), held))
			return
		}
		released := len(irep) == 1 && irep[0].Result == 0
		if mine[0].Result == 0 {
			if !held && !released {
				add("succeeded-without-hold", "reported SUCCED but LockId 1 holds nothing afterwards")
			}
			if held {
				// the owner must be able to release what it was told it holds
				_ = conn.Send(wire.BinFrame(hapi.Cmd{Type: 2, Req: 70, Key: 2, Id: 1}))
				vrt.AdvanceTo(vrt.Elapsed() + 4*sec)
				conn.Pump()
				u := pick(conn.TakeBin(), 70)
				if len(u) != 1 || u[0].Result != 0 {
					add("granted-hold-cannot-be-unlocked", fmt.Sprintf("the request was answered SUCCED and LockId 1 holds the key, but the owner's UNLOCK afterwards is answered %s", binStr(u)))
				}
			}
		} else if held {
			add("hold-left-after-failure", fmt.Sprintf("answered %s but LockId 1 still holds the key", hapi.ResultName(mine[0].Result)))
		}
	})
	if engErr != "" {
		return EnumResult{Err: k.name() + ": " + engErr}
	}
	if rt.Crash != nil {
		add("crash", rt.Crash.Value+"\n"+firstLines(rt.Crash.Stack, 14))
	}
	if rt.Deadlock != "" {
		add("deadlock", rt.Deadlock)
	}
	return EnumResult{Viol: dedupe(vs), Obs: obs, Nontrivial: true}
}
