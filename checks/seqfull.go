package checks

import (
	"fmt"
	"sort"
	"strings"

	"verif/explore"
	"verif/hapi"
)

// OracleFullVsMem is a differential oracle for specs with Full set: the same history is executed a second
// time on an engine-only node through in-memory protocol objects (which the other oracles compare with the
// reference model); every client must have received the same replies and notices in the same order
// (RequestId, result, counts, LockId, key, value) and after every step the keys must be in the same state
// (holders with the request their notices go to, depths, terms, waiters, values). What differs between the
// two executions is exactly the server's connection layer: frame parsing, per-connection command pools,
// reply buffers and routing.
func OracleFullVsMem(prefix string) SeqOracle {
	return func(r *SeqRun) []explore.Violation {
		if !r.Spec.Full {
			return nil
		}
		ms := *r.Spec
		ms.Full, ms.MonC01 = false, false
		var hist []SeqOp
		for _, st := range r.Steps {
			if st.Op.Cmd == nil && st.Op.Tick == 0 {
				continue
			}
			hist = append(hist, st.Op)
		}
		mr, engErr := ExecSeq(&ms, hist)
		if engErr != "" || mr.RT.Crash != nil || mr.RT.Deadlock != "" {
			return nil // the in-memory execution is judged by the other specs
		}
		evs := func(es []hapi.Event) map[string][]string {
			m := map[string][]string{}
			for _, e := range es {
				if r.Spec.Text && (e.Result == 9 || (e.Result == 8 && e.Cmd == 1 && isAsync(e, es))) {
					continue // notices are not delivered to text connections
				}
				if e.Cmd == 2 && e.Result == 3 {
					e.Result = 6 // an unlock in a database no lock has touched yet: the connection layer answers UNKNOWN_DB, the engine UNLOCK_ERROR; both refuse
				}
				if e.Result == 9 {
					// holds that end in the same sweep end in either order: the count an expiry notice carries depends on it
					m[e.Client] = append(m[e.Client], fmt.Sprintf("r%d=%s id%x key%x d%x", e.Req, hapi.ResultName(e.Result), e.LockId[15], e.Key[15], e.Data))
					continue
				}
				m[e.Client] = append(m[e.Client], fmt.Sprintf("r%d=%s lc%d lrc%d id%x key%x d%x", e.Req, hapi.ResultName(e.Result), e.LCount, e.LRCount, e.LockId[15], e.Key[15], e.Data))
			}
			for _, l := range m {
				sort.Strings(l) // notices of one sweep may be produced in either order
			}
			return m
		}
		keys := func(s *hapi.Snapshot) string {
			if s == nil {
				return ""
			}
			var b strings.Builder
			for _, k := range s.Keys {
				if len(k.Holds) == 0 && len(k.Waiters) == 0 && len(k.Value) == 0 {
					continue
				}
				fmt.Fprintf(&b, "key%x locked%d value%x:", k.Key[15], k.Locked, k.Value)
				for _, h := range k.Holds {
					req := h.Req[0]
					if r.Spec.Text {
						req = 0 // text requests carry no RequestId of the client's
					}
					fmt.Fprintf(&b, " H(id%x req%d depth%d c%d rc%d f%x tf%x ef%x e%d in%d)", h.LockId[15], req, h.Depth, h.Count, h.Rcount, h.Flag, h.TimeoutFlag, h.ExpriedFlag, h.Expried, h.ExpriedIn)
				}
				for _, w := range k.Waiters {
					wreq := w.Req[0]
					if r.Spec.Text {
						wreq = 0
					}
					fmt.Fprintf(&b, " W(id%x req%d c%d rc%d f%x t%d tf%x e%d ef%x in%d)", w.LockId[15], wreq, w.Count, w.Rcount, w.Flag, w.Timeout, w.TimeoutFlag, w.Expried, w.ExpriedFlag, w.TimeoutIn)
				}
				b.WriteString("; ")
			}
			return b.String()
		}
		all := func(run *SeqRun) []SeqStep { return append(append([]SeqStep{}, run.Ramp...), run.Steps...) }
		fs, mm := all(r), all(mr)
		if len(fs) != len(mm) {
			return nil
		}
		// What a clock step delivers (expiry / timeout notices and the grants they cause) may fall into this step in
		// one execution and into the next in the other when a sweeper tick and the end of the step coincide: those
		// events are compared as one multiset per client over the whole run (drain included); request steps are
		// compared one by one, and states only while the notices delivered so far agree.
		accF, accM := map[string][]string{}, map[string][]string{}
		same := func() bool {
			for _, cl := range []string{"a", "b", "c", "d"} {
				x, y := append([]string{}, accF[cl]...), append([]string{}, accM[cl]...)
				sort.Strings(x)
				sort.Strings(y)
				if strings.Join(x, "|") != strings.Join(y, "|") {
					return false
				}
			}
			return true
		}
		for i := range fs {
			where := fmt.Sprintf("step %d (%s) of %v", i-len(r.Ramp)+1, fs[i].Op.String(), histStrings(hist))
			fe, me := evs(fs[i].Events), evs(mm[i].Events)
			if fs[i].Op.Cmd == nil {
				for cl, l := range fe {
					accF[cl] = append(accF[cl], l...)
				}
				for cl, l := range me {
					accM[cl] = append(accM[cl], l...)
				}
				continue
			}
			if !same() {
				continue
			}
			for _, cl := range []string{"a", "b", "c", "d"} {
				if strings.Join(fe[cl], " | ") != strings.Join(me[cl], " | ") {
					return []explore.Violation{{Sig: prefix + ":connection-replies-differ-from-in-memory", Msg: fmt.Sprintf("%s: over its real connection client %s received [%s]; the same history through in-memory protocol objects gives it [%s]", where, cl, strings.Join(fe[cl], " | "), strings.Join(me[cl], " | "))}}
				}
			}
			if fs[i].Snap != nil && mm[i].Snap != nil && keys(fs[i].Snap) != keys(mm[i].Snap) {
				return []explore.Violation{{Sig: prefix + ":connection-state-differs-from-in-memory", Msg: fmt.Sprintf("%s: with real connections the keys are [%s]; the same history through in-memory protocol objects leaves [%s]", where, keys(fs[i].Snap), keys(mm[i].Snap))}}
			}
		}
		if r.Drained != nil && mr.Drained != nil {
			// A hold whose deadline falls near the end of the history ends by time in one execution and by the drain's
			// unlock in the other (a shortened hold may be ended up to 10 s late, and the two executions' sweepers are
			// not in step): the drain's own replies are left out, and so is an expiry notice for a LockId that the other
			// execution's drain released.
			drainFreed := func(es []hapi.Event) map[string]bool {
				m := map[string]bool{}
				for _, e := range es {
					if e.Req >= 200 && e.Cmd == 2 && e.Result == 0 {
						m[fmt.Sprintf("%s/%x/%x", e.Client, e.Key[15], e.LockId[15])] = true
					}
				}
				return m
			}
			freedF, freedM := drainFreed(r.DrainEv), drainFreed(mr.DrainEv)
			filter := func(m map[string][]string, es []hapi.Event, otherFreed map[string]bool) map[string][]string {
				out := map[string][]string{}
				var keep []hapi.Event
				for _, e := range es {
					if e.Req >= 200 {
						continue
					}
					keep = append(keep, e)
				}
				for cl, l := range evs(keep) {
					out[cl] = append(out[cl], l...)
				}
				for cl, l := range m {
					for _, x := range l {
						drop := false
						if strings.Contains(x, "=EXPRIED ") {
							for k := range otherFreed {
								p := strings.Split(k, "/")
								if p[0] == cl && strings.Contains(x, " id"+p[2]+" ") && strings.Contains(x, " key"+p[1]+" ") {
									drop = true
								}
							}
						}
						if !drop {
							out[cl] = append(out[cl], x)
						}
					}
				}
				return out
			}
			accF, accM = filter(accF, r.DrainEv, freedM), filter(accM, mr.DrainEv, freedF)
			if !same() {
				for _, cl := range []string{"a", "b", "c", "d"} {
					x, y := append([]string{}, accF[cl]...), append([]string{}, accM[cl]...)
					sort.Strings(x)
					sort.Strings(y)
					if strings.Join(x, "|") != strings.Join(y, "|") {
						return []explore.Violation{{Sig: prefix + ":connection-replies-differ-from-in-memory", Msg: fmt.Sprintf("history %v: over the clock steps and the final drain client %s received over its real connection [%s]; through in-memory protocol objects [%s]", histStrings(hist), cl, strings.Join(x, " | "), strings.Join(y, " | "))}}
					}
				}
			}
		}
		return nil
	}
}

// OracleRefMem is OracleRef for in-memory executions only: over real connections the order of replies to
// different clients within one step is not observable, so full-node executions are judged differentially.
func OracleRefMem(o RefOpts) SeqOracle {
	ref := OracleRef(o)
	return func(r *SeqRun) []explore.Violation {
		if r.Spec.Full {
			return nil
		}
		return ref(r)
	}
}

// isAsync: a TIMEOUT that is not the direct answer of the step (kept simple: text alphabets contain no waits).
func isAsync(e hapi.Event, all []hapi.Event) bool { return false }
