package checks

import (
	"encoding/json"
	"fmt"
	"strings"

	"github.com/snower/slock/protocol"
	"verif/explore"
	"verif/hapi"
	"verif/vrt"
	"verif/vrt/vnet"
	"verif/wire"
)

// Two followers, one of them slow: follower 1 is connected and caught up; follower 2 joins over a connection
// whose socket buffer is small and whose reader is stalled after `stallAt` bytes, so the leader's sender for
// follower 2 blocks in the middle of the transfer. Meanwhile the leader commits further records and goes quiet.
// Follower 1 is connected and healthy: once the leader is quiescent it must hold everything, whatever follower
// 2's sender is doing; after the stall ends follower 2 must converge too.
type c09TwoArg struct {
	StallAt int `json:"s"` // bytes of the leader->follower-2 stream delivered before its reader stalls
}

func c09TwoCases(quick bool) []EnumCase {
	var out []EnumCase
	step := 96
	if !quick {
		step = 16
	}
	for s := 0; s <= 1600; s += step {
		out = append(out, mkCase(fmt.Sprintf("two-followers/stall-at-%d", s), c09TwoArg{s}))
	}
	return out
}

func evalC09Two(c *Ctx, cs EnumCase) EnumResult {
	var a c09TwoArg
	if err := json.Unmarshal(cs.Arg, &a); err != nil {
		return EnumResult{Err: err.Error()}
	}
	z := func(cmd hapi.Cmd) hapi.Cmd { return withEF(cmd, efZeroAof) }
	var engErr string
	var atQuiet, atEnd [3]string
	rt := vrt.Run(vrt.Options{MaxPoints: 600_000_000}, func() {
		lc := hapi.Config{Name: "n0", Port: 5658, FastKeys: 4, Concurrent: 1}
		leader := hapi.Factories["n0"](lc)
		if err := leader.Start(); err != nil {
			engErr = err.Error()
			return
		}
		vrt.AdvanceTo(1300 * ms)
		cn, _ := wire.Dial(nodeAddr(0))
		_ = cn.Send(make64(protocol.COMMAND_PING))
		val := protocol.NewLockCommandDataSetString(strings.Repeat("v", 300)).Data
		for i := 0; i < 4; i++ {
			_ = cn.Send(wire.BinFrame(z(hapi.Cmd{Type: 1, Req: byte(1 + i), Key: byte(1 + i), Id: 1, Expried: 600, Data: val})))
		}
		f1 := hapi.Factories["n1"](hapi.Config{Name: "n1", Port: 5659, FastKeys: 4, Concurrent: 1, SlaveOf: nodeAddr(0)})
		if err := f1.Start(); err != nil {
			engErr = err.Error()
			return
		}
		vrt.AdvanceTo(vrt.Elapsed() + 2*sec)
		if f1.StateName() != "follower" {
			engErr = "follower 1 did not sync"
			return
		}
		// follower 2 joins over a link with a 256-byte socket buffer whose reader stalls after StallAt bytes
		var link2 *vnet.Link
		vnet.OnLink(func(l *vnet.Link) {
			if l.DialGroup == "n2" && l.ListenAddr == nodeAddr(0) && link2 == nil {
				link2 = l
				l.BtoA.Cap = 256
			}
		})
		f2 := hapi.Factories["n2"](hapi.Config{Name: "n2", Port: 5660, FastKeys: 4, Concurrent: 1, SlaveOf: nodeAddr(0)})
		stalled := false
		vrt.GoN("stall-follower-2", func() {
			vrt.R.Block(func() bool { return link2 != nil && link2.BtoA.Read >= a.StallAt })
			link2.BtoA.Hold = true
			stalled = true
		})
		if err := f2.Start(); err != nil {
			engErr = err.Error()
			return
		}
		vrt.AdvanceTo(vrt.Elapsed() + 500*ms)
		for i := 0; i < 5; i++ {
			_ = cn.Send(wire.BinFrame(z(hapi.Cmd{Type: 1, Req: byte(20 + i), Key: byte(20 + i), Id: 2, Expried: 600})))
		}
		vrt.AdvanceTo(vrt.Elapsed() + 3*sec) // the leader is quiet now
		atQuiet = [3]string{holdsOnly(leader.Snapshot()), holdsOnly(f1.Snapshot()), fmt.Sprint(stalled)}
		if link2 != nil {
			link2.BtoA.Hold = false
			link2.BtoA.Cap = 0
		}
		vrt.AdvanceTo(vrt.Elapsed() + 20*sec)
		atEnd = [3]string{holdsOnly(leader.Snapshot()), holdsOnly(f1.Snapshot()), holdsOnly(f2.Snapshot())}
	})
	if engErr != "" {
		return EnumResult{Err: engErr}
	}
	res := EnumResult{Nontrivial: true, Obs: fmt.Sprintf("stalled=%s; follower 2 at the end [%s]", atQuiet[2], atEnd[2])}
	if rt.Crash != nil {
		res.Viol = append(res.Viol, explore.Violation{Sig: "C09:crash", Msg: rt.Crash.Value + "\n" + firstLines(rt.Crash.Stack, 12)})
		return res
	}
	what := fmt.Sprintf("follower 1 caught up; follower 2 joins over a slow connection whose reader stalls after %d bytes; five more records are committed, then the leader is quiet", a.StallAt)
	if !sameHolds(atQuiet[0], atQuiet[1]) {
		res.Viol = append(res.Viol, explore.Violation{Sig: "C09:connected-follower-left-behind", Msg: fmt.Sprintf("%s: 3 s later the leader holds [%s] but the connected, healthy follower 1 holds [%s] (follower 2's reader stalled: %s)", what, atQuiet[0], atQuiet[1], atQuiet[2])})
	}
	if !sameHolds(atEnd[0], atEnd[1]) || !sameHolds(atEnd[0], atEnd[2]) {
		res.Viol = append(res.Viol, explore.Violation{Sig: "C09:follower-differs-from-leader", Msg: fmt.Sprintf("%s; 20 s after the stall ended the leader holds [%s], follower 1 [%s], follower 2 [%s]", what, atEnd[0], atEnd[1], atEnd[2])})
	}
	return res
}
