package checks

import (
	"fmt"
	"sort"

	"verif/explore"
	"verif/hapi"
)

// ---------- sequential reply-multiset oracle (C03) over a whole drained history

// c03ConnAlphabet: requests whose commands outlive the request on the server (holds, queued requests) mixed
// with requests that replace a hold's command (update flag, re-entrant re-lock) on one connection, a second
// connection queueing behind, and pauses long enough for notices.
func c03ConnAlphabet() []SeqOp {
	upd := L(0, 1, 1, 0, 1, 0, 0)
	upd.Flag = 0x02
	upd2 := L(0, 1, 1, 0, 8, 0, 1)
	upd2.Flag = 0x02
	return []SeqOp{
		op(0, L(0, 1, 1, 0, 20, 0, 1)),
		op(0, upd),
		op(0, upd2),
		op(0, L(0, 2, 2, 0, 4, 0, 0)),
		op(1, L(0, 1, 3, 5, 4, 0, 0)),
		op(1, L(0, 2, 4, 0, 4, 0, 0)),
		op(0, U(0, 1, 1)),
		op(0, U(0, 2, 2)),
		op(0, hapi.Cmd{Type: 2, Key: 1, Id: 3, Flag: 0x02}),
		tick(2 * sec), tick(6 * sec),
	}
}

func SeqOracleC03(r *SeqRun) []explore.Violation {
	if r.Drained == nil {
		return nil
	}
	type rk struct {
		client string
		req    byte
	}
	sent := map[rk]hapi.Cmd{}
	var evs []hapi.Event
	for _, st := range append(append([]SeqStep{}, r.Ramp...), r.Steps...) {
		if st.Op.Cmd != nil {
			sent[rk{clientName(st.Op.Client), st.Op.Cmd.Req}] = *st.Op.Cmd
		}
		evs = append(evs, st.Events...)
	}
	evs = append(evs, r.DrainEv...)
	var vs []explore.Violation
	term := map[rk][]hapi.Event{}
	expr := map[rk]int{}
	for _, e := range evs {
		if e.Req >= 200 {
			continue // the drain's own unlocks
		}
		k := rk{e.Client, e.Req}
		cmd, ok := sent[k]
		if !ok {
			vs = append(vs, explore.Violation{Sig: "C03:foreign-request-id", Msg: fmt.Sprintf("client %s received %s for RequestId %d which it never sent", e.Client, hapi.ResultName(e.Result), e.Req)})
			continue
		}
		if e.Result == 9 && cmd.Type == 1 {
			expr[k]++
			continue
		}
		term[k] = append(term[k], e)
	}
	var keys []rk
	for k := range sent {
		keys = append(keys, k)
	}
	sort.Slice(keys, func(i, j int) bool { return keys[i].req < keys[j].req })
	for _, k := range keys {
		ts := term[k]
		kind := ""
		if c := sent[k]; c.Type == 1 && c.TimeoutFlag&tfAck != 0 {
			kind = "/ack-required-lock"
			if c.Flag&0x02 != 0 {
				kind = "/ack-required-update"
			} else if len(ts) > 0 && ts[0].LRCount > 1 {
				kind = "/ack-required-relock"
			}
		}
		if len(ts) == 0 {
			vs = append(vs, explore.Violation{Sig: "C03:no-terminal-reply" + kind, Msg: fmt.Sprintf("request %s of client %s never got a terminal reply although the engine was drained", sent[k].String(), k.client)})
		}
		if len(ts) > 1 {
			vs = append(vs, explore.Violation{Sig: "C03:duplicate-terminal-reply" + kind, Msg: fmt.Sprintf("request %s of client %s got %d terminal replies: %s", sent[k].String(), k.client, len(ts), evStr(ts))})
		}
		if expr[k] > 1 {
			vs = append(vs, explore.Violation{Sig: "C03:duplicate-expried", Msg: fmt.Sprintf("request %s of client %s drew %d EXPRIED notices", sent[k].String(), k.client, expr[k])})
		}
		if expr[k] > 0 && len(ts) > 0 && !(ts[0].Result == 0 || (ts[0].Result == 5 && sent[k].Flag&0x02 != 0)) {
			vs = append(vs, explore.Violation{Sig: "C03:expried-without-grant", Msg: fmt.Sprintf("request %s of client %s drew EXPRIED but its terminal reply was %s", sent[k].String(), k.client, evStr(ts))})
		}
	}
	return dedupe(vs)
}

// SeqOracleC04: at every quiescent step no key has an admissible head waiter.
func SeqOracleC04(r *SeqRun) []explore.Violation {
	var vs []explore.Violation
	for i, st := range r.Steps {
		if st.Snap == nil {
			continue
		}
		for _, k := range st.Snap.Keys {
			if len(k.Waiters) == 0 {
				continue
			}
			w := k.Waiters[0]
			if w.TimeoutFlag&0x0200 != 0 && len(k.Holds) == 0 {
				continue
			}
			if admissible(k, w.Count) {
				vs = append(vs, explore.Violation{Sig: "C04:lost-wakeup", Msg: fmt.Sprintf("after step %d (%s): key %x has live head waiter id%x (Count %d) although it is admissible: holders %s", i+1, st.Op.String(), k.Key[15], w.LockId[15], w.Count, holdsStr(k))})
			}
		}
	}
	return dedupe(vs)
}

// SeqOracleC17: STATE counters equal the census after every step; a drained engine is empty.
func SeqOracleC17(r *SeqRun) []explore.Violation {
	var vs []explore.Violation
	chk := func(name string, s *hapi.Snapshot) {
		for _, d := range s.DBs {
			if int(d.LockedCount) != d.CensusLocked {
				vs = append(vs, explore.Violation{Sig: "C17:lockedcount", Msg: fmt.Sprintf("%s: db%d STATE.LockedCount=%d but %d holds outstanding", name, d.DB, d.LockedCount, d.CensusLocked)})
			}
			if int(d.WaitCount) != d.CensusWait {
				vs = append(vs, explore.Violation{Sig: "C17:waitcount", Msg: fmt.Sprintf("%s: db%d STATE.WaitCount=%d but %d live queued requests", name, d.DB, d.WaitCount, d.CensusWait)})
			}
			if int(d.KeyCount) != d.CensusKeys {
				vs = append(vs, explore.Violation{Sig: "C17:keycount", Msg: fmt.Sprintf("%s: db%d STATE.KeyCount=%d but %d live keys", name, d.DB, d.KeyCount, d.CensusKeys)})
			}
			if d.Misfiled > 0 {
				vs = append(vs, explore.Violation{Sig: "C17:timer-table-corrupt", Msg: fmt.Sprintf("%s: the timer tables of db%d are inconsistent:%s", name, d.DB, d.MisfiledDetail)})
			}
			if d.Orphans > 0 {
				vs = append(vs, explore.Violation{Sig: "C17:freed-record-reachable", Msg: fmt.Sprintf("%s: db%d %d freed request records still reachable:%s", name, d.DB, d.Orphans, d.Detail)})
			}
		}
	}
	for i, st := range r.Steps {
		if st.Snap != nil {
			chk(fmt.Sprintf("after step %d (%s)", i+1, st.Op.String()), st.Snap)
		}
	}
	if r.Drained != nil {
		chk("drained", r.Drained)
		er := &EngRun{Final: r.Drained}
		vs = append(vs, OracleC17Drained(er)...)
	}
	return dedupe(vs)
}

// ---------- alphabets

func c04Alphabet(quick bool) []SeqOp {
	var a []SeqOp
	// a holder to queue behind, queued requests with mixed Count / priority / timeouts, hold endings
	a = append(a,
		op(0, L(0, 1, 1, 0, 4, 0, 0)),
		op(0, L(0, 1, 1, 0, 4, 2, 0)),
		op(1, L(0, 1, 2, 6, 4, 0, 0)),
		op(1, L(0, 1, 3, 2, 4, 0, 0)),
		op(1, L(0, 1, 4, 6, 4, 2, 0)),
		op(1, L(0, 1, 5, 6, 0, 2, 0)), // queued with expiry 0: granted without a hold
		op(1, withTF(L(0, 1, 6, 6, 4, 0, 5), 0x10)),
		op(1, withTF(L(0, 1, 7, 6, 4, 2, 1), 0x10)),
		op(0, U(0, 1, 1)),
		op(0, hapi.Cmd{Type: 2, Key: 1, Id: 9, Flag: 0x01}),
		op(0, hapi.Cmd{Type: 2, Key: 1, Id: 2, Flag: 0x02}),
		op(0, L(0, 1, 1, 0, 4, 1, 1)),                      // re-enterable holder on a counting key (depth 2 fills it)
		op(0, hapi.Cmd{Type: 2, Key: 1, Id: 1, Rcount: 1}), // releases one level: a slot becomes free although the holder stays
		op(1, L(0, 1, 8, 6, 4, 1, 0)),                      // fits into that slot
		op(1, withTF(L(0, 1, 19, 6, 4, 2, 5), 0x10)),       // fits next to a Count-2 holder, priority EQUAL to a queued exclusive request's: must not pass it
		op(1, withTF(L(0, 1, 20, 6, 4, 2, 0), 0x10)),       // the same with priority 0 (equal to every unflagged request)
		tick(1*sec), tick(3*sec),
	)
	if !quick {
		a = append(a, op(1, withTF(L(0, 1, 9, 6, 4, 0, 5), 0x10)), op(0, U(0, 1, 4)), op(1, L(0, 1, 1, 6, 4, 1, 0)))
	}
	return a
}

func rampWaiters(n int, prio bool) []SeqOp {
	r := []SeqOp{op(0, L(0, 1, 1, 0, 60, 0, 0))}
	for i := 1; i <= n; i++ {
		c := L(0, 1, byte(20+i), 50, 30, 0, 0)
		if prio && i == n {
			c = withTF(c, 0x10)
			c.Rcount = 3
		}
		r = append(r, op(1, c))
	}
	return r
}

func rampWaitAlphabet(n int) []SeqOp {
	return []SeqOp{
		op(0, U(0, 1, 1)),
		op(0, hapi.Cmd{Type: 2, Key: 1, Id: 250, Flag: 0x01}),
		op(0, hapi.Cmd{Type: 2, Key: 1, Id: 21, Flag: 0x02}),
		op(0, hapi.Cmd{Type: 2, Key: 1, Id: byte(20 + n), Flag: 0x02}),
		op(0, hapi.Cmd{Type: 2, Key: 1, Id: byte(20 + (n+1)/2), Flag: 0x02}),
		op(1, L(0, 1, 251, 50, 30, 0, 0)),
		op(1, withTF(L(0, 1, 252, 50, 30, 0, 9), 0x10)),
		op(1, L(0, 1, 253, 1, 30, 1, 0)),
		tick(2 * sec),
	}
}

func c04Specs(quick bool) []*SeqSpec {
	cfg := hapi.Config{FastKeys: 1, Concurrent: 1}
	d, rd := 5, 3
	ramps := []int{7, 8, 9}
	if !quick {
		d, rd = 6, 4
		ramps = []int{7, 8, 9, 127, 128, 129, 130, 145, 146, 147}
	}
	specs := []*SeqSpec{{Name: "queue-order", Cfg: cfg, Alphabet: c04Alphabet(quick), Depth: d, MaxStates: 600000, Drain: true}}
	// requests that only wait for the key to become free (expiry 0: answered SUCCED without a hold, as the
	// client's Event.Wait sends them): the wake-up pass must go on past them
	zd := 6
	if !quick {
		zd = 7
	}
	specs = append(specs, &SeqSpec{Name: "zero-expiry-waiters", Cfg: cfg, Depth: zd, Drain: true, Alphabet: []SeqOp{
		op(0, L(0, 1, 1, 0, 4, 0, 0)),
		op(1, L(0, 1, 10, 6, 0, 0, 0)),
		op(1, L(0, 1, 11, 6, 0, 0, 0)),
		op(1, L(0, 1, 12, 6, 0, 1, 0)),
		op(1, L(0, 1, 13, 6, 4, 0, 0)),
		op(1, withTF(L(0, 1, 14, 6, 0, 0, 3), 0x10)),
		op(0, U(0, 1, 1)),
		op(0, U(0, 1, 13)),
		tick(2 * sec),
	}})
	// the holder itself makes room: it raises its Count by an update or by a re-entrant lock while requests are queued
	specs = append(specs, &SeqSpec{Name: "holder-raises-count", Cfg: cfg, Depth: zd - 1, Drain: true, Alphabet: []SeqOp{
		op(0, L(0, 1, 1, 0, 30, 0, 1)),
		op(1, L(0, 1, 2, 6, 30, 1, 0)),
		op(1, L(0, 1, 3, 6, 30, 2, 0)),
		op(0, hapi.Cmd{Type: 1, Key: 1, Id: 1, Flag: 0x02, Expried: 30, Count: 1, Rcount: 1}), // update: Count 0 -> 1
		op(0, L(0, 1, 1, 0, 30, 2, 1)), // re-entrant lock: depth 2, Count 2
		op(0, hapi.Cmd{Type: 2, Key: 1, Id: 1, Rcount: 1}),
		op(0, U(0, 1, 1)),
		tick(2 * sec),
	}})
	// requests that wait for the key to be TAKEN (wait-when-unlocked flag, as Event.Wait of a default-clear event
	// sends them): they queue on a free key; one of them timing out or being cancelled must not release the others
	specs = append(specs, &SeqSpec{Name: "wait-when-unlocked-waiters", Cfg: cfg, Depth: zd, Drain: true, Alphabet: []SeqOp{
		op(1, withTF(L(0, 1, 15, 2, 0, 1, 0), 0x0200)),
		op(1, withTF(L(0, 1, 16, 6, 0, 1, 0), 0x0200)),
		op(0, withTF(L(0, 1, 17, 9, 0, 1, 0), 0x0200)),
		op(0, hapi.Cmd{Type: 2, Key: 1, Id: 16, Flag: 0x02}),
		op(0, func() hapi.Cmd { c := L(0, 1, 1, 0, 4, 1, 0); c.Flag = 0x02; return c }()),
		op(0, L(0, 1, 1, 0, 4, 1, 0)),
		op(0, U(0, 1, 1)),
		tick(3 * sec), tick(5 * sec),
	}})
	specs = append(specs, &SeqSpec{Name: "queue-order-over-connections", Cfg: cfg, Alphabet: c04Alphabet(quick), Depth: d - 2, Drain: true, Full: true, NoDedupe: true, MaxStates: 600000})
	if quick {
		// a FIFO queue that has outgrown its inline buffer (143 entries, the rest in the overflow ring) when the first
		// waiter of another priority arrives and the queue is rebuilt as priority rings
		specs = append(specs, &SeqSpec{Name: "ramp-146-waiters-prio", Cfg: cfg, Ramp: rampWaiters(146, true), Alphabet: rampWaitAlphabet(146), Depth: 2, Drain: true, DrainFor: 70 * sec})
	}
	for _, n := range ramps {
		specs = append(specs, &SeqSpec{Name: fmt.Sprintf("ramp-%d-waiters", n), Cfg: cfg, Ramp: rampWaiters(n, false), Alphabet: rampWaitAlphabet(n), Depth: rd, Drain: true, DrainFor: 70 * sec})
		specs = append(specs, &SeqSpec{Name: fmt.Sprintf("ramp-%d-waiters-prio", n), Cfg: cfg, Ramp: rampWaiters(n, true), Alphabet: rampWaitAlphabet(n), Depth: rd, Drain: true, DrainFor: 70 * sec})
	}
	return specs
}

// extra concurrent scenarios for waiters
func waitSchedSpecs(quick bool) []*EngSpec {
	cfg := hapi.Config{FastKeys: 1, Concurrent: 1}
	ul := unlockAll([]byte{1}, []byte{1, 2, 3, 4})
	specs := []*EngSpec{
		{Name: "cancel-vs-timeout-tick", Cfg: cfg, Fine: true, Setup: []Step{C(L(9, 1, 1, 0, 10, 0, 0)), C(L(8, 1, 2, 1, 10, 0, 0))},
			Threads: [][]Step{{At(3000 * ms), C(hapi.Cmd{Type: 2, Req: 1, Key: 1, Id: 2, Flag: 0x02})}, {At(3000 * ms), C(L(2, 1, 3, 0, 10, 0, 0))}}, Unlock: ul},
		{Name: "unlock-vs-timeout-tick", Cfg: cfg, Fine: true, Setup: []Step{C(L(9, 1, 1, 0, 10, 0, 0)), C(L(8, 1, 2, 1, 10, 0, 0)), C(L(7, 1, 3, 5, 10, 0, 0))},
			Threads: [][]Step{{At(3000 * ms), C(U(1, 1, 1))}, {At(3000 * ms), C(L(2, 1, 4, 3, 10, 0, 0))}}, Unlock: ul},
		{Name: "two-unlockers-count1", Cfg: cfg, Fine: true, Setup: []Step{C(L(9, 1, 1, 0, 10, 1, 0)), C(L(8, 1, 2, 0, 10, 1, 0)), C(L(7, 1, 3, 5, 10, 1, 0)), C(L(6, 1, 4, 5, 10, 1, 0))},
			Threads: [][]Step{{C(U(1, 1, 1))}, {C(U(2, 1, 2))}}, Unlock: ul},
	}
	if !quick {
		specs = append(specs, &EngSpec{Name: "unlock-newcomer-canceller", Cfg: cfg, Fine: true, Setup: []Step{C(L(9, 1, 1, 0, 10, 0, 0)), C(L(8, 1, 2, 5, 10, 0, 0))},
			Threads: [][]Step{{C(U(1, 1, 1))}, {C(L(2, 1, 3, 2, 10, 0, 0))}, {C(hapi.Cmd{Type: 2, Req: 3, Key: 1, Id: 2, Flag: 0x02})}}, Unlock: ul})
	}
	return specs
}

type comboDef struct {
	id          string
	level       string
	sched       func(q bool) *SchedPlan
	seq         func(q bool) *SeqPlan
	enum        func(q bool) []*EnumPlan // optional
	funcs       func(q bool) *FuncPlan   // optional: scenarios that are not engine specs (full nodes, real connections)
	rule        string
	note        string
	assumptions []string
}

func comboCheck(d comboDef) {
	Registry[d.id] = func(c *Ctx) int {
		sp, qp := d.sched(c.Quick()), d.seq(c.Quick())
		var eps []*EnumPlan
		if d.enum != nil {
			eps = d.enum(c.Quick())
		}
		var fp *FuncPlan
		if d.funcs != nil {
			fp = d.funcs(c.Quick())
		}
		if c.Worker >= 0 {
			if fp != nil && fp.find(c.Scen) != nil {
				return fp.Worker(c)
			}
			if sp.find(c.Scen) != nil {
				return sp.Worker(c)
			}
			for _, ep := range eps {
				if ep.Name == c.Scen {
					return ep.Worker(c)
				}
			}
			return qp.Worker(c)
		}
		if len(c.Args) == 2 && c.Args[0] == "--replay" {
			return sp.ReplayFile(c, c.Args[1])
		}
		sr := sp.Master(c)
		if sr.EngineErr != "" {
			return EngineError("%s", sr.EngineErr)
		}
		qs := qp.Master(c)
		if qs.EngineErr != "" {
			return EngineError("%s", qs.EngineErr)
		}
		cov := sr.Coverage(d.rule, sp, c.Quick())
		for k, v := range qs.Coverage(qp, d.note) {
			if k == "samples" {
				cov["samples"] = append(cov["samples"].([]interface{}), v.([]interface{})...)
				continue
			}
			if k == "exhaustive" {
				cov[k] = cov[k].(bool) && v.(bool)
				continue
			}
			cov[k] = v
		}
		cov["evaluations"] = sr.Total.Executions + int64(qs.Trans)
		viol := sr.Violations + qs.Violations
		if fp != nil {
			fr := fp.Master(c)
			if fr.EngineErr != "" {
				return EngineError("%s", fr.EngineErr)
			}
			viol += fr.Violations
			cov["connection_scenarios"] = fp.Coverage(fr, "deviation-bounded schedule DFS in fine mode of server threads on a full node with real connections", c.Quick())
			cov["evaluations"] = sr.Total.Executions + int64(qs.Trans) + fr.Total.Executions
		}
		if len(eps) > 0 {
			sum := &EnumSummary{}
			for _, ep := range eps {
				ep.Master(c, sum)
				if sum.EngineErr != "" {
					return EngineError("%s", sum.EngineErr)
				}
			}
			cov["enumerations"] = sum.Coverage("")
			ev := sr.Total.Executions + int64(qs.Trans) + int64(sum.Evaluations)
			if fe, ok := cov["connection_scenarios"].(map[string]interface{}); ok {
				if n, ok := fe["evaluations"].(int64); ok {
					ev += n
				}
			}
			cov["evaluations"] = ev
			viol += sum.Violations
			c.ReportKnown(sum.KnownHits)
		}
		c.WriteEvidence(d.level, cov, d.assumptions, viol)
		fmt.Printf("%s %s: schedules: %d executions / %d distinct traces; histories: %d states / %d transitions; %d violations\n", d.id, c.Tier, sr.Total.Executions, len(sr.Total.Traces), qs.States, qs.Trans, viol)
		if viol > 0 {
			return 1
		}
		return 0
	}
}

func schedBound(s *EngSpec, q bool) int {
	if q || len(s.Threads) > 2 {
		return 2
	}
	return 3
}

// schedCapT: per-worker execution caps for the quick and the thorough tier.
func schedCapT(per, thorough int64) func(s *EngSpec, q bool) int64 {
	return func(s *EngSpec, q bool) int64 {
		if q {
			return per
		}
		return thorough
	}
}

func schedCap(per int64) func(s *EngSpec, q bool) int64 {
	return func(s *EngSpec, q bool) int64 {
		if q {
			return per
		}
		return 400000
	}
}

var commonAssumptions = []string{
	"runtime is sequentially consistent; data races are outside this check",
	"deviation = any non-default scheduling choice; sequential histories run each request to quiescence",
	"in-memory client connections (MemWaiterServerProtocol result callback); wire-level connections are covered by the C13/C18/C19 harness",
}

func c03AckAlphabet() []SeqOp {
	return []SeqOp{
		op(0, withEF(L(0, 1, 1, 0, 30, 0, 2), efZeroAof)),          // persisted at once, no acknowledgement asked
		op(0, L(0, 1, 1, 0, 30, 0, 2)),                             // persisted after the default delay
		op(0, withTF(L(0, 1, 1, 2, 30, 0, 2), tfAck)),              // first lock or re-entrant lock
		op(0, withF(withTF(L(0, 1, 1, 2, 40, 0, 2), tfAck), 0x02)), // update of the hold's terms
		op(1, withTF(L(0, 1, 2, 2, 30, 1, 0), tfAck)),              // another LockId (waits behind id 1)
		op(0, withTF(L(0, 2, 3, 2, 0, 0, 0), tfAck)),               // expiry 0: nothing is held
		op(0, U(0, 1, 1)), op(1, U(0, 1, 2)), tick(3 * sec)}
}

func init() {
	comboCheck(comboDef{id: "C03", level: "exploration",
		sched: func(q bool) *SchedPlan {
			return &SchedPlan{Specs: append(coreSchedSpecs(q), waitSchedSpecs(q)...), Oracles: []Oracle{OracleC03}, Bound: schedBound, MaxExec: schedCap(2500)}
		},
		seq: func(q bool) *SeqPlan {
			d := 4
			if !q {
				d = 5
			}
			cfg := hapi.Config{FastKeys: 1, Concurrent: 1}
			return &SeqPlan{Specs: []*SeqSpec{
				{Name: "replies-ownership", Cfg: cfg, Alphabet: c02Alphabet(q), Depth: d, Drain: true, MaxStates: 400000},
				{Name: "replies-queue", Cfg: cfg, Alphabet: c04Alphabet(q), Depth: d, Drain: true, MaxStates: 400000},
				// a millisecond-unit wait of more than 3 s is handed from the millisecond wheel to the second wheel
				{Name: "replies-millisecond-waits", Cfg: cfg, Depth: d, Drain: true, MaxStates: 400000, Alphabet: []SeqOp{
					op(0, L(0, 1, 1, 0, 4, 0, 0)), op(0, L(0, 1, 1, 0, 30, 0, 0)),
					op(1, withTF(L(0, 1, 2, 3500, 4, 0, 0), fMilli)), op(1, withTF(L(0, 1, 3, 5999, 4, 0, 0), fMilli)), op(1, withTF(L(0, 1, 4, 900, 4, 0, 0), fMilli)),
					op(0, U(0, 1, 1)), op(0, hapi.Cmd{Type: 2, Key: 1, Id: 2, Flag: 0x02}), op(0, hapi.Cmd{Type: 2, Key: 1, Id: 3, Flag: 0x02}),
					tick(200 * ms), tick(1 * sec), tick(3 * sec)}},
				// the same kind of histories over REAL binary connections of a full node (pure tree: the state of
				// a connection's command pool is not part of the canonical state), compared reply by reply and
				// state by state with the in-memory execution
				{Name: "binary-connection-histories", Cfg: cfg, Depth: d - 1, Drain: true, Full: true, NoDedupe: true, MaxStates: 400000, Alphabet: c03ConnAlphabet()},
				// acknowledgement-required requests on fresh and on established (persisted) holds: first locks, re-entrant
				// locks and updates; the node has no followers (its own log write is the only acknowledgement), or every
				// database waits for one follower acknowledgement that never comes
				{Name: "ack-required-requests", Cfg: cfg, Depth: d, Drain: true, DrainFor: 70 * sec, MaxStates: 400000, Alphabet: c03AckAlphabet()},
				// acknowledgement-required requests queued on a counting key and granted while another holder stays (with
				// and without the never-persist flag, which exempts a request from the acknowledgement wait)
				{Name: "ack-required-waiters-on-semaphore", Cfg: cfg, Depth: d, Drain: true, DrainFor: 70 * sec, MaxStates: 400000, Alphabet: []SeqOp{
					op(0, withEF(L(0, 1, 1, 0, 30, 1, 0), efZeroAof)), op(1, withEF(L(0, 1, 3, 0, 30, 1, 0), efZeroAof)),
					op(1, withEF(withTF(L(0, 1, 4, 5, 30, 1, 0), tfAck), efNeverAof)), op(1, withTF(L(0, 1, 5, 5, 30, 1, 0), tfAck)),
					op(0, U(0, 1, 1)), op(1, U(0, 1, 3)), tick(3 * sec)}},
				{Name: "ack-required-requests-unacknowledged", Cfg: hapi.Config{FastKeys: 1, Concurrent: 1, MissingAcks: 1}, Depth: d, Drain: true, DrainFor: 70 * sec, MaxStates: 400000, Alphabet: c03AckAlphabet()},
				// from a queue of 3 / 9 live waiters: the head, the tail and a middle waiter are cancelled (also twice: an
				// answered waiter stays in the queue behind a live head until the head goes), the holder leaves, newcomers queue
				{Name: "replies-ramp-3-waiters", Cfg: cfg, Ramp: rampWaiters(3, false), Alphabet: rampWaitAlphabet(3), Depth: 3, Drain: true, DrainFor: 70 * sec},
				{Name: "replies-ramp-9-waiters-prio", Cfg: cfg, Ramp: rampWaiters(9, true), Alphabet: rampWaitAlphabet(9), Depth: 3, Drain: true, DrainFor: 70 * sec},
			}, Oracles: []SeqOracle{SeqOracleC03, OracleFullVsMem("C03")}}
		},
		enum: func(q bool) []*EnumPlan {
			return []*EnumPlan{{Name: "text-connection-replies", Cases: c03TextCases, Eval: evalC03Text}}
		},
		// several server threads answering one binary connection at once (own handler, another connection's
		// handler granting a queued request): every result exactly once, with its own fields
		funcs:       func(q bool) *FuncPlan { return c14ConnPlanFor("C03", q) },
		rule:        "schedule DFS (<=2/3 deviations) of 2-3 client threads racing the timeout/expiry sweepers, plus BFS over operation histories each extended by a drain; per connection the multiset of (RequestId, result) is checked: exactly one terminal reply per request, at most one EXPRIED per grant and only for requests that set the hold's terms, no foreign RequestId; non-trivial = at least two client threads answered",
		note:        "histories: every state is extended by unlock-all + 40 virtual seconds, then the reply multiset of the whole history is judged; text connections: every sequence of text requests (short expiries, pauses, fire-and-forget PUSH) on one connection of a full node: one reply per request, in order, carrying the request's own LOCK_ID, never an expiry notice in place of an answer",
		assumptions: commonAssumptions})

	comboCheck(comboDef{id: "C04", level: "exploration",
		sched: func(q bool) *SchedPlan {
			return &SchedPlan{Specs: append(waitSchedSpecs(q), coreSchedSpecs(q)[2:5]...), Oracles: []Oracle{OracleC04Quiescent, OracleC03}, Bound: schedBound, MaxExec: schedCap(4000)}
		},
		seq: func(q bool) *SeqPlan {
			return &SeqPlan{Specs: c04Specs(q), Oracles: []SeqOracle{OracleRefMem(RefOpts{Results: true, State: true, Prefix: "C04"}), SeqOracleC04, SeqOracleC03, OracleFullVsMem("C04")}}
		},
		rule:        "schedule DFS of unlockers, newcomers, cancellers and the timeout sweeper on one key (quiescent invariant: the live head waiter is never admissible; every queued request is answered), plus BFS over queueing histories from empty and from ramped queues (7-9 / 127-130 waiters, with and without a differing priority) compared with the reference grant order (priority first, arrival order among equals); non-trivial = at least two client threads answered",
		note:        "queue histories: result codes, the set and order of replies per step, and the live queue order after every step equal RefLockDB; each state is drained",
		assumptions: append([]string{"wait-when-unlocked (0x0200) is not in C04's alphabet: such a request is queued on a free key by design"}, commonAssumptions...)})

	comboCheck(comboDef{id: "C17", level: "model_checking",
		enum: func(q bool) []*EnumPlan {
			return []*EnumPlan{{Name: "crowded-key-fifo", Cases: c17CrowdCases, Eval: evalC17Crowd}}
		},
		sched: func(q bool) *SchedPlan {
			specs := append(coreSchedSpecs(q), waitSchedSpecs(q)...)
			// keys that live for one request only (expiry 0: granted and freed at once): one thread's key is being
			// reclaimed while the other thread's key is being created in the same shard
			cfg1 := hapi.Config{FastKeys: 1, Concurrent: 1}
			specs = append(specs,
				&EngSpec{Name: "short-lived-keys-in-one-shard", Cfg: cfg1, Fine: true,
					Threads: [][]Step{{C(L(1, 1, 1, 0, 0, 0, 0)), C(L(2, 3, 1, 0, 0, 0, 0))}, {C(L(3, 2, 2, 0, 0, 0, 0)), C(L(4, 4, 2, 0, 0, 0, 0))}}},
				&EngSpec{Name: "short-lived-keys-four-slots", Cfg: hapi.Config{FastKeys: 4, Concurrent: 1}, Fine: true,
					Threads: [][]Step{{C(L(1, 1, 1, 0, 0, 0, 0)), C(L(2, 3, 1, 0, 0, 0, 0))}, {C(L(3, 2, 2, 0, 0, 0, 0)), C(L(4, 4, 2, 0, 0, 0, 0))}}})
			// two short-lived requests for ONE key of the slow key table (the slot belongs to key 2): the second
			// request's manager is created, used and removed while the first one's removal is under way
			specs = append(specs,
				&EngSpec{Name: "short-lived-slow-key-twice", Cfg: hapi.Config{FastKeys: 1, Concurrent: 2}, Fine: true, Setup: []Step{C(L(9, 2, 9, 0, 10, 0, 0))},
					Threads: [][]Step{{C(L(1, 1, 1, 0, 0, 0, 0))}, {C(L(2, 1, 2, 0, 0, 0, 0))}}, Unlock: []hapi.Cmd{U(99, 2, 9)}})
			// a client ends a record in the very tick in which the sweeper has collected it as due: the hold's unlock on its
			// expiry tick, the waiter's grant / cancellation on its timeout tick (the key's last record goes in the sweeper)
			ulT := unlockAll([]byte{1}, []byte{1, 2, 3})
			specs = append(specs,
				&EngSpec{Name: "unlock-vs-expiry-tick", Cfg: cfg1, Fine: true, Setup: []Step{C(L(9, 1, 1, 0, 1, 0, 0))},
					Threads: [][]Step{{At(3000 * ms), C(U(1, 1, 1))}}, Unlock: ulT},
				&EngSpec{Name: "unlock-vs-expiry-tick-two-holds", Cfg: cfg1, Fine: true, Setup: []Step{C(L(9, 1, 1, 0, 1, 2, 0)), C(L(8, 1, 2, 0, 1, 2, 0))},
					Threads: [][]Step{{At(3000 * ms), C(U(1, 1, 2))}}, Unlock: ulT},
				// the key's ONLY record is a request waiting on a free key (wait-when-unlocked); it is cancelled on its timeout tick
				&EngSpec{Name: "cancel-sole-waiter-vs-timeout-tick", Cfg: cfg1, Fine: true, Setup: []Step{C(withTF(L(8, 1, 2, 1, 10, 0, 0), 0x0200))},
					Threads: [][]Step{{At(3000 * ms), C(hapi.Cmd{Type: 2, Req: 1, Key: 1, Id: 2, Flag: 0x02})}}, Unlock: ulT},
				&EngSpec{Name: "grant-and-release-vs-timeout-tick", Cfg: cfg1, Fine: true, Setup: []Step{C(L(9, 1, 1, 0, 10, 0, 0)), C(L(8, 1, 2, 1, 10, 0, 0))},
					Threads: [][]Step{{At(3000 * ms), C(U(1, 1, 1)), C(U(2, 1, 2))}}, Unlock: ulT})
			for _, s := range specs {
				s.FinalFor = 14 * sec
				s.Collect = !q
			}
			return &SchedPlan{Specs: specs, Oracles: []Oracle{OracleC17, OracleC17Drained}, Bound: schedBound, MaxExec: schedCap(2500)}
		},
		seq: func(q bool) *SeqPlan {
			d := 4
			if !q {
				d = 5
			}
			cfg := hapi.Config{FastKeys: 1, Concurrent: 1}
			return &SeqPlan{Specs: []*SeqSpec{
				{Name: "counts-ownership", Cfg: cfg, Alphabet: c02Alphabet(q), Depth: d, Drain: true, MaxStates: 400000},
				{Name: "counts-queue", Cfg: cfg, Alphabet: c04Alphabet(q), Depth: d, Drain: true, MaxStates: 400000},
				{Name: "counts-ramp-7-holders", Cfg: cfg, Ramp: rampHolders(7), Alphabet: rampAlphabet(7), Depth: 3, Drain: true, DrainFor: 70 * sec},
				{Name: "counts-ramp-9-waiters", Cfg: cfg, Ramp: rampWaiters(9, true), Alphabet: rampWaitAlphabet(9), Depth: 3, Drain: true, DrainFor: 70 * sec},
				depthCeilingSpec("counts-depth-ceiling", cfg, 4, true),
				// small FIFO queues (inline representation) in which a non-head waiter ends before the first
				// request with another priority arrives and the queue is rebuilt as a priority ring
				{Name: "counts-ramp-3-waiters-fifo", Cfg: cfg, Ramp: rampWaiters(3, false), Alphabet: rampWaitAlphabet(3), Depth: 3, Drain: true, DrainFor: 70 * sec},
				{Name: "counts-ramp-6-waiters-fifo", Cfg: cfg, Ramp: rampWaiters(6, false), Alphabet: rampWaitAlphabet(6), Depth: 3, Drain: true, DrainFor: 70 * sec},
				// over real binary connections of a full node (replies carry the counts as decoded from the wire; the
				// census after the drain covers the connection layer's own bookkeeping)
				{Name: "counts-queue-over-connections", Cfg: cfg, Alphabet: c04Alphabet(q), Depth: d - 1, Drain: true, Full: true, NoDedupe: true, MaxStates: 400000},
			}, Oracles: []SeqOracle{OracleRefMem(RefOpts{Counts: true, Prefix: "C17"}), SeqOracleC17, OracleFullVsMem("C17")}}
		},
		rule:        "schedule DFS of the C01/C03/C04 scenarios, each ending in a drain (unlock all, clock advanced past the 8-step re-check ladder and the delayed manager removal); STATE counters are compared with a census of the engine's live structures at three quiescent points; non-trivial = at least two client threads answered",
		note:        "histories: after every step LCount/LRCount of each reply equal RefLockDB and STATE.{LockedCount,WaitCount,KeyCount} equal a census taken by walking managers, holder/wait queues, timer wheels, long tables and delayed-removal queues; every state is drained and must be empty (counters 0, no value, no record left in any wheel)",
		assumptions: commonAssumptions})
}
