package checks

import (
	"fmt"
	"os"
	"testing"

	"verif/hapi"
	"verif/vrt"
)

// TestDbgC05: debugging aid. DBGC05=150 go test -run TestDbgC05 ./checks/
func TestDbgC05(t *testing.T) {
	if os.Getenv("DBGC05") == "" {
		t.Skip()
	}
	var T uint16
	fmt.Sscan(os.Getenv("DBGC05"), &T)
	vrt.Run(vrt.Options{MaxPoints: 100_000_000}, func() {
		node := hapi.Factories["n0"](hapi.Config{FastKeys: 1, Concurrent: 1})
		_ = node.StartEngine()
		a, b := node.NewMemClient("a"), node.NewMemClient("b")
		vrt.AdvanceTo(1500 * ms)
		do := func(c hapi.Client, cmd hapi.Cmd) { c.Do(cmd.Build()); vrt.Quiesce() }
		show := func(tag string) {
			fmt.Printf("t=%d %s: %s\n   events %s\n", vrt.Elapsed()/ms, tag, node.Snapshot().Canon(), evStr(node.Events()))
			node.ClearEvents()
		}
		do(a, hapi.Cmd{Type: 1, Req: 1, Key: 1, Id: 1, Expried: 0xffff, ExpriedFlag: fUnlim})
		do(b, hapi.Cmd{Type: 1, Req: 2, Key: 1, Id: 2, Timeout: T, Expried: 5})
		vrt.AdvanceTo(vrt.Elapsed() + 60*sec)
		show("W0 after 60s")
		vrt.AdvanceTo(1500*ms + int64(T)*sec + 3*sec)
		show("W0 timed out")
		do(b, hapi.Cmd{Type: 1, Req: 21, Key: 1, Id: 21, Timeout: T, Expried: 0xffff, ExpriedFlag: fUnlim})
		t1 := vrt.Elapsed()
		vrt.AdvanceTo(t1 + 50*sec)
		show("W1 after 50s")
		do(a, U(3, 1, 1))
		show("H unlocked")
		vrt.AdvanceTo(t1 + 52*sec)
		do(b, hapi.Cmd{Type: 1, Req: 22, Key: 1, Id: 22, Timeout: T, Expried: 5})
		vrt.AdvanceTo(t1 + 110*sec)
		show("W2 after 58s")
		vrt.AdvanceTo(t1 + int64(T)*sec + 3*sec)
		show("after K1")
		vrt.AdvanceTo(t1 + 52*sec + int64(T)*sec + 3*sec)
		show("after K2")
	})
}
