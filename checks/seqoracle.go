package checks

import (
	"fmt"

	"verif/explore"
	"verif/hapi"
	"verif/refmodel"
)

func toRef(c *hapi.Cmd) refmodel.Cmd {
	return refmodel.Cmd{Type: c.Type, Req: c.Req, Key: c.Key, Id: c.Id, Flag: c.Flag, Timeout: c.Timeout, TimeoutFlag: c.TimeoutFlag,
		Expried: c.Expried, ExpriedFlag: c.ExpriedFlag, Count: c.Count, Rcount: c.Rcount}
}

// RefOpts selects what the reference comparison reports (each property claims its own part).
type RefOpts struct {
	Results bool   // result codes of every reply and the set/order of replies per step   (C02, C04)
	Counts  bool   // LCount / LRCount of every reply                                      (C17, C02 for LRCount)
	State   bool   // holders (id, depth) and waiter order after every step                (C02, C04)
	Prefix  string // signature prefix, e.g. "C02"
}

// OracleRef compares the implementation with RefLockDB step by step (single db 0).
func OracleRef(o RefOpts) SeqOracle {
	return func(r *SeqRun) []explore.Violation {
		m := refmodel.New()
		var vs []explore.Violation
		add := func(sig, msg string) {
			vs = append(vs, explore.Violation{Sig: o.Prefix + ":" + sig, Msg: msg})
		}
		steps := append(append([]SeqStep{}, r.Ramp...), r.Steps...)
		for si, st := range steps {
			if len(vs) > 0 {
				break
			}
			where := fmt.Sprintf("step %d (%s)", si-len(r.Ramp)+1, st.Op.String())
			var want []refmodel.Reply
			if st.Op.Cmd != nil {
				cl := clientName(st.Op.Client)
				if st.Op.Cmd.Type == 1 {
					want = m.Lock(cl, toRef(st.Op.Cmd))
				} else {
					want = m.Unlock(cl, toRef(st.Op.Cmd))
				}
			}
			// asynchronous events are fed into the model in the order observed
			var got []hapi.Event
			pending := want
			for _, e := range st.Events {
				switch {
				case e.Result == refmodel.EXPRIED && e.Cmd == 1:
					more, err := m.Expire(e.Key[15], e.LockId[15], e.Req)
					if err != nil {
						add("bad-expried", where+": "+err.Error())
						return vs
					}
					if o.Counts && (int(e.LCount) != m.Keys[e.Key[15]].DepthSum()-granted(more) || e.LRCount != 0) {
						// LCount of the notice is taken before the wake pass
						add("expried-counts", fmt.Sprintf("%s: EXPRIED notice for id %d carries lc%d lrc%d, expected lc%d lrc0", where, e.LockId[15], e.LCount, e.LRCount, m.Keys[e.Key[15]].DepthSum()-granted(more)))
					}
					pending = append(pending, more...)
				case e.Result == refmodel.TIMEOUT && isQueued(m, e):
					more, err := m.Timeout(e.Key[15], e.Req)
					if err != nil {
						add("bad-timeout", where+": "+err.Error())
						return vs
					}
					pending = append(pending, more...)
				default:
					got = append(got, e)
				}
			}
			if o.Results {
				if len(got) != len(pending) {
					add("replies-differ", fmt.Sprintf("%s: expected replies %v, observed %s", where, pending, evStr(got)))
					return vs
				}
				for i := range got {
					w, g := pending[i], got[i]
					if w.Client != g.Client || w.Req != g.Req || w.Result != g.Result {
						add("replies-differ", fmt.Sprintf("%s: expected replies %v, observed %s", where, pending, evStr(got)))
						return vs
					}
				}
			}
			if o.Counts && len(got) == len(pending) {
				for i := range got {
					w, g := pending[i], got[i]
					if w.Client == g.Client && w.Req == g.Req && w.Result == g.Result && (w.LCount != int(g.LCount) || w.LRCount != int(g.LRCount)) {
						add("reply-counts", fmt.Sprintf("%s: reply %s:r%d=%s carries lc%d lrc%d, the true numbers are lc%d lrc%d", where, g.Client, g.Req, hapi.ResultName(g.Result), g.LCount, g.LRCount, w.LCount, w.LRCount))
						return vs
					}
				}
			}
			if o.State && st.Snap != nil {
				if msg := compareState(m, st.Snap); msg != "" {
					add("state-differs", where+": "+msg)
					return vs
				}
			}
		}
		return vs
	}
}

func granted(rs []refmodel.Reply) int {
	n := 0
	for _, r := range rs {
		if r.Result == refmodel.SUCCED && r.LRCount > 0 {
			n++
		}
	}
	return n
}

func isQueued(m *refmodel.RefLockDB, e hapi.Event) bool {
	k, ok := m.Keys[e.Key[15]]
	if !ok {
		return false
	}
	for _, w := range k.Waits {
		if w.Req == e.Req {
			return true
		}
	}
	return false
}

func compareState(m *refmodel.RefLockDB, s *hapi.Snapshot) string {
	for kb, mk := range m.Keys {
		var key [16]byte
		key[15] = kb
		ks := s.Key(0, key)
		var holds []hapi.Hold
		var waits []hapi.Waiter
		if ks != nil {
			holds, waits = ks.Holds, ks.Waiters
		}
		if len(holds) != len(mk.Holds) {
			return fmt.Sprintf("key %d: implementation has holders %s, reference has %v", kb, holdsOf(holds), mk.Holds)
		}
		for i := range holds {
			if holds[i].LockId[15] != mk.Holds[i].Id || int(holds[i].Depth) != mk.Holds[i].Depth {
				return fmt.Sprintf("key %d: implementation has holders %s, reference has %v", kb, holdsOf(holds), mk.Holds)
			}
		}
		ord := mk.Order()
		if len(waits) != len(ord) {
			return fmt.Sprintf("key %d: implementation has %d live queued requests, reference has %v", kb, len(waits), ord)
		}
		for i := range waits {
			if waits[i].LockId[15] != ord[i].Id || waits[i].Req[0] != ord[i].Req {
				return fmt.Sprintf("key %d: queue order differs: implementation %s, reference %v", kb, waitsOf(waits), ord)
			}
		}
		if ks != nil && int(ks.Locked) != mk.DepthSum() {
			return fmt.Sprintf("key %d: manager count %d, reference %d", kb, ks.Locked, mk.DepthSum())
		}
	}
	for _, ks := range s.Keys {
		if _, ok := m.Keys[ks.Key[15]]; !ok && (len(ks.Holds) > 0 || len(ks.Waiters) > 0) {
			return fmt.Sprintf("key %d exists only in the implementation", ks.Key[15])
		}
	}
	return ""
}

func holdsOf(hs []hapi.Hold) string {
	s := ""
	for _, h := range hs {
		s += fmt.Sprintf("[id%d d%d c%d]", h.LockId[15], h.Depth, h.Count)
	}
	return s
}

func waitsOf(ws []hapi.Waiter) string {
	s := ""
	for _, w := range ws {
		s += fmt.Sprintf("[id%d r%d]", w.LockId[15], w.Req[0])
	}
	return s
}
