package checks

import (
	"fmt"
	"strings"

	"verif/explore"
	"verif/hapi"
)

const (
	fMinute = 0x0040
	fMilli  = 0x0400
	fUnlim  = 0x4000
)

func unitNs(unit string, v uint16) int64 {
	switch unit {
	case "min":
		return int64(v) * 60 * sec
	case "ms":
		return int64(v) * ms
	}
	return int64(v) * sec
}

func unitFlag(unit string) uint16 {
	switch unit {
	case "min":
		return fMinute
	case "ms":
		return fMilli
	}
	return 0
}

func holder(req byte, at int64) TStep {
	return TStep{At: at, Client: 0, Cmd: hapi.Cmd{Type: 1, Req: req, Key: 1, Id: 1, Expried: 0xffff, ExpriedFlag: fUnlim}}
}

// c05Case builds one timeout case.
func c05Case(unit string, T uint16, phase int64, interf string) (string, *TimedCase) {
	cfg := hapi.Config{FastKeys: 1, Concurrent: 1}
	tb := 2*sec + phase
	Tn := unitNs(unit, T)
	w := hapi.Cmd{Type: 1, Req: 2, Key: 1, Id: 2, Timeout: T, TimeoutFlag: unitFlag(unit), Expried: 5}
	tc := &TimedCase{Cfg: cfg, Horizon: tb + Tn + 4*sec}
	tc.Steps = append(tc.Steps, holder(1, 1500*ms), TStep{At: tb, Client: 1, Cmd: w})
	hi := Tn + 2*sec
	if unit == "ms" && T < 3000 {
		hi = -1
	}
	to := Expect{Req: 2, Kind: "timeout", Lo: Tn, Hi: hi}
	switch interf {
	case "none":
		tc.Expect = []Expect{to}
		tc.ZeroWait = true
	case "unlock-after-timeout":
		// the holder is released shortly after the TIMEOUT reply: the timed-out request must not be granted
		tc.Steps = append(tc.Steps, TStep{Client: 0, Cmd: U(3, 1, 1), AfterReply: 2, AfterDelay: 300 * ms})
		tc.Expect = []Expect{to, {Req: 2, Kind: "no-grant"}}
		tc.ZeroWait = true
	case "grant-before-deadline":
		tc.Steps = append(tc.Steps, TStep{At: tb + Tn - 400*ms, Client: 0, Cmd: U(3, 1, 1)})
		tc.Expect = []Expect{{Req: 2, Kind: "granted", Lo: 0, Hi: Tn}}
		tc.Horizon = tb + Tn + 9*sec
	case "cancel":
		tc.Steps = append(tc.Steps, TStep{At: tb + Tn/2, Client: 2, Cmd: hapi.Cmd{Type: 2, Req: 3, Key: 1, Id: 2, Flag: 0x02}})
		tc.Expect = []Expect{{Req: 2, Kind: "cancelled"}}
		tc.ZeroWait = true
	case "cancel-early":
		// cancelled 50 ms after it was queued (for millisecond waits: before any hand-over between wheels)
		tc.Steps = append(tc.Steps, TStep{At: tb + 50*ms, Client: 2, Cmd: hapi.Cmd{Type: 2, Req: 3, Key: 1, Id: 2, Flag: 0x02}})
		tc.Expect = []Expect{{Req: 2, Kind: "cancelled"}}
		tc.ZeroWait = true
		tc.Horizon = tb + Tn + 6*sec
	case "grant-early":
		tc.Steps[1].Cmd.Expried, tc.Steps[1].Cmd.ExpriedFlag = 0xffff, fUnlim // the granted hold is never ended by time
		tc.Steps = append(tc.Steps, TStep{At: tb + 50*ms, Client: 0, Cmd: U(3, 1, 1)})
		tc.Expect = []Expect{{Req: 2, Kind: "granted", Lo: 0, Hi: Tn}, {Req: 2, Kind: "never-expires"}}
		tc.Horizon = tb + Tn + 6*sec
	case "second-waiter-same-tick":
		w2 := w
		w2.Req, w2.Id = 4, 3
		tc.Steps = append(tc.Steps, TStep{At: tb + 1*ms, Client: 2, Cmd: w2})
		tc.Expect = []Expect{to, {Req: 4, Kind: "timeout", Lo: Tn, Hi: hi}}
		tc.ZeroWait = true
	case "holder-update":
		tc.Steps = append(tc.Steps, TStep{At: tb + 300*ms, Client: 0, Cmd: hapi.Cmd{Type: 1, Req: 3, Key: 1, Id: 1, Flag: 0x02, Expried: 0xffff, ExpriedFlag: fUnlim, Count: 1}})
		tc.Expect = []Expect{to}
		tc.ZeroWait = true
	case "three-same-deadline-first-granted":
		// three waiters on one deadline second; shortly before it the holder unlocks, so the oldest is granted:
		// the two others must still be answered TIMEOUT on time
		tc.Clients = 3
		for i := 0; i < 3; i++ {
			wi := w
			wi.Req, wi.Id = byte(10+i), byte(10+i)
			tc.Steps = append(tc.Steps, TStep{At: tb + int64(i)*ms, Client: 2, Cmd: wi})
		}
		tc.Steps = append(tc.Steps, TStep{At: tb + Tn - 4*sec, Client: 0, Cmd: U(3, 1, 1)})
		tc.Expect = []Expect{{Req: 2, Kind: "granted", Lo: 0, Hi: Tn}, {Req: 10, Kind: "timeout", Lo: Tn, Hi: hi}, {Req: 11, Kind: "timeout", Lo: Tn, Hi: hi}, {Req: 12, Kind: "timeout", Lo: Tn, Hi: hi}}
		tc.Horizon = tb + Tn + 9*sec
	case "process-stalled":
		// the process is not scheduled for 2.3 s across the waiter's deadline second (or the clock steps forward):
		// the ticks missed are caught up, the waiter is answered within the usual bound after the stall ends
		stallAt := tb + Tn - 550*ms
		tc.Steps = append(tc.Steps, TStep{At: stallAt, Stall: 2300 * ms})
		tc.Expect = []Expect{{Req: 2, Kind: "timeout", Lo: Tn, Hi: Tn + 2300*ms + 2*sec}}
		tc.ZeroWait = true
		tc.Horizon = tb + Tn + 30*sec
	case "recycled-long-bucket-cancel":
		// as below, but the second waiter leaves its bucket by being cancelled (no hold is created whose own
		// expiry record could take the recycled queue)
		tc.Clients = 3
		w1, w2 := w, w
		w1.Req, w1.Id = 21, 21
		w2.Req, w2.Id = 22, 22
		t1 := tb + Tn + 3*sec
		tc.Steps = append(tc.Steps, TStep{At: t1, Client: 2, Cmd: w1},
			TStep{At: t1 + 50*sec, Client: 0, Cmd: hapi.Cmd{Type: 2, Req: 3, Key: 1, Id: 21, Flag: 0x02}},
			TStep{At: t1 + 52*sec, Client: 2, Cmd: w2})
		tc.Expect = []Expect{to, {Req: 21, Kind: "cancelled"}, {Req: 22, Kind: "timeout", Lo: Tn, Hi: hi}}
		tc.Horizon = t1 + 52*sec + Tn + 6*sec
		tc.ZeroWait = true
	case "recycled-long-bucket":
		// long waits are filed in per-second buckets whose queues are recycled: a first waiter times out (its
		// bucket's queue goes back to the pool), a second one takes the recycled queue and LEAVES it by being
		// granted, a third one queues later with a later deadline: it must still time out at its own deadline
		tc.Clients = 3
		w1, w2 := w, w
		w1.Req, w1.Id = 21, 21
		w1.Expried, w1.ExpriedFlag = 0xffff, fUnlim
		w2.Req, w2.Id, w2.Count = 22, 22, 0
		t1 := tb + Tn + 3*sec
		tc.Steps = append(tc.Steps, TStep{At: t1, Client: 2, Cmd: w1},
			TStep{At: t1 + 50*sec, Client: 0, Cmd: U(3, 1, 1)}, // by now the second waiter sits in the long-wait table
			TStep{At: t1 + 52*sec, Client: 2, Cmd: w2})         // enters the long-wait table before the second one's deadline passes
		tc.Expect = []Expect{to, {Req: 21, Kind: "granted", Lo: 0, Hi: Tn}, {Req: 22, Kind: "timeout", Lo: Tn, Hi: hi}}
		tc.Horizon = t1 + 52*sec + Tn + 6*sec
	case "many-same-deadline":
		tc.Clients = 3
		for i := 0; i < 200; i++ {
			wi := w
			wi.Req, wi.Id = byte(10+i), byte(10+i)
			tc.Steps = append(tc.Steps, TStep{At: tb + int64(i)*10000, Client: 2, Cmd: wi})
			tc.Expect = append(tc.Expect, Expect{Req: wi.Req, Kind: "timeout", Lo: Tn, Hi: hi})
		}
		// half of them are cancelled in the middle (for waits of a minute or more: 5 s before the deadline, when
		// they have left the wheel for the long-wait table), which leaves holes in the table
		cancelAt := tb + Tn/2
		if Tn >= 60*sec {
			cancelAt = tb + Tn - 5*sec
		}
		for i := 0; i < 200; i += 2 {
			tc.Steps = append(tc.Steps, TStep{At: cancelAt + int64(i)*10000, Client: 0, Cmd: hapi.Cmd{Type: 2, Req: byte(10 + i), Key: 1, Id: byte(10 + i), Flag: 0x02}})
		}
		// cancelled ones answer UNLOCK_ERROR under their own RequestId; the canceller reuses the id (ignored)
		var ex []Expect
		for _, e := range tc.Expect {
			if (int(e.Req)-10)%2 == 0 && e.Req >= 10 {
				ex = append(ex, Expect{Req: e.Req, Kind: "cancelled"})
			} else {
				ex = append(ex, e)
			}
		}
		tc.Expect = ex
		tc.ZeroWait = true
	}
	return fmt.Sprintf("%s/T%d/ph%d/%s", unit, T, phase/ms, interf), tc
}

func c05Cases(quick bool) []EnumCase {
	var out []EnumCase
	phases := []int64{50 * ms, 500 * ms, 950 * ms}
	add := func(unit string, T uint16, ph int64, in string) {
		n, tc := c05Case(unit, T, ph, in)
		out = append(out, mkCase(n, tc))
	}
	var secs []uint16
	top := uint16(150)
	if !quick {
		top = 1300
	}
	for t := uint16(1); t <= top; t++ {
		secs = append(secs, t)
	}
	secs = append(secs, 255, 256, 300)
	if !quick {
		secs = append(secs, 3599, 3600, 16383, 16384, 32767, 32768, 65535)
	}
	for _, T := range secs {
		for _, ph := range phases {
			add("s", T, ph, "none")
			if T <= 40 {
				add("s", T, ph, "unlock-after-timeout")
			}
		}
	}
	inter := []string{"grant-before-deadline", "cancel", "second-waiter-same-tick", "holder-update", "cancel-early", "grant-early"}
	for _, T := range []uint16{1, 2, 3, 8, 9, 10, 11, 20} {
		for _, ph := range phases {
			for _, in := range inter {
				add("s", T, ph, in)
			}
		}
	}
	for _, T := range []uint16{3, 12, 30, 60, 90} {
		add("s", T, 500*ms, "many-same-deadline")
	}
	for _, T := range []uint16{6, 20, 50, 60, 75} {
		for _, ph := range phases {
			add("s", T, ph, "three-same-deadline-first-granted")
		}
	}
	for _, T := range []uint16{1, 2, 3, 5, 8, 9, 12, 20, 46, 60} {
		for _, ph := range phases {
			add("s", T, ph, "process-stalled")
		}
	}
	for _, T := range []uint16{110, 120, 150, 200, 300} {
		for _, ph := range phases {
			add("s", T, ph, "recycled-long-bucket")
			add("s", T, ph, "recycled-long-bucket-cancel")
		}
	}
	mins := []uint16{1, 2, 3}
	if !quick {
		mins = append(mins, 5, 60, 1092)
	}
	for _, T := range mins {
		for _, ph := range phases {
			add("min", T, ph, "none")
			add("min", T, ph, "unlock-after-timeout")
			add("min", T, ph, "grant-before-deadline")
		}
	}
	for _, T := range []uint16{1, 2, 999, 1000, 2999, 3000, 3001, 3500, 3999, 4999, 65535} {
		for _, ph := range phases {
			add("ms", T, ph, "none")
			add("ms", T, ph, "unlock-after-timeout")
			if T >= 999 {
				add("ms", T, ph, "cancel")
				add("ms", T, ph, "grant-before-deadline")
				add("ms", T, ph, "cancel-early")
				add("ms", T, ph, "grant-early")
			}
		}
	}
	// timeout 0: refused at once, nothing queued
	for _, ph := range phases {
		tb := 2*sec + ph
		tc := &TimedCase{Cfg: hapi.Config{FastKeys: 1, Concurrent: 1}, Horizon: tb + 3*sec, ZeroWait: true,
			Steps:  []TStep{holder(1, 1500*ms), {At: tb, Client: 1, Cmd: hapi.Cmd{Type: 1, Req: 2, Key: 1, Id: 2, Timeout: 0, Expried: 5}}},
			Expect: []Expect{{Req: 2, Kind: "timeout", Lo: 0, Hi: 0}}}
		out = append(out, mkCase(fmt.Sprintf("zero/ph%d", ph/ms), tc))
	}
	return out
}

// c06Case builds one expiry case.
func c06Case(unit string, E uint16, phase int64, interf string) (string, *TimedCase) {
	cfg := hapi.Config{FastKeys: 1, Concurrent: 1}
	tb := 2*sec + phase
	En := unitNs(unit, E)
	h := hapi.Cmd{Type: 1, Req: 1, Key: 1, Id: 1, Expried: E, ExpriedFlag: unitFlag(unit), Rcount: 3}
	tc := &TimedCase{Cfg: cfg, Horizon: tb + En + 4*sec}
	tc.Steps = append(tc.Steps, TStep{At: tb, Client: 0, Cmd: h})
	hi := En + 2*sec
	ex := Expect{Req: 1, Kind: "expried", Lo: En, Hi: hi}
	switch interf {
	case "none":
		tc.Expect = []Expect{ex}
	case "waiter-granted-at-expiry":
		// a queued request is served exactly as after an unlock: granted when the hold ends
		tc.Steps = append(tc.Steps, TStep{At: tb + 100*ms, Client: 1, Cmd: hapi.Cmd{Type: 1, Req: 2, Key: 1, Id: 2, Timeout: 0xffff, TimeoutFlag: fMinute, Expried: 1}})
		tc.Expect = []Expect{ex, {Req: 2, Kind: "granted", Lo: En - 100*ms, Hi: hi}}
		tc.Horizon += 4 * sec
	case "process-stalled":
		// the process is not scheduled for 2.3 s across the hold's deadline second: the missed ticks are caught up
		tc.Steps = append(tc.Steps, TStep{At: tb + En - 550*ms, Stall: 2300 * ms})
		tc.Expect = []Expect{{Req: 1, Kind: "expried", Lo: En, Hi: En + 2300*ms + 2*sec}}
		tc.Horizon = tb + En + 30*sec
	case "co-holder-stays":
		// a counting key (Count 1) with two holders and a queued third request: when ONE hold expires while the
		// other stays, the freed slot is served exactly as after an unlock
		tc.Steps[0].Cmd.Count = 1
		tc.Steps = append(tc.Steps,
			TStep{At: tb + 10*ms, Client: 1, Cmd: hapi.Cmd{Type: 1, Req: 4, Key: 1, Id: 4, Expried: 0xffff, ExpriedFlag: fUnlim, Count: 1}},
			TStep{At: tb + 100*ms, Client: 2, Cmd: hapi.Cmd{Type: 1, Req: 2, Key: 1, Id: 2, Timeout: 0xffff, TimeoutFlag: fMinute, Expried: 1, Count: 1}})
		tc.Expect = []Expect{ex, {Req: 2, Kind: "granted", Lo: En - 100*ms, Hi: hi}}
		tc.Horizon += 4 * sec
	case "granted-after-wait":
		// the hold is granted out of the wait queue 3.5 s after it was requested: the period runs from the grant
		tc.Steps = []TStep{holder(4, 1500*ms), {At: tb, Client: 1, Cmd: hapi.Cmd{Type: 1, Req: 1, Key: 1, Id: 2, Timeout: 30, Expried: E, ExpriedFlag: unitFlag(unit)}},
			{At: tb + 3500*ms, Client: 0, Cmd: U(5, 1, 1)}}
		tc.Expect = []Expect{{Req: 1, Kind: "expried", Lo: En, Hi: hi, FromReq: 1}}
		tc.Horizon = tb + 3500*ms + En + 4*sec
	case "unlock-before":
		tc.Steps = append(tc.Steps, TStep{At: tb + En - 300*ms, Client: 0, Cmd: U(3, 1, 1)})
		tc.Expect = []Expect{{Req: 1, Kind: "never-expires"}}
	case "relock-restarts":
		// a re-entrant re-lock at half time restarts the period under the new RequestId
		r := h
		r.Req = 3
		tc.Steps = append(tc.Steps, TStep{At: tb + En/2, Client: 0, Cmd: r})
		tc.Expect = []Expect{{Req: 3, Kind: "expried", Lo: En, Hi: hi, FromReq: 3}, {Req: 1, Kind: "never-expires"}}
		tc.Horizon = tb + En/2 + En + 4*sec
	case "relock-in-seconds":
		// a hold taken in milliseconds is re-entered at half time with a period given in seconds (5 s)
		r := h
		r.Req, r.Expried, r.ExpriedFlag = 3, 5, 0
		tc.Steps = append(tc.Steps, TStep{At: tb + En/2, Client: 0, Cmd: r})
		tc.Expect = []Expect{{Req: 3, Kind: "expried", Lo: 5 * sec, Hi: 7 * sec, FromReq: 3}, {Req: 1, Kind: "never-expires"}}
		tc.Horizon = tb + En/2 + 5*sec + 4*sec
	case "relock-in-milliseconds":
		// a hold taken in seconds is re-entered 900 ms later with a period of 999 ms given in milliseconds
		r := h
		r.Req, r.Expried, r.ExpriedFlag = 3, 999, fMilli
		tc.Steps = append(tc.Steps, TStep{At: tb + 900*ms, Client: 0, Cmd: r})
		tc.Expect = []Expect{{Req: 3, Kind: "expried", Lo: 999 * ms, Hi: 999*ms + 2*sec, FromReq: 3}, {Req: 1, Kind: "never-expires"}}
		tc.Horizon = tb + En + 6*sec
	case "update-to-milliseconds":
		// ... or updated (Rcount changed, so the update cannot be taken for "equal") to 999 ms: a shortening
		u := h
		u.Req, u.Flag, u.Rcount, u.Expried, u.ExpriedFlag = 3, 0x02, 2, 999, fMilli
		tc.Steps = append(tc.Steps, TStep{At: tb + 900*ms, Client: 0, Cmd: u})
		tc.Expect = []Expect{{Req: 3, Kind: "expried", Lo: 999 * ms, Hi: 999*ms + 10*sec, FromReq: 3}, {Req: 1, Kind: "never-expires"}}
		tc.Horizon = tb + En + 14*sec
	case "update-to-unlimited-0xffff":
		// an update that carries the unlimited flag with Expried 0xffff: the hold is never ended by time afterwards
		u := h
		u.Req, u.Flag, u.Rcount, u.Expried, u.ExpriedFlag = 3, 0x02, 2, 0xffff, fUnlim
		tc.Steps = append(tc.Steps, TStep{At: tb + 900*ms, Client: 0, Cmd: u})
		tc.Expect = []Expect{{Req: 3, Kind: "never-expires"}, {Req: 1, Kind: "never-expires"}}
		tc.Horizon = tb + En + 30*sec
	case "update-to-unlimited", "relock-to-unlimited", "update-to-65535", "relock-to-65535":
		// the hold is turned into an unlimited one (flag with an ordinary Expried), or given the longest period there
		// is, by an update (Rcount changed) or a re-entrant lock 900 ms after the grant: it must outlive its old deadline
		u := h
		u.Req = 3
		if strings.HasPrefix(interf, "update") {
			u.Flag, u.Rcount = 0x02, 2
		}
		if strings.HasSuffix(interf, "unlimited") {
			u.Expried, u.ExpriedFlag = 100, u.ExpriedFlag|fUnlim
		} else {
			u.Expried = 0xffff
		}
		tc.Steps = append(tc.Steps, TStep{At: tb + 900*ms, Client: 0, Cmd: u})
		tc.Expect = []Expect{{Req: 3, Kind: "never-expires"}, {Req: 1, Kind: "never-expires"}}
		tc.Horizon = tb + En + 30*sec
	case "update-lengthens":
		u := h
		u.Req, u.Flag, u.Expried = 3, 0x02, E*2+3
		tc.Steps = append(tc.Steps, TStep{At: tb + En/2, Client: 0, Cmd: u})
		n2 := unitNs(unit, u.Expried)
		tc.Expect = []Expect{{Req: 3, Kind: "expried", Lo: n2, Hi: n2 + 2*sec, FromReq: 3}, {Req: 1, Kind: "never-expires"}}
		tc.Horizon = tb + En/2 + n2 + 4*sec
	case "update-shortens":
		// hold taken with 3E, shortened to E at E/2: ended within 10 s of the new deadline
		tc.Steps[0].Cmd.Expried = E * 3
		u := h
		u.Req, u.Flag = 3, 0x02
		tc.Steps = append(tc.Steps, TStep{At: tb + En/2, Client: 0, Cmd: u})
		tc.Expect = []Expect{{Req: 3, Kind: "expried", Lo: En, Hi: En + 10*sec, FromReq: 3}, {Req: 1, Kind: "never-expires"}}
		tc.Horizon = tb + En/2 + En + 12*sec
	case "update-one-unit":
		// moving the deadline by at most one unit may be ignored: either outcome is allowed
		u := h
		u.Req, u.Flag, u.Expried = 3, 0x02, E+1
		tc.Steps = append(tc.Steps, TStep{At: tb + 100*ms, Client: 0, Cmd: u})
		n2 := unitNs(unit, E+1)
		tc.Expect = []Expect{{Req: 3, Kind: "expried", Lo: n2, Hi: n2 + 2*sec, FromReq: 3,
			Alt: &Expect{Req: 1, Kind: "expried", Lo: En, Hi: hi}}}
		tc.Horizon = tb + n2 + 5*sec
	case "unlimited":
		tc.Steps[0].Cmd.ExpriedFlag |= fUnlim
		tc.Expect = []Expect{{Req: 1, Kind: "never-expires"}}
		tc.Horizon = tb + En + 30*sec
	case "three-same-deadline-first-unlocked", "three-same-deadline-first-unlocked-long-table":
		// three holds on one deadline second; the oldest is unlocked shortly before it: the two others must
		// still be ended on time (with the persist-immediately flag they sit in the long table from the start)
		tc.Steps = nil
		for i := 0; i < 3; i++ {
			hi2 := h
			hi2.Req, hi2.Id, hi2.Count = byte(10+i), byte(10+i), 0xffff
			if interf == "three-same-deadline-first-unlocked-long-table" {
				hi2.ExpriedFlag |= efZeroAof
			}
			tc.Steps = append(tc.Steps, TStep{At: tb + int64(i)*ms, Client: 0, Cmd: hi2})
		}
		tc.Steps = append(tc.Steps, TStep{At: tb + En - 4*sec, Client: 0, Cmd: U(3, 1, 10)})
		tc.Expect = []Expect{{Req: 10, Kind: "never-expires"}, {Req: 11, Kind: "expried", Lo: En, Hi: hi}, {Req: 12, Kind: "expried", Lo: En, Hi: hi}}
	case "many-same-deadline", "many-same-deadline-long-table":
		tc.Steps = nil
		unlockAt := tb + En/2
		if En >= 60*sec {
			unlockAt = tb + En - 5*sec
		}
		for i := 0; i < 200; i++ {
			hi2 := h
			hi2.Req, hi2.Id, hi2.Count = byte(10+i), byte(10+i), 0xffff
			if interf == "many-same-deadline-long-table" {
				hi2.ExpriedFlag |= efZeroAof
			}
			tc.Steps = append(tc.Steps, TStep{At: tb + int64(i)*10000, Client: 0, Cmd: hi2})
			if i%2 == 0 {
				tc.Steps = append(tc.Steps, TStep{At: unlockAt + int64(i)*10000, Client: 0, Cmd: U(byte(10+i), 1, byte(10+i))})
				tc.Expect = append(tc.Expect, Expect{Req: hi2.Req, Kind: "never-expires"})
			} else {
				tc.Expect = append(tc.Expect, Expect{Req: hi2.Req, Kind: "expried", Lo: En, Hi: hi})
			}
		}
	}
	return fmt.Sprintf("%s/E%d/ph%d/%s", unit, E, phase/ms, interf), tc
}

func c06Cases(quick bool) []EnumCase {
	var out []EnumCase
	phases := []int64{50 * ms, 500 * ms, 950 * ms}
	add := func(unit string, E uint16, ph int64, in string) {
		n, tc := c06Case(unit, E, ph, in)
		out = append(out, mkCase(n, tc))
	}
	var secs []uint16
	top := uint16(150)
	if !quick {
		top = 1300
	}
	for t := uint16(1); t <= top; t++ {
		secs = append(secs, t)
	}
	secs = append(secs, 255, 256, 300)
	if !quick {
		secs = append(secs, 3599, 3600, 16383, 16384, 32767, 32768, 65535)
	}
	for _, E := range secs {
		for _, ph := range phases {
			add("s", E, ph, "none")
			if E <= 40 {
				add("s", E, ph, "waiter-granted-at-expiry")
				add("s", E, ph, "co-holder-stays")
			}
		}
	}
	inter := []string{"unlock-before", "relock-restarts", "update-lengthens", "update-shortens", "update-one-unit", "unlimited", "granted-after-wait"}
	for _, E := range []uint16{2, 3, 6, 8, 9, 10, 11, 20} {
		for _, ph := range phases {
			for _, in := range inter {
				add("s", E, ph, in)
			}
		}
	}
	for _, E := range []uint16{1, 2, 3, 5, 8, 9, 12, 20, 46, 60} {
		for _, ph := range phases {
			add("s", E, ph, "process-stalled")
		}
	}
	for _, E := range []uint16{3, 12, 30, 60, 90} {
		add("s", E, 500*ms, "many-same-deadline")
		if E > 5 {
			add("s", E, 500*ms, "many-same-deadline-long-table")
		}
	}
	for _, E := range []uint16{6, 20, 50, 60, 75} {
		for _, ph := range phases {
			add("s", E, ph, "three-same-deadline-first-unlocked")
			add("s", E, ph, "three-same-deadline-first-unlocked-long-table")
		}
	}
	mins := []uint16{1, 2}
	if !quick {
		mins = append(mins, 3, 5, 60, 1092)
	}
	for _, E := range mins {
		for _, ph := range phases {
			add("min", E, ph, "none")
			add("min", E, ph, "unlock-before")
			add("min", E, ph, "relock-restarts")
			add("min", E, ph, "update-one-unit")
		}
	}
	for _, E := range []uint16{1, 2, 999, 1000, 2999, 3000, 3001, 3500, 3999, 4999, 65535} {
		for _, ph := range phases {
			add("ms", E, ph, "none")
			if E >= 999 {
				add("ms", E, ph, "unlock-before")
				add("ms", E, ph, "waiter-granted-at-expiry")
				add("ms", E, ph, "co-holder-stays")
			}
			if E >= 999 && E <= 4999 {
				for _, in := range []string{"relock-restarts", "update-lengthens", "update-shortens", "unlimited", "granted-after-wait", "relock-in-seconds"} {
					n, tc := c06Case("ms", E, ph, in)
					tc.SigSuffix = "/millisecond-hold/" + in
					out = append(out, mkCase(n, tc))
				}
			}
		}
	}
	for _, ph := range phases {
		for _, in := range []string{"relock-in-milliseconds", "update-to-milliseconds", "update-to-unlimited-0xffff", "update-to-unlimited", "relock-to-unlimited", "update-to-65535", "relock-to-65535"} {
			n, tc := c06Case("s", 5, ph, in)
			tc.SigSuffix = "/seconds-hold/" + in
			out = append(out, mkCase(n, tc))
		}
	}
	add("s", 10, 500*ms, "unlimited")
	if !quick {
		// unlimited: never ended by time over 70 000 virtual seconds
		n, tc := c06Case("s", 5, 500*ms, "unlimited")
		tc.Horizon = 70000 * sec
		out = append(out, mkCase(n+"/70000s", tc))
	}
	return out
}

// oracleMsHoldExpires (scenario millisecond-grant-vs-slot-sweep): the 3000 ms hold of request 2 is ended by EXPRIED
// between 3000 ms and 5000 ms after its grant.
func oracleMsHoldExpires(r *EngRun) []explore.Violation {
	if r.Spec.Name != "millisecond-grant-vs-slot-sweep" {
		return nil
	}
	var g, x int64 = -1, -1
	for _, e := range r.Events {
		if e.Req == 2 && e.Result == 0 && e.Cmd == 1 {
			g = e.T
		}
		if e.Req == 2 && e.Result == 9 {
			x = e.T
		}
	}
	if g < 0 {
		return nil
	}
	if x < 0 {
		return []explore.Violation{{Sig: "C06:never-expires/granted-while-its-slot-is-swept", Msg: fmt.Sprintf("hold of request 2 (3000 ms, millisecond unit, granted at %d ms) was never ended although %d ms have passed", g/ms, (r.EndT-g)/ms)}}
	}
	if x-g < 3000*ms || x-g > 5000*ms {
		return []explore.Violation{{Sig: "C06:expried/granted-while-its-slot-is-swept", Msg: fmt.Sprintf("hold of request 2 (3000 ms) was ended %d ms after its grant", (x-g)/ms)}}
	}
	return nil
}

// oracleHoldEndsOnce: the setup hold (request 9, LockId 1) is ended exactly once — by the unlock or by the
// sweeper — when both race at the deadline tick.
func oracleHoldEndsOnce(r *EngRun) []explore.Violation {
	if !strings.HasPrefix(r.Spec.Name, "unlock-vs-expiry-tick") {
		return nil
	}
	exp, unl := 0, 0
	for _, e := range r.Events {
		if e.Req == 9 && e.Result == 9 {
			exp++
		}
		if e.Req == 1 && e.Cmd == 2 && e.Result == 0 {
			unl++
		}
	}
	if exp+unl != 1 {
		return []explore.Violation{{Sig: "C06:hold-ended-not-once", Msg: fmt.Sprintf("hold of LockId 1 was ended %d times by EXPRIED and %d times by an accepted unlock", exp, unl)}}
	}
	return nil
}

// oracleRenewedAtTick: scenarios "renew-vs-expiry-tick*": the hold's owner renews it (update, or re-entrant lock)
// in the very tick in which it is due. Either the hold had already ended (the request is refused or takes the key
// afresh) or the renewal was accepted: then the hold must live for the new period, counted from the renewal.
func oracleRenewedAtTick(r *EngRun) []explore.Violation {
	if !strings.HasPrefix(r.Spec.Name, "renew-vs-expiry-tick") {
		return nil
	}
	var renewedAt, endedAt int64 = -1, -1
	fresh := false
	for _, e := range r.Events {
		if e.Req == 9 && e.Result == 9 && endedAt < 0 {
			endedAt = e.T // EXPRIED under the first request: the old terms ended the hold
		}
		if e.Req == 1 && e.Cmd == 1 && (e.Result == 5 || e.Result == 0) && renewedAt < 0 {
			renewedAt = e.T
			fresh = e.Result == 0 && e.LRCount <= 1 && endedAt >= 0 && endedAt <= e.T
		}
		if e.Req == 1 && e.Result == 9 && renewedAt >= 0 && !fresh && e.T-renewedAt < 10*sec {
			return []explore.Violation{{Sig: "C06:expried/renewed-on-the-deadline-tick", Msg: fmt.Sprintf("the renewal (10 s) was accepted at %d ms and the hold was ended by time %d ms later: %s", renewedAt/ms, (e.T-renewedAt)/ms, r.Trace())}}
		}
	}
	if renewedAt >= 0 && endedAt > renewedAt && !fresh {
		return []explore.Violation{{Sig: "C06:expried/renewed-on-the-deadline-tick", Msg: fmt.Sprintf("the renewal (10 s) was accepted at %d ms, yet the hold was ended under its old terms %d ms later: %s", renewedAt/ms, (endedAt-renewedAt)/ms, r.Trace())}}
	}
	return nil
}

func init() {
	enumCheck("C05", "exploration",
		func(q bool) []*EnumPlan {
			return []*EnumPlan{{Name: "timeout-classes", Cases: c05Cases, Eval: evalTimed("C05")},
				{Name: "every-timeout-value", Cases: valueCases([]string{"timeout"}), Eval: evalValues("C05")},
				{Name: "bulk-long-waits", Cases: c05BulkCases, Eval: evalC05Bulk}}
		},
		func(q bool) *SchedPlan {
			cfg := hapi.Config{FastKeys: 1, Concurrent: 1}
			ul := unlockAll([]byte{1}, []byte{1, 2, 3})
			return &SchedPlan{Specs: []*EngSpec{
				{Name: "grant-vs-timeout-tick", Cfg: cfg, Fine: true, Setup: []Step{C(L(9, 1, 1, 0, 10, 0, 0)), C(L(8, 1, 2, 1, 10, 0, 0))},
					Threads: [][]Step{{At(3000 * ms), C(U(1, 1, 1))}}, Unlock: ul},
				{Name: "cancel-vs-timeout-tick", Cfg: cfg, Fine: true, Setup: []Step{C(L(9, 1, 1, 0, 10, 0, 0)), C(L(8, 1, 2, 1, 10, 0, 0))},
					Threads: [][]Step{{At(3000 * ms), C(hapi.Cmd{Type: 2, Req: 1, Key: 1, Id: 2, Flag: 0x02})}}, Unlock: ul},
			}, Oracles: []Oracle{OracleC03, OracleC04Quiescent, OracleC17}, Bound: func(s *EngSpec, q bool) int {
				if q {
					return 2
				}
				return 3
			}, MaxExec: schedCapT(6000, 40000)}
		},
		"one execution of the real engine with its own sweepers on virtual time per (unit, T, enqueue phase within the server second, interference pattern); T covers every second value 0..150 (quick) / 0..1300 (thorough) - the whole re-check ladder and the hand-over to the long-wait table - plus boundary values up to 65535; a second plan checks the deadline recorded for EVERY value 1..65535 in all three units; oracle on virtual timestamps: T <= t_reply - t_enqueue <= T+2s, never after a grant, never granted after TIMEOUT, nothing left queued; plus schedule DFS of unlock / cancel racing the sweeper on the deadline tick; non-trivial = the run produced at least two replies",
		[]string{"firing is executed for the classes the code distinguishes; for all 65535 values of T the recorded deadline is compared with enqueue time + value", "virtual time: computation takes zero time, so the bounds are exact statements about server ticks", "sub-3s millisecond waits: lower bound and eventual firing only, as the property states"})

	enumCheck("C06", "exploration",
		func(q bool) []*EnumPlan {
			return []*EnumPlan{{Name: "expiry-classes", Cases: c06Cases, Eval: evalTimed("C06")},
				{Name: "every-expiry-value", Cases: valueCases([]string{"expiry", "expiry-via-queue"}), Eval: evalValues("C06")}}
		},
		func(q bool) *SchedPlan {
			cfg := hapi.Config{FastKeys: 1, Concurrent: 1}
			ul := unlockAll([]byte{1}, []byte{1, 2, 3})
			return &SchedPlan{Specs: []*EngSpec{
				{Name: "unlock-vs-expiry-tick", Cfg: cfg, Fine: true, Setup: []Step{C(L(9, 1, 1, 0, 1, 0, 0))},
					Threads: [][]Step{{At(3000 * ms), C(U(1, 1, 1))}}, Unlock: ul},
				{Name: "unlock-vs-expiry-tick-waiter", Cfg: cfg, Fine: true, Setup: []Step{C(L(9, 1, 1, 0, 1, 0, 0)), C(L(8, 1, 2, 9, 10, 0, 0))},
					Threads: [][]Step{{At(3000 * ms), C(U(1, 1, 1))}}, Unlock: ul},
				// the owner renews the hold (update / re-entrant lock, 10 s) in the very tick in which it is due
				{Name: "renew-vs-expiry-tick-update", Cfg: cfg, Fine: true, Setup: []Step{C(L(9, 1, 1, 0, 1, 0, 2))},
					Threads: [][]Step{{At(3000 * ms), C(withF(L(1, 1, 1, 0, 10, 0, 2), 0x02))}}, DrainTo: 16 * sec},
				{Name: "renew-vs-expiry-tick-relock", Cfg: cfg, Fine: true, Setup: []Step{C(L(9, 1, 1, 0, 1, 0, 2))},
					Threads: [][]Step{{At(3000 * ms), C(L(1, 1, 1, 0, 10, 0, 2))}}, DrainTo: 16 * sec},
				// a millisecond-unit hold is granted in the very millisecond in which the sweeper of the slot it falls into
				// (period 3000 ms = the whole wheel) is ending another hold
				{Name: "millisecond-grant-vs-slot-sweep", Cfg: cfg, Fine: true, Setup: []Step{C(withEF(L(7, 1, 1, 0, 700, 0, 0), fMilli))},
					Threads: [][]Step{{At(1800 * ms), C(withEF(L(2, 2, 2, 0, 3000, 0, 0), fMilli))}}, DrainTo: 8 * sec},
			}, Oracles: []Oracle{oracleHoldEndsOnce, oracleRenewedAtTick, oracleMsHoldExpires, OracleC03, OracleC04Quiescent, OracleC17}, Bound: func(s *EngSpec, q bool) int {
				if q {
					return 2
				}
				return 3
			}, MaxExec: schedCapT(6000, 40000)}
		},
		"one execution of the real engine with its own sweepers on virtual time per (unit, E, grant phase, interference pattern: none, queued request served at expiry, unlock before the deadline, re-entrant re-lock, update lengthening / shortening / by one unit, unlimited flag, 200 holds on one deadline with half of them unlocked); oracle on virtual timestamps: E <= t_EXPRIED - t_grant_or_last_term_change <= E+2s (10 s after a shortening update), exactly one EXPRIED under the RequestId that last set the terms, queued request granted when the hold ends; plus schedule DFS of unlock racing the expiry sweeper on the deadline tick; non-trivial = the run produced at least two replies",
		[]string{"firing is executed for the classes the code distinguishes (every E 1..150 / 1..1300 s); for all 65535 values of E the recorded deadline is compared with grant time + value (granted at once and out of the queue)", "virtual time: computation takes zero time", "an update moving the deadline by at most one unit may be ignored (both outcomes accepted)"})
}
