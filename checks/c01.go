package checks

import (
	"fmt"

	"verif/hapi"
)

func L(req, key, id byte, timeout, expried, count uint16, rcount uint8) hapi.Cmd {
	return hapi.Cmd{Type: 1, Req: req, Key: key, Id: id, Timeout: timeout, Expried: expried, Count: count, Rcount: rcount}
}
func U(req, key, id byte) hapi.Cmd { return hapi.Cmd{Type: 2, Req: req, Key: key, Id: id} }

func withEF(c hapi.Cmd, f uint16) hapi.Cmd { c.ExpriedFlag |= f; return c }
func withTF(c hapi.Cmd, f uint16) hapi.Cmd { c.TimeoutFlag |= f; return c }
func withF(c hapi.Cmd, f uint8) hapi.Cmd   { c.Flag |= f; return c }

func unlockAll(keys []byte, ids []byte) []hapi.Cmd {
	var out []hapi.Cmd
	r := byte(200)
	for _, k := range keys {
		for _, id := range ids {
			u := U(r, k, id)
			out = append(out, u)
			r++
		}
	}
	return out
}

// coreSchedSpecs are the concurrent scenarios shared by C01/C03/C04/C17: 2–3 client threads, 1–3 operations
// each, on one key or on two keys that collide in the single fast slot (FastKeys=1).
func coreSchedSpecs(quick bool) []*EngSpec {
	cfg := hapi.Config{FastKeys: 1, Concurrent: 1}
	ul := unlockAll([]byte{1, 2}, []byte{1, 2, 3})
	specs := []*EngSpec{
		{Name: "lock-lock", Cfg: cfg, Fine: true,
			Threads: [][]Step{{C(L(1, 1, 1, 0, 10, 0, 0))}, {C(L(2, 1, 2, 0, 10, 0, 0))}}, Unlock: ul},
		{Name: "lockunlock-lockunlock", Cfg: cfg, Fine: true,
			Threads: [][]Step{{C(L(1, 1, 1, 0, 10, 0, 0)), C(U(2, 1, 1))}, {C(L(3, 1, 2, 0, 10, 0, 0)), C(U(4, 1, 2))}}, Unlock: ul},
		{Name: "unlock-vs-lock", Cfg: cfg, Fine: true, Setup: []Step{C(L(9, 1, 1, 0, 10, 0, 0))},
			Threads: [][]Step{{C(U(1, 1, 1))}, {C(L(2, 1, 2, 5, 10, 0, 0))}}, Unlock: ul},
		{Name: "unlock-wake-vs-newcomer", Cfg: cfg, Fine: true, Setup: []Step{C(L(9, 1, 1, 0, 10, 0, 0)), C(L(8, 1, 2, 10, 10, 0, 0))},
			Threads: [][]Step{{C(U(1, 1, 1))}, {C(L(2, 1, 3, 0, 10, 0, 0))}}, Unlock: ul},
		{Name: "lock-vs-expiry-sweep", Cfg: cfg, Fine: true, Setup: []Step{C(L(9, 1, 1, 0, 1, 0, 0))},
			Threads: [][]Step{{At(3000 * ms), C(L(1, 1, 2, 0, 10, 0, 0))}, {At(3000 * ms), C(L(2, 1, 3, 2, 10, 0, 0))}}, Unlock: ul},
		{Name: "two-keys-one-slot", Cfg: cfg, Fine: true,
			Threads: [][]Step{{C(L(1, 1, 1, 0, 10, 0, 0)), C(U(2, 1, 1))}, {C(L(3, 2, 2, 0, 10, 0, 0)), C(L(4, 1, 3, 0, 10, 0, 0))}}, Unlock: ul},
		{Name: "slowpath-lock-lock", Cfg: cfg, Fine: true, Setup: []Step{C(L(9, 2, 1, 0, 10, 0, 0))},
			Threads: [][]Step{{C(L(1, 1, 1, 0, 10, 0, 0))}, {C(L(2, 1, 2, 0, 10, 0, 0))}}, Unlock: ul},
		{Name: "slot-freed-vs-two-lockers", Cfg: cfg, Fine: true, Setup: []Step{C(L(9, 2, 3, 0, 10, 0, 0))},
			Threads: [][]Step{{C(U(1, 2, 3))}, {C(L(2, 1, 1, 0, 10, 0, 0))}, {C(L(3, 1, 2, 0, 10, 0, 0))}}, Unlock: ul},
		{Name: "count1-three-lockers", Cfg: cfg, Fine: true, Setup: []Step{C(L(9, 1, 1, 0, 10, 1, 0))},
			Threads: [][]Step{{C(L(1, 1, 2, 0, 10, 1, 0))}, {C(L(2, 1, 3, 0, 10, 1, 0))}}, Unlock: ul},
		{Name: "reentrant-vs-other", Cfg: cfg, Fine: true,
			Threads: [][]Step{{C(L(1, 1, 1, 0, 10, 0, 1)), C(L(2, 1, 1, 0, 10, 0, 1))}, {C(L(3, 1, 2, 0, 10, 0, 0))}}, Unlock: ul},
	}
	if !quick {
		specs = append(specs,
			&EngSpec{Name: "three-lockers", Cfg: cfg, Fine: true,
				Threads: [][]Step{{C(L(1, 1, 1, 0, 10, 0, 0))}, {C(L(2, 1, 2, 0, 10, 0, 0))}, {C(L(3, 1, 3, 0, 10, 0, 0))}}, Unlock: ul},
			&EngSpec{Name: "unlock-wake-timeout-sweep", Cfg: cfg, Fine: true, Setup: []Step{C(L(9, 1, 1, 0, 10, 0, 0)), C(L(8, 1, 2, 1, 10, 0, 0))},
				Threads: [][]Step{{At(3000 * ms), C(U(1, 1, 1))}, {At(3000 * ms), C(L(2, 1, 3, 0, 10, 0, 0))}}, Unlock: ul},
			&EngSpec{Name: "two-shards", Cfg: hapi.Config{FastKeys: 2, Concurrent: 2}, Fine: true,
				Threads: [][]Step{{C(L(1, 1, 1, 0, 10, 0, 0)), C(U(2, 1, 1))}, {C(L(3, 1, 2, 3, 10, 0, 0))}}, Unlock: ul},
		)
	}
	return specs
}

func init() {
	plan := func(quick bool) *SchedPlan {
		return &SchedPlan{Specs: coreSchedSpecs(quick), Monitors: []MonitorFactory{MonitorC01}, Oracles: []Oracle{OracleC01Quiescent},
			Bound: func(s *EngSpec, q bool) int {
				timed := false
				for _, t := range s.Threads {
					for _, st := range t {
						if st.SleepUntil > 0 {
							timed = true
						}
					}
				}
				if q {
					if timed || len(s.Threads) > 2 {
						return 2
					}
					return 3
				}
				if timed || len(s.Threads) > 2 {
					return 3
				}
				return 4
			},
			MaxExec: func(s *EngSpec, q bool) int64 {
				if q {
					return 8000
				}
				return 500000
			}}
	}
	Registry["C01"] = func(c *Ctx) int {
		p := plan(c.Quick())
		if c.Worker >= 0 {
			return p.Worker(c)
		}
		if len(c.Args) == 2 && c.Args[0] == "--replay" {
			return p.ReplayFile(c, c.Args[1])
		}
		res := p.Master(c)
		if res.EngineErr != "" {
			return EngineError("%s", res.EngineErr)
		}
		cov := res.Coverage("deviation-bounded DFS over thread schedules of 2-3 client threads on one key / two keys in one fast slot; every mutex, atomic and channel operation of the instrumented engine is a preemption point; a trace is the sequence of replies with virtual timestamps plus drained snapshots; non-trivial = at least two client threads were answered", p, c.Quick())
		c.WriteEvidence("exploration", cov, []string{
			"runtime is sequentially consistent (no weak-memory effects); data races are outside this check",
			"deviation = any non-default scheduling choice (preemptive or not); executions run to completion",
			"value alphabet: Count in {0,1}, Rcount in {0,1}, timeouts/expiries of a few seconds",
		}, res.Violations)
		fmt.Printf("C01 %s: %d executions, %d distinct traces, %d violations\n", c.Tier, res.Total.Executions, len(res.Total.Traces), res.Violations)
		if res.Violations > 0 {
			return 1
		}
		return 0
	}
}
