package checks

import (
	"fmt"
	"strings"

	"verif/explore"

	"verif/hapi"
)

func L(req, key, id byte, timeout, expried, count uint16, rcount uint8) hapi.Cmd {
	return hapi.Cmd{Type: 1, Req: req, Key: key, Id: id, Timeout: timeout, Expried: expried, Count: count, Rcount: rcount}
}
func U(req, key, id byte) hapi.Cmd { return hapi.Cmd{Type: 2, Req: req, Key: key, Id: id} }

func withEF(c hapi.Cmd, f uint16) hapi.Cmd { c.ExpriedFlag |= f; return c }
func withTF(c hapi.Cmd, f uint16) hapi.Cmd { c.TimeoutFlag |= f; return c }
func withF(c hapi.Cmd, f uint8) hapi.Cmd   { c.Flag |= f; return c }

func unlockAll(keys []byte, ids []byte) []hapi.Cmd {
	var out []hapi.Cmd
	r := byte(200)
	for _, k := range keys {
		for _, id := range ids {
			u := U(r, k, id)
			out = append(out, u)
			r++
		}
	}
	return out
}

// coreSchedSpecs are the concurrent scenarios shared by C01/C03/C04/C17: 2–3 client threads, 1–3 operations
// each, on one key or on two keys that collide in the single fast slot (FastKeys=1).
func coreSchedSpecs(quick bool) []*EngSpec {
	cfg := hapi.Config{FastKeys: 1, Concurrent: 1}
	ul := unlockAll([]byte{1, 2}, []byte{1, 2, 3})
	specs := []*EngSpec{
		{Name: "lock-lock", Cfg: cfg, Fine: true,
			Threads: [][]Step{{C(L(1, 1, 1, 0, 10, 0, 0))}, {C(L(2, 1, 2, 0, 10, 0, 0))}}, Unlock: ul},
		{Name: "lockunlock-lockunlock", Cfg: cfg, Fine: true,
			Threads: [][]Step{{C(L(1, 1, 1, 0, 10, 0, 0)), C(U(2, 1, 1))}, {C(L(3, 1, 2, 0, 10, 0, 0)), C(U(4, 1, 2))}}, Unlock: ul},
		{Name: "unlock-vs-lock", Cfg: cfg, Fine: true, Setup: []Step{C(L(9, 1, 1, 0, 10, 0, 0))},
			Threads: [][]Step{{C(U(1, 1, 1))}, {C(L(2, 1, 2, 5, 10, 0, 0))}}, Unlock: ul},
		{Name: "unlock-wake-vs-newcomer", Cfg: cfg, Fine: true, Setup: []Step{C(L(9, 1, 1, 0, 10, 0, 0)), C(L(8, 1, 2, 10, 10, 0, 0))},
			Threads: [][]Step{{C(U(1, 1, 1))}, {C(L(2, 1, 3, 0, 10, 0, 0))}}, Unlock: ul},
		{Name: "lock-vs-expiry-sweep", Cfg: cfg, Fine: true, Setup: []Step{C(L(9, 1, 1, 0, 1, 0, 0))},
			Threads: [][]Step{{At(3000 * ms), C(L(1, 1, 2, 0, 10, 0, 0))}, {At(3000 * ms), C(L(2, 1, 3, 2, 10, 0, 0))}}, Unlock: ul},
		{Name: "two-keys-one-slot", Cfg: cfg, Fine: true,
			Threads: [][]Step{{C(L(1, 1, 1, 0, 10, 0, 0)), C(U(2, 1, 1))}, {C(L(3, 2, 2, 0, 10, 0, 0)), C(L(4, 1, 3, 0, 10, 0, 0))}}, Unlock: ul},
		{Name: "slowpath-lock-lock", Cfg: cfg, Fine: true, Setup: []Step{C(L(9, 2, 1, 0, 10, 0, 0))},
			Threads: [][]Step{{C(L(1, 1, 1, 0, 10, 0, 0))}, {C(L(2, 1, 2, 0, 10, 0, 0))}}, Unlock: ul},
		{Name: "slot-freed-vs-two-lockers", Cfg: cfg, Fine: true, Setup: []Step{C(L(9, 2, 3, 0, 10, 0, 0))},
			Threads: [][]Step{{C(U(1, 2, 3))}, {C(L(2, 1, 1, 0, 10, 0, 0))}, {C(L(3, 1, 2, 0, 10, 0, 0))}}, Unlock: ul},
		{Name: "count1-three-lockers", Cfg: cfg, Fine: true, Setup: []Step{C(L(9, 1, 1, 0, 10, 1, 0))},
			Threads: [][]Step{{C(L(1, 1, 2, 0, 10, 1, 0))}, {C(L(2, 1, 3, 0, 10, 1, 0))}}, Unlock: ul},
		{Name: "reentrant-vs-other", Cfg: cfg, Fine: true,
			Threads: [][]Step{{C(L(1, 1, 1, 0, 10, 0, 1)), C(L(2, 1, 1, 0, 10, 0, 1))}, {C(L(3, 1, 2, 0, 10, 0, 0))}}, Unlock: ul},
		// a key that lives for one request only (expiry 0: granted and freed at once) is being reclaimed while two
		// other requests for it arrive: on the all-zero key (a reclaimed key manager's key field is zeroed, so the
		// "is this still my key" test cannot tell), and on a key that lives in the slow key table (its slot is owned
		// by another key)
		{Name: "short-lived-zero-key", Cfg: cfg, Fine: true,
			Threads: [][]Step{{C(L(1, 0, 1, 0, 0, 0, 0))}, {C(L(2, 0, 2, 0, 10, 0, 0))}, {C(L(3, 0, 3, 0, 10, 0, 0))}}, Unlock: unlockAll([]byte{0}, []byte{1, 2, 3})},
		{Name: "short-lived-slow-key", Cfg: cfg, Fine: true, Setup: []Step{C(L(9, 2, 9, 0, 10, 0, 0))},
			Threads: [][]Step{{C(L(1, 1, 1, 0, 0, 0, 0))}, {C(L(2, 1, 2, 0, 10, 0, 0))}, {C(L(3, 1, 3, 0, 10, 0, 0))}}, Unlock: append(unlockAll([]byte{1}, []byte{1, 2, 3}), U(99, 2, 9))},
		{Name: "short-lived-fast-key", Cfg: cfg, Fine: true,
			Threads: [][]Step{{C(L(1, 1, 1, 0, 0, 0, 0))}, {C(L(2, 1, 2, 0, 10, 0, 0))}, {C(L(3, 1, 3, 0, 10, 0, 0))}}, Unlock: ul},
	}
	if !quick {
		specs = append(specs,
			&EngSpec{Name: "three-lockers", Cfg: cfg, Fine: true,
				Threads: [][]Step{{C(L(1, 1, 1, 0, 10, 0, 0))}, {C(L(2, 1, 2, 0, 10, 0, 0))}, {C(L(3, 1, 3, 0, 10, 0, 0))}}, Unlock: ul},
			&EngSpec{Name: "unlock-wake-timeout-sweep", Cfg: cfg, Fine: true, Setup: []Step{C(L(9, 1, 1, 0, 10, 0, 0)), C(L(8, 1, 2, 1, 10, 0, 0))},
				Threads: [][]Step{{At(3000 * ms), C(U(1, 1, 1))}, {At(3000 * ms), C(L(2, 1, 3, 0, 10, 0, 0))}}, Unlock: ul},
			&EngSpec{Name: "two-shards", Cfg: hapi.Config{FastKeys: 2, Concurrent: 2}, Fine: true,
				Threads: [][]Step{{C(L(1, 1, 1, 0, 10, 0, 0)), C(U(2, 1, 1))}, {C(L(3, 1, 2, 3, 10, 0, 0))}}, Unlock: ul},
		)
	}
	return specs
}

// SeqOracleC01: the user-level corollary after every step of a history: if all holders carry the same Count c
// there are at most c+1 holds (re-entrant depth left aside: it is bounded by Rcount, C02).
func SeqOracleC01(r *SeqRun) []explore.Violation {
	var vs []explore.Violation
	for si, st := range r.Steps {
		if st.Snap == nil {
			continue
		}
		for _, k := range st.Snap.Keys {
			if k.Managers > 1 {
				vs = append(vs, explore.Violation{Sig: "C01:two-managers-one-key", Msg: fmt.Sprintf("step %d (%s): key %x carried by %d managers", si+1, st.Op, k.Key[15], k.Managers)})
			}
			if len(k.Holds) == 0 {
				continue
			}
			same := true
			for _, h := range k.Holds {
				if h.Count != k.Holds[0].Count {
					same = false
				}
			}
			if same && len(k.Holds) > int(k.Holds[0].Count)+1 {
				vs = append(vs, explore.Violation{Sig: "C01:more-than-count-plus-one", Msg: fmt.Sprintf("step %d (%s): key %x has %d simultaneous holders although every holder has Count %d (%s)", si+1, st.Op, k.Key[15], len(k.Holds), k.Holds[0].Count, holdsStr(k))})
			}
		}
	}
	return dedupe(vs)
}

// c01SemSpecs: semaphore histories. A key is filled to its limit (Count c: c+1 holders), then holders at the
// head, in the middle and at the tail of the holder queue are released, slots are re-taken by new and by
// previously used LockIds, and requests with a smaller Count arrive.
func c01SemSpecs(quick bool) []*SeqSpec {
	cfg := hapi.Config{FastKeys: 1, Concurrent: 1}
	d := 4
	if !quick {
		d = 5
	}
	var specs []*SeqSpec
	for _, c := range []uint16{1, 2, 3} {
		n := int(c) + 1
		var ramp, a []SeqOp
		for i := 1; i <= n; i++ {
			ramp = append(ramp, op(0, L(0, 1, byte(i), 0, 50, c, 0)))
		}
		for i := 1; i <= n+2; i++ {
			a = append(a, op(i%2, L(0, 1, byte(i), 0, 50, c, 0)))
		}
		for i := 1; i <= n+1; i++ {
			a = append(a, op(i%2, U(0, 1, byte(i))))
		}
		a = append(a,
			op(1, L(0, 1, byte(n), 0, 50, c, 1)),                  // re-entrant attempt by the tail holder
			op(1, L(0, 1, 9, 2, 50, c-1, 0)),                      // a request that tolerates one holder less, waits 2 s
			op(1, L(0, 1, 8, 0, 50, 0, 0)),                        // an exclusive request
			op(0, hapi.Cmd{Type: 2, Key: 1, Id: 200, Flag: 0x01}), // unlock-first
			tick(3*sec))
		specs = append(specs, &SeqSpec{Name: fmt.Sprintf("semaphore-count-%d", c), Cfg: cfg, Ramp: ramp, Alphabet: a, Depth: d, MonC01: true, MaxStates: 300000})
	}
	// mixed Counts from the empty key
	var a []SeqOp
	for _, id := range []byte{1, 2, 3} {
		for _, c := range []uint16{0, 1, 2} {
			a = append(a, op(int(id)%2, L(0, 1, id, 0, 50, c, 0)))
		}
		a = append(a, op(int(id)%2, U(0, 1, id)))
	}
	a = append(a, op(0, L(0, 1, 4, 3, 50, 1, 0)), tick(4*sec))
	specs = append(specs, &SeqSpec{Name: "mixed-counts", Cfg: cfg, Alphabet: a, Depth: d, MonC01: true, MaxStates: 300000})
	// the flags of the core command subset that choose another path through LockDB.Lock / UnLock
	var f []SeqOp
	for _, id := range []byte{1, 2} {
		cl := int(id) % 2
		f = append(f,
			op(cl, L(0, 1, id, 0, 50, 1, 1)),
			op(cl, withF(L(0, 1, id, 0, 50, 1, 1), 0x01)),       // show when locked
			op(cl, withF(L(0, 1, id, 0, 60, 1, 1), 0x02)),       // update when locked
			op(cl, withF(L(0, 1, id, 0, 50, 0, 0), 0x08)),       // concurrent check, timeout 0
			op(cl, withTF(L(0, 1, id, 2, 50, 0, 0), 0x0200)),    // wait when unlocked
			op(cl, withEF(L(0, 1, id, 0, 50, 1, 0), efZeroAof)), // enters the long expiry table at once
			op(cl, withTF(L(0, 1, id, 3000, 50, 1, 0), fMilli)), // millisecond wait
			op(cl, withTF(L(0, 1, id, 2, 50, 0, 3), 0x10)),      // priority request (Rcount = priority 3), waits 2 s
			op(cl, U(0, 1, id)),
			op(cl, hapi.Cmd{Type: 2, Key: 1, Id: id, Flag: 0x01}), // unlock first
			op(cl, hapi.Cmd{Type: 2, Key: 1, Id: id, Flag: 0x02})) // cancel wait
	}
	f = append(f, op(0, L(0, 1, 3, 0, 50, 0, 0)), tick(1*sec), tick(4*sec))
	fd := 4
	if !quick {
		fd = 5
	}
	specs = append(specs, &SeqSpec{Name: "flags", Cfg: cfg, Alphabet: f, Depth: fd, MonC01: true, MaxStates: 300000})
	return specs
}

func init() {
	comboCheck(comboDef{id: "C01", level: "exploration",
		enum: func(q bool) []*EnumPlan {
			return []*EnumPlan{{Name: "text-pooled-commands", Cases: c01TextCases, Eval: evalC01Text}, {Name: "count-boundary", Cases: c01BoundCases, Eval: evalC01Bound}}
		},
		sched: func(q bool) *SchedPlan {
			specs := coreSchedSpecs(q)
			// holds that enter a long expiry table at once (persist-immediately flag, expiry > 5 s): the key's
			// manager is moved from the fast slot to the slow-path map right after the grant
			cfg1 := hapi.Config{FastKeys: 1, Concurrent: 1}
			ul := unlockAll([]byte{1, 2}, []byte{1, 2, 3})
			zl := func(req, key, id byte) Step { return C(withEF(L(req, key, id, 0, 10, 0, 0), efZeroAof)) }
			specs = append(specs,
				&EngSpec{Name: "long-expiry-lock-vs-lock", Cfg: cfg1, Fine: true,
					Threads: [][]Step{{zl(1, 1, 1)}, {C(L(2, 1, 2, 0, 10, 0, 0))}}, Unlock: ul},
				&EngSpec{Name: "long-expiry-two-keys-one-slot", Cfg: cfg1, Fine: true,
					Threads: [][]Step{{zl(1, 1, 1), C(U(2, 1, 1))}, {zl(3, 2, 2), C(L(4, 1, 3, 0, 10, 0, 0))}}, Unlock: ul})
			// the first requests for a database that does not exist yet arrive on two connections at once
			specs = append(specs,
				&EngSpec{Name: "first-use-of-a-database", Cfg: cfg1, Fine: true,
					Threads: [][]Step{{C(dbc(L(1, 1, 1, 0, 10, 0, 0), 3))}, {C(dbc(L(2, 1, 2, 0, 10, 0, 0), 3))}}, Unlock: []hapi.Cmd{dbc(U(8, 1, 1), 3), dbc(U(9, 1, 2), 3)}})
			// a request for key 1 is held up between finding the key's manager and taking its mutex; meanwhile the key is
			// released (a long-table hold: the manager goes back to the free ring at once), the ring of 8 turns once while
			// keys 2..9 are taken, and the SAME manager object now belongs to key 9; afterwards two more clients ask for key 1
			var recycle []Step
			recycle = append(recycle, C(U(1, 1, 1)))
			for k := byte(2); k <= 9; k++ {
				recycle = append(recycle, C(L(10+k, k, 10+k, 0, 100, 1, 0)))
			}
			specs = append(specs,
				&EngSpec{Name: "manager-recycled-under-a-parked-request", Cfg: hapi.Config{FastKeys: 16, Concurrent: 1}, Fine: true,
					Setup:   []Step{C(withEF(L(9, 1, 1, 0, 100, 1, 0), efZeroAof))},
					Threads: [][]Step{recycle, {C(L(30, 1, 2, 0, 100, 1, 0))}},
					Unlock:  []hapi.Cmd{L(31, 1, 3, 0, 100, 1, 0), L(32, 1, 4, 0, 100, 1, 0)}})
			return &SchedPlan{Specs: specs, Monitors: []MonitorFactory{MonitorC01}, Oracles: []Oracle{OracleC01Quiescent, OracleC01Replies},
				Bound: func(s *EngSpec, q bool) int {
					timed := false
					for _, t := range s.Threads {
						for _, st := range t {
							if st.SleepUntil > 0 {
								timed = true
							}
						}
					}
					if q {
						if timed || len(s.Threads) > 2 || strings.HasPrefix(s.Name, "long-expiry") || s.Name == "first-use-of-a-database" {
							return 2
						}
						if s.Name == "manager-recycled-under-a-parked-request" {
							return 1 // long threads: one preemption parks the request, everything else runs in order
						}
						return 3
					}
					if timed || len(s.Threads) > 2 {
						return 3
					}
					return 4
				},
				MaxExec: func(s *EngSpec, q bool) int64 {
					if q {
						return 8000
					}
					return 500000
				}}
		},
		seq: func(q bool) *SeqPlan {
			return &SeqPlan{Specs: c01SemSpecs(q), Oracles: []SeqOracle{SeqOracleC01}}
		},
		rule: "deviation-bounded DFS over thread schedules of 2-3 client threads on one key / two keys in one fast slot; every mutex, atomic and channel operation of the instrumented engine is a preemption point; the grant rule is checked by a transition monitor at every release of a shard mutex; a trace is the sequence of replies with virtual timestamps plus drained snapshots; non-trivial = at least two client threads were answered",
		note: "histories: breadth-first search over semaphore histories from keys filled to their limit (Count 1-3) and over mixed Counts from the empty key; the same transition monitor runs inside every step, and after every step the holders are counted",
		assumptions: []string{
			"runtime is sequentially consistent (no weak-memory effects); data races are outside this check",
			"deviation = any non-default scheduling choice (preemptive or not); executions run to completion",
			"value alphabet: schedules use Count in {0,1}, Rcount in {0,1}; histories use Count in {0..3}, up to 6 LockIds; timeouts/expiries of a few seconds",
		}})
}
