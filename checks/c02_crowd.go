package checks

import (
	"encoding/json"
	"fmt"

	"verif/explore"
	"verif/hapi"
)

// Crowded keys: the holders of a key are kept in an inline slice first and in a map-indexed queue once
// there are many; an owner must be found (to unlock, to re-enter) whichever representation its record
// sits in and whenever it arrived relative to the switch. For EVERY number of simultaneous holders N in
// 1..248 (ids 1..N, Count 300, Rcount 2) a set of probe histories is run on the real engine and compared
// step by step with the reference model (result codes, LCount / LRCount, holders with depths).
type c02CrowdArg struct {
	From, To int
}

func c02CrowdProbes(n int) [][]SeqOp {
	id := func(i int) byte {
		if i < 1 {
			i = 1
		}
		return byte(i)
	}
	lk := func(i int) SeqOp { return op(0, L(0, 1, id(i), 0, 60, 300, 2)) }
	ul := func(i int, rc uint8) SeqOp { return op(0, hapi.Cmd{Type: 2, Key: 1, Id: id(i), Rcount: rc}) }
	return [][]SeqOp{
		{ul(n, 0), ul(n, 0)},                  // the newest owner unlocks; a second unlock is refused
		{lk(n), ul(n, 0), ul(n, 0)},           // re-enters (depth 2), releases all depths, then nothing is left
		{lk(n), ul(n, 1), ul(n, 1), ul(n, 1)}, // re-enters, releases level by level
		{ul(n-1, 0), lk(n - 1), ul(n, 0)},     // the second newest leaves and comes back; the newest leaves
		{ul(1, 0), ul(n, 0), lk(n)},           // the oldest (current) leaves, then the newest, which comes back
		{op(0, hapi.Cmd{Type: 2, Key: 1, Id: 251, Flag: 0x01}), ul(n, 0), ul((n+1)/2, 0)}, // unlock-first, newest, middle
		{ul((n+1)/2, 0), lk(n), lk(n), lk(n)},                                             // middle leaves; the newest re-enters up to its Rcount and one more
	}
}

func c02CrowdCases(quick bool) []EnumCase {
	var out []EnumCase
	step := 8
	for f := 1; f <= 248; f += step {
		t := f + step - 1
		if t > 248 {
			t = 248
		}
		out = append(out, mkCase(fmt.Sprintf("crowded-key/%d-%d-holders", f, t), c02CrowdArg{f, t}))
	}
	return out
}

func evalC02Crowd(c *Ctx, cs EnumCase) EnumResult {
	var a c02CrowdArg
	if err := json.Unmarshal(cs.Arg, &a); err != nil {
		return EnumResult{Err: err.Error()}
	}
	res := EnumResult{Nontrivial: true}
	oracle := OracleRef(RefOpts{Results: true, State: true, Counts: true, Prefix: "C02"})
	seen := map[string]bool{}
	for n := a.From; n <= a.To; n++ {
		var ramp []SeqOp
		for i := 1; i <= n; i++ {
			ramp = append(ramp, op(i%2, L(0, 1, byte(i), 0, 60, 300, 2)))
		}
		spec := &SeqSpec{Name: fmt.Sprintf("crowded-key-%d", n), Cfg: hapi.Config{FastKeys: 1, Concurrent: 1}, Ramp: ramp}
		for pi, probe := range c02CrowdProbes(n) {
			res.Sub++
			run, engErr := ExecSeq(spec, probe)
			if engErr != "" {
				return EnumResult{Err: fmt.Sprintf("%d holders, probe %d: %s", n, pi, engErr)}
			}
			vs := oracle(run)
			if len(run.Monitor) > 0 {
				vs = append(vs, run.Monitor...)
			}
			if len(vs) == 0 {
				res.SubNT++
				continue
			}
			for _, v := range vs {
				sig := v.Sig + "/crowded-key"
				if seen[sig] {
					continue
				}
				seen[sig] = true
				res.Viol = append(res.Viol, explore.Violation{Sig: sig, Msg: fmt.Sprintf("key with %d simultaneous holders (ids 1..%d, Count 300, Rcount 2), probe %v: %s", n, n, histStrings(probe), v.Msg)})
			}
		}
	}
	res.Obs = fmt.Sprintf("holders %d..%d", a.From, a.To)
	return res
}
