package checks

import (
	"fmt"
	"strings"

	"verif/explore"
	cl "verif/gen/n0/client"
	"verif/hapi"
	"verif/vrt"
	"verif/vrt/vnet"
)

func ckey(b byte) [16]byte { var k [16]byte; k[15] = b; return k }

// c19Env runs body with a fresh full node and n connected clients; body gets a log function, the clients
// and a spawn/wait pair. Exploration is on while the spawned threads run.
type c19Log struct {
	ev []string
}

func (l *c19Log) add(f string, a ...interface{}) { l.ev = append(l.ev, fmt.Sprintf(f, a...)) }

func c19Scenario(nClients int, body func(node hapi.Node, cs []*cl.Client, lg *c19Log, spawn func(name string, f func()), wait func()), judge func(lg *c19Log) []explore.Violation) explore.Scenario {
	return func(opt vrt.Options) (*vrt.RT, explore.Outcome) {
		lg := &c19Log{}
		var engErr string
		opt.MaxPoints = 50_000_000
		opt.HB = true
		rt := vrt.Run(opt, func() {
			node := hapi.Factories["n0"](hapi.Config{FastKeys: 4, Concurrent: 1})
			if err := node.Start(); err != nil {
				engErr = err.Error()
				return
			}
			vrt.AdvanceTo(1300 * ms)
			var cs []*cl.Client
			for i := 0; i < nClients; i++ {
				c := cl.NewClient("127.0.0.1", 5658)
				if err := c.Open(); err != nil {
					engErr = "client open: " + err.Error()
					return
				}
				cs = append(cs, c)
			}
			vrt.Quiesce()
			running := 0
			spawn := func(name string, f func()) {
				running++
				vrt.GoN(name, func() {
					f()
					running--
				})
			}
			wait := func() {
				vrt.SetExplore(true)
				vrt.R.Block(func() bool { return running == 0 })
				vrt.Quiesce()
				vrt.SetExplore(false)
			}
			body(node, cs, lg, spawn, wait)
		})
		out := explore.Outcome{Trace: strings.Join(lg.ev, " ")}
		if engErr != "" {
			out.EngineErr = engErr
			return rt, out
		}
		if rt.Diverged {
			out.EngineErr = "point budget exceeded"
			return rt, out
		}
		if rt.Crash != nil {
			out.Violations = []explore.Violation{{Sig: "C19:crash", Msg: rt.Crash.Value + "\n" + firstLines(rt.Crash.Stack, 16)}}
			return rt, out
		}
		if mr := rt.MapRaceReport(); mr != "" {
			out.Violations = []explore.Violation{{Sig: "C19:crash/concurrent-map-access", Msg: "two threads access a map without an ordering between them (the Go runtime kills the process when they meet): " + mr}}
			return rt, out
		}
		if rt.Deadlock != "" {
			out.Violations = []explore.Violation{{Sig: "C19:deadlock", Msg: rt.Deadlock}}
			return rt, out
		}
		out.Violations = judge(lg)
		out.Nontrivial = len(lg.ev) >= 4
		return rt, out
	}
}

// insideOracle: events "+name" (entered) and "-name" (left): never more than max inside at once.
func insideOracle(sig string, max int, excl map[string]bool) func(lg *c19Log) []explore.Violation {
	return func(lg *c19Log) []explore.Violation {
		in := map[string]bool{}
		for _, e := range lg.ev {
			if strings.HasPrefix(e, "!") {
				return []explore.Violation{{Sig: "C19:" + sig + "-error", Msg: e + " in " + strings.Join(lg.ev, " ")}}
			}
			if strings.HasPrefix(e, "+") {
				in[e[1:]] = true
				n, ex := 0, false
				for k := range in {
					n++
					if excl[k] {
						ex = true
					}
				}
				if n > max || (ex && n > 1) {
					return []explore.Violation{{Sig: "C19:" + sig, Msg: fmt.Sprintf("%d parties inside at once (allowed %d, exclusive party present: %v): %s", n, max, ex, strings.Join(lg.ev, " "))}}
				}
			}
			if strings.HasPrefix(e, "-") {
				delete(in, e[1:])
			}
		}
		return nil
	}
}

func c19Plan(quick bool) *FuncPlan {
	bound := func(q bool) int {
		return 2
	}
	var scens []*FuncScenario
	addInside := func(name string, desc []string, nClients, parties, max int, excl map[string]bool, acquire func(cs []*cl.Client, i int) (enter func() error, leave func() error)) {
		sc := c19Scenario(nClients, func(node hapi.Node, cs []*cl.Client, lg *c19Log, spawn func(string, func()), wait func()) {
			for i := 0; i < parties; i++ {
				i := i
				p := fmt.Sprintf("p%d", i)
				enter, leave := acquire(cs, i)
				spawn(p, func() {
					if err := enter(); err != nil {
						lg.add("!%s-acquire:%v", p, err)
						return
					}
					lg.add("+%s", p)
					vrt.Yield()
					lg.add("-%s", p)
					if err := leave(); err != nil {
						lg.add("!%s-release:%v", p, err)
					}
				})
			}
			wait()
		}, insideOracle(name, max, excl))
		scens = append(scens, &FuncScenario{Name: name, Desc: desc, Sc: sc, Bound: bound})
	}
	addInside("lock-exclusive", []string{"3 goroutines on 2 connections: Lock(key, timeout 9, expiry 60).Lock(); yield; Unlock()"}, 2, 3, 1, nil,
		func(cs []*cl.Client, i int) (func() error, func() error) {
			l := cs[i%2].Lock(ckey(1), 9, 60)
			return func() error { _, e := l.Lock(); return e }, func() error { _, e := l.Unlock(); return e }
		})
	for _, n := range []int{1, 2} {
		n := n
		addInside(fmt.Sprintf("semaphore-%d", n), []string{fmt.Sprintf("3 goroutines on 2 connections: Semaphore(key, 9, 60, %d).Acquire(); yield; Release()", n)}, 2, 3, n, nil,
			func(cs []*cl.Client, i int) (func() error, func() error) {
				s := cs[i%2].Semaphore(ckey(2), 9, 60, uint16(n))
				return func() error { _, e := s.Acquire(); return e }, func() error { _, e := s.Release(); return e }
			})
		addInside(fmt.Sprintf("maxconcurrentflow-%d", n), []string{fmt.Sprintf("3 goroutines, one flow object each: MaxConcurrentFlow(key, %d, 9, 60).Acquire(); yield; Release()", n)}, 2, 3, n, nil,
			func(cs []*cl.Client, i int) (func() error, func() error) {
				f := cs[i%2].MaxConcurrentFlow(ckey(3), uint16(n), 9, 60)
				return func() error { _, e := f.Acquire(); return e }, func() error { _, e := f.Release(); return e }
			})
	}
	addInside("rwlock", []string{"p0 writer: RWLock.Lock(); p1,p2 readers: RLock(); yield; unlock"}, 2, 3, 2, map[string]bool{"p0": true},
		func(cs []*cl.Client, i int) (func() error, func() error) {
			rw := cs[i%2].RWLock(ckey(4), 9, 60)
			if i == 0 {
				return func() error { _, e := rw.Lock(); return e }, func() error { _, e := rw.Unlock(); return e }
			}
			return func() error { _, e := rw.RLock(); return e }, func() error { _, e := rw.RUnlock(); return e }
		})
	// RLock: re-entrant for its holder only, as many unlocks as locks
	scens = append(scens, &FuncScenario{Name: "rlock-reentrant", Bound: bound, Desc: []string{"p0: RLock.Lock() twice, yield, Unlock(), yield, Unlock(); p1: another RLock on the key Lock(); yield; Unlock()"},
		Sc: c19Scenario(2, func(node hapi.Node, cs []*cl.Client, lg *c19Log, spawn func(string, func()), wait func()) {
			a := cs[0].RLock(ckey(5), 9, 60)
			b := cs[1].RLock(ckey(5), 9, 60)
			spawn("p0", func() {
				if _, e := a.Lock(); e != nil {
					lg.add("!p0-lock1:%v", e)
					return
				}
				if _, e := a.Lock(); e != nil {
					lg.add("!p0-lock2:%v", e)
					return
				}
				lg.add("+p0")
				vrt.Yield()
				if _, e := a.Unlock(); e != nil {
					lg.add("!p0-unlock1:%v", e)
				}
				vrt.Yield() // still holds one level
				lg.add("-p0")
				if _, e := a.Unlock(); e != nil {
					lg.add("!p0-unlock2:%v", e)
				}
			})
			spawn("p1", func() {
				if _, e := b.Lock(); e != nil {
					lg.add("!p1-lock:%v", e)
					return
				}
				lg.add("+p1")
				vrt.Yield()
				lg.add("-p1")
				_, _ = b.Unlock()
			})
			wait()
		}, insideOracle("rlock", 1, nil))})
	// Event: Wait returns successfully only once the event is set
	scens = append(scens, &FuncScenario{Name: "event-wait-set", Bound: bound, Desc: []string{"root: Event.Clear(); p0: Wait(9); p1: yield; Set()"},
		Sc: c19Scenario(2, func(node hapi.Node, cs []*cl.Client, lg *c19Log, spawn func(string, func()), wait func()) {
			ev := cs[0].Event(ckey(6), 9, 60, true)
			ev2 := cs[1].Event(ckey(6), 9, 60, true)
			if _, e := ev.Clear(); e != nil {
				lg.add("!clear:%v", e)
				return
			}
			spawn("p0", func() {
				_, e := ev2.Wait(9)
				if e != nil {
					lg.add("!wait:%v", e)
					return
				}
				lg.add("wait-returned")
			})
			spawn("p1", func() {
				vrt.Yield()
				lg.add("set-called")
				if _, e := ev.Set(); e != nil {
					lg.add("!set:%v", e)
				}
			})
			wait()
		}, func(lg *c19Log) []explore.Violation {
			setAt, waitAt := -1, -1
			for i, e := range lg.ev {
				if strings.HasPrefix(e, "!") {
					return []explore.Violation{{Sig: "C19:event-error", Msg: strings.Join(lg.ev, " ")}}
				}
				if e == "set-called" {
					setAt = i
				}
				if e == "wait-returned" {
					waitAt = i
				}
			}
			if waitAt >= 0 && (setAt < 0 || waitAt < setAt) {
				return []explore.Violation{{Sig: "C19:event-wait-before-set", Msg: "Event.Wait returned before Set was called: " + strings.Join(lg.ev, " ")}}
			}
			if waitAt < 0 {
				return []explore.Violation{{Sig: "C19:event-wait-never-returned", Msg: strings.Join(lg.ev, " ")}}
			}
			return nil
		})})
	// PriorityLock: hand-over to the highest waiting priority
	scens = append(scens, &FuncScenario{Name: "prioritylock-handover", Bound: bound, Desc: []string{"root holds PriorityLock(prio 9); p1 (prio 1) and p5 (prio 5) queue; root unlocks once both are queued"},
		Sc: c19Scenario(3, func(node hapi.Node, cs []*cl.Client, lg *c19Log, spawn func(string, func()), wait func()) {
			h := cs[0].PriorityLock(ckey(7), 9, 9, 60)
			if _, e := h.Lock(); e != nil {
				lg.add("!hold:%v", e)
				return
			}
			for _, p := range []uint8{1, 5} {
				p := p
				pl := cs[1+int(p)/5].PriorityLock(ckey(7), p, 20, 60)
				spawn(fmt.Sprintf("p%d", p), func() {
					if _, e := pl.Lock(); e != nil {
						lg.add("!p%d:%v", p, e)
						return
					}
					lg.add("+p%d", p)
					lg.add("-p%d", p)
					_, _ = pl.Unlock()
				})
			}
			spawn("holder", func() {
				// release only once both are queued on the server
				vrt.R.Block(func() bool {
					ks := node.Snapshot().Key(0, ckey(7))
					return ks != nil && len(ks.Waiters) == 2
				})
				lg.add("released")
				if _, e := h.Unlock(); e != nil {
					lg.add("!unlock:%v", e)
				}
			})
			wait()
		}, func(lg *c19Log) []explore.Violation {
			s := strings.Join(lg.ev, " ")
			if strings.Contains(s, "!") {
				return []explore.Violation{{Sig: "C19:prioritylock-error", Msg: s}}
			}
			i5, i1 := strings.Index(s, "+p5"), strings.Index(s, "+p1")
			if i5 < 0 || i1 < 0 {
				return []explore.Violation{{Sig: "C19:prioritylock-starved", Msg: s}}
			}
			if i1 < i5 {
				return []explore.Violation{{Sig: "C19:prioritylock-order", Msg: "both requests were queued when the holder released, yet priority 1 entered before priority 5: " + s}}
			}
			return insideOracle("prioritylock", 1, nil)(lg)
		})})
	// PriorityLock: a waiter is queued, the holder's Unlock has RETURNED, then a low-priority try-lock arrives on
	// another connection: the key was handed to the waiter at the release, the newcomer must be refused
	scens = append(scens, &FuncScenario{Name: "prioritylock-newcomer-after-release", Bound: bound, Desc: []string{"root holds PriorityLock(prio 9); p9 (prio 9) queues; root unlocks once it is queued; after Unlock has returned a prio-1 try-lock arrives on a third connection"},
		Sc: c19Scenario(3, func(node hapi.Node, cs []*cl.Client, lg *c19Log, spawn func(string, func()), wait func()) {
			h := cs[0].PriorityLock(ckey(7), 9, 9, 60)
			if _, e := h.Lock(); e != nil {
				lg.add("!hold:%v", e)
				return
			}
			pl := cs[1].PriorityLock(ckey(7), 9, 20, 60)
			spawn("p9", func() {
				if _, e := pl.Lock(); e != nil {
					lg.add("!p9:%v", e)
					return
				}
				lg.add("+p9")
			})
			released := false
			spawn("holder", func() {
				vrt.R.Block(func() bool {
					ks := node.Snapshot().Key(0, ckey(7))
					return ks != nil && len(ks.Waiters) == 1
				})
				if _, e := h.Unlock(); e != nil {
					lg.add("!unlock:%v", e)
				}
				lg.add("released")
				released = true
			})
			nl := cs[2].PriorityLock(ckey(7), 1, 0, 60)
			spawn("newcomer", func() {
				vrt.R.Block(func() bool { return released })
				if _, e := nl.Lock(); e != nil {
					lg.add("newcomer-refused")
					return
				}
				lg.add("+newcomer")
			})
			wait()
		}, func(lg *c19Log) []explore.Violation {
			s := strings.Join(lg.ev, " ")
			if strings.Contains(s, "!") {
				return []explore.Violation{{Sig: "C19:prioritylock-error", Msg: s}}
			}
			if strings.Contains(s, "+newcomer") {
				return []explore.Violation{{Sig: "C19:prioritylock-newcomer-overtakes-waiter", Msg: "a priority-9 request was queued when the holder released; a priority-1 try-lock sent after the holder's Unlock had returned was granted the key: " + s}}
			}
			if !strings.Contains(s, "+p9") {
				return []explore.Violation{{Sig: "C19:prioritylock-starved", Msg: s}}
			}
			return nil
		})})
	// the same without waiting for the reply: the try-lock (issued inside the server process, no connection of its
	// own) runs at any moment relative to the release. Before the release the holder has the key, from the release on
	// the queued priority-9 request has it and never gives it up: the try-lock cannot be granted in any order of events
	scens = append(scens, &FuncScenario{Name: "prioritylock-newcomer-during-release", Bound: bound, Desc: []string{"root holds PriorityLock(prio 9); p9 (prio 9) queues and keeps the key once it has it; root unlocks once it is queued; a prio-1 try-lock runs at any moment"},
		Sc: c19Scenario(2, func(node hapi.Node, cs []*cl.Client, lg *c19Log, spawn func(string, func()), wait func()) {
			h := cs[0].PriorityLock(ckey(7), 9, 9, 60)
			if _, e := h.Lock(); e != nil {
				lg.add("!hold:%v", e)
				return
			}
			pl := cs[1].PriorityLock(ckey(7), 9, 20, 60)
			spawn("p9", func() {
				if _, e := pl.Lock(); e != nil {
					lg.add("!p9:%v", e)
					return
				}
				lg.add("+p9")
			})
			mc := node.NewMemClient("newcomer")
			spawn("holder", func() {
				vrt.R.Block(func() bool {
					ks := node.Snapshot().Key(0, ckey(7))
					return ks != nil && len(ks.Waiters) == 1
				})
				spawn("newcomer", func() {
					cmd := hapi.Cmd{Type: 1, Req: 9, Key: 7, Id: 99, Timeout: 0, TimeoutFlag: 0x10, Expried: 60, Rcount: 1}.Build()
					mc.Do(cmd)
				})
				if _, e := h.Unlock(); e != nil {
					lg.add("!unlock:%v", e)
				}
				lg.add("released")
			})
			wait()
			for _, e := range node.Events() {
				if e.Client == "newcomer" && e.Req == 9 {
					lg.add("newcomer=%s", hapi.ResultName(e.Result))
				}
			}
		}, func(lg *c19Log) []explore.Violation {
			s := strings.Join(lg.ev, " ")
			if strings.Contains(s, "!") && !strings.Contains(s, "newcomer=SUCCED") {
				return []explore.Violation{{Sig: "C19:prioritylock-error", Msg: s}}
			}
			if strings.Contains(s, "newcomer=SUCCED") {
				return []explore.Violation{{Sig: "C19:prioritylock-newcomer-overtakes-waiter", Msg: "a priority-9 request was queued when the holder released and never gives the key up; a priority-1 try-lock racing with the release was granted the key: " + s}}
			}
			if !strings.Contains(s, "+p9") || !strings.Contains(s, "newcomer=") {
				return []explore.Violation{{Sig: "C19:prioritylock-starved", Msg: s}}
			}
			return nil
		})})
	// many goroutines share ONE client connection; their replies arrive in one burst (the server -> client
	// direction is held back until all are answered): every caller must get the reply of its own request
	for _, n := range []int{4, 9, 12, 20} {
		n := n
		scens = append(scens, &FuncScenario{Name: fmt.Sprintf("shared-connection-trylock-burst-%d", n), Bound: func(q bool) int { return 1 },
			Desc: []string{fmt.Sprintf("%d goroutines share one client connection and try-lock (timeout 0) the same key; the replies are delivered to the client in one burst", n)},
			Sc: c19Scenario(1, func(node hapi.Node, cs []*cl.Client, lg *c19Log, spawn func(string, func()), wait func()) {
				var link *vnet.Link
				for _, l := range vnet.Links() {
					if l.ListenAddr == nodeAddr(0) {
						link = l
					}
				}
				if link == nil {
					lg.add("!no-link")
					return
				}
				link.BtoA.Hold = true
				var held []*cl.Lock
				for i := 0; i < n; i++ {
					i := i
					lk := cs[0].Lock(ckey(9), 0, 30)
					spawn(fmt.Sprintf("p%d", i), func() {
						if _, e := lk.Lock(); e != nil {
							lg.add("x%d", i)
							return
						}
						lg.add("+p%d", i)
						held = append(held, lk)
					})
				}
				spawn("release-burst", func() {
					vrt.R.Block(func() bool { return link.BtoA.Pending() >= n*64 })
					link.BtoA.Hold = false
				})
				wait()
				ks := node.Snapshot().Key(0, ckey(9))
				holders := 0
				if ks != nil {
					holders = len(ks.Holds)
				}
				lg.add("server-holders=%d", holders)
				for _, lk := range held {
					_, _ = lk.Unlock()
				}
			}, func(lg *c19Log) []explore.Violation {
				s := strings.Join(lg.ev, " ")
				if strings.Contains(s, "!") {
					return []explore.Violation{{Sig: "C19:shared-connection-error", Msg: s}}
				}
				wins := strings.Count(s, "+p")
				if wins != 1 || !strings.Contains(s, "server-holders=1") {
					return []explore.Violation{{Sig: "C19:shared-connection-wrong-reply", Msg: fmt.Sprintf("%d goroutines sharing one connection try-locked one key: %d of them were told they hold it (the server has exactly one holder): %s", n, wins, s)}}
				}
				return nil
			})})
	}
	// PriorityLock with three waiters, every arrival order: served by descending priority
	for _, perm := range [][]uint8{{1, 2, 3}, {1, 3, 2}, {2, 1, 3}, {2, 3, 1}, {3, 1, 2}, {3, 2, 1}} {
		perm := perm
		scens = append(scens, &FuncScenario{Name: fmt.Sprintf("prioritylock-three-waiters-%d%d%d", perm[0], perm[1], perm[2]), Bound: func(q bool) int { return bound(q) - 1 },
			Desc: []string{fmt.Sprintf("root holds PriorityLock(prio 9); waiters with priorities %v queue in this order (each once the previous one is queued on the server); root unlocks once all three are queued", perm)},
			Sc: c19Scenario(4, func(node hapi.Node, cs []*cl.Client, lg *c19Log, spawn func(string, func()), wait func()) {
				h := cs[0].PriorityLock(ckey(7), 9, 9, 60)
				if _, e := h.Lock(); e != nil {
					lg.add("!hold:%v", e)
					return
				}
				queued := func(n int) func() bool {
					return func() bool {
						ks := node.Snapshot().Key(0, ckey(7))
						return ks != nil && len(ks.Waiters) >= n
					}
				}
				for i, p := range perm {
					i, p := i, p
					pl := cs[1+i].PriorityLock(ckey(7), p, 20, 60)
					spawn(fmt.Sprintf("p%d", p), func() {
						vrt.R.Block(queued(i))
						if _, e := pl.Lock(); e != nil {
							lg.add("!p%d:%v", p, e)
							return
						}
						lg.add("+p%d", p)
						lg.add("-p%d", p)
						_, _ = pl.Unlock()
					})
				}
				spawn("holder", func() {
					vrt.R.Block(queued(3))
					lg.add("released")
					if _, e := h.Unlock(); e != nil {
						lg.add("!unlock:%v", e)
					}
				})
				wait()
			}, func(lg *c19Log) []explore.Violation {
				s := strings.Join(lg.ev, " ")
				if strings.Contains(s, "!") {
					return []explore.Violation{{Sig: "C19:prioritylock-error", Msg: s}}
				}
				i3, i2, i1 := strings.Index(s, "+p3"), strings.Index(s, "+p2"), strings.Index(s, "+p1")
				if i3 < 0 || i2 < 0 || i1 < 0 {
					return []explore.Violation{{Sig: "C19:prioritylock-starved", Msg: s}}
				}
				if !(i3 < i2 && i2 < i1) {
					return []explore.Violation{{Sig: "C19:prioritylock-order", Msg: fmt.Sprintf("all three requests (arrival order %v) were queued when the holder released, yet they entered in the order: %s", perm, s)}}
				}
				return insideOracle("prioritylock", 1, nil)(lg)
			})})
	}
	return &FuncPlan{Scens: scens, MaxExec: func(q bool) int64 {
		if q {
			return 500
		}
		return 100000
	}}
}

func init() {
	Registry["C19"] = func(c *Ctx) int {
		p := c19Plan(c.Quick())
		ep := c19SharedPlan()
		if c.Worker >= 0 {
			if c.Scen == ep.Name {
				return ep.Worker(c)
			}
			if c.Scen == c19PrimPlan().Name {
				return c19PrimPlan().Worker(c)
			}
			if c.Scen == c19WaitPlan().Name {
				return c19WaitPlan().Worker(c)
			}
			if c.Scen == c19EdgePlan().Name {
				return c19EdgePlan().Worker(c)
			}
			return p.Worker(c)
		}
		if len(c.Args) == 2 && c.Args[0] == "--replay" {
			return p.ReplayFile(c, c.Args[1])
		}
		res := p.Master(c)
		if res.EngineErr != "" {
			return EngineError("%s", res.EngineErr)
		}
		sum := &EnumSummary{}
		ep.Master(c, sum)
		if sum.EngineErr != "" {
			return EngineError("%s", sum.EngineErr)
		}
		c19PrimPlan().Master(c, sum)
		if sum.EngineErr != "" {
			return EngineError("%s", sum.EngineErr)
		}
		c19WaitPlan().Master(c, sum)
		if sum.EngineErr != "" {
			return EngineError("%s", sum.EngineErr)
		}
		c19EdgePlan().Master(c, sum)
		if sum.EngineErr != "" {
			return EngineError("%s", sum.EngineErr)
		}
		c.ReportKnown(sum.KnownHits)
		res.Violations += sum.Violations
		cov := p.Coverage(res, "deviation-bounded DFS over schedules of 2-3 goroutines using the real (instrumented) Go client over the in-memory network against a full node: choice points are network reads/writes/accepts, explicit yields between enter and leave, and every blocking; oracle on definitely-held intervals (acquire returned ... release called); non-trivial = at least two parties entered", c.Quick())
		cov["enumerations"] = sum.Coverage("three complete enumerations through the real client against a full node: (1) rwlock-shared-object-histories: every legitimate history (no reader inside longer than two ticks of 1.7 s, read-lock expiry 5 s) of enter / leave (oldest, newest, middle) / tick / writer-try-lock events on ONE shared client.RWLock object (quick: length <= 8, <= 2 readers inside, writer last; thorough: length <= 10, <= 3 readers, writer anywhere), oracle: every call succeeds and the writer is admitted exactly when no reader is inside; (2) primitive-histories: every history of non-blocking calls (depth 4-5 quick, 6-7 thorough) on 2-3 objects of each primitive (Lock, RLock, PriorityLock, Semaphore 1-3, MaxConcurrentFlow 1-2, RWLock, Event in both modes) plus clock ticks, over two connections, one shared connection, through a follower port, and with a reconnect of one connection, each call compared with the textbook primitive; (3) event-wait-timeouts: 2-3 goroutines waiting on one event with every combination of timeouts, the event set at a chosen moment or never, both modes: Wait succeeds only after Set and times out only at its own deadline; (4) expiry-boundary: every primitive taken with expiry 2 s at every 100 ms phase of the server's second still refuses a contender 1.0 / 1.45 / 1.9 s later")
		c.WriteEvidence("exploration", cov, []string{"coarse scheduling: handlers between network operations are atomic", "2-3 goroutines, n in {1,2}; 64-goroutine stress with random hold times is sampling and not claimed", "leader only in this check (the follower forwarding port is covered by C10)"}, res.Violations)
		fmt.Printf("C19 %s: %d executions, %d distinct traces, %d violations\n", c.Tier, res.Total.Executions, len(res.Total.Traces), res.Violations)
		if res.Violations > 0 {
			return 1
		}
		return 0
	}
}
