package checks

// C14 (codec part): exhaustive bounded enumerations on the plain, uninstrumented package
// github.com/snower/slock/protocol. Nothing here is sampled: every group is a nested loop over a
// stated finite set. Groups:
//   encode-decode          struct -> Encode -> Decode -> same field values, all 20 command/result types
//   readme-offsets         LockCommand / LockResultCommand bytes sit where README.md says
//   decode-encode          64-byte frame -> Decode -> Encode reproduces every defined byte
//   text-chunking          BuildRequest/BuildResponse output parses back identically under every chunking
//   result-text-rendering  every RESULT_* code has a text rendering
//
// Disagreements are reported as found; nothing is normalised away. Things the property does not
// promise are not violations: padding bytes, Decode errors on invalid frames, Encode refusing
// over-long strings (those are listed as "note:" lines in Samples).

import (
	"bytes"
	"encoding/hex"
	"fmt"
	"os"
	"reflect"
	"regexp"
	"runtime"
	"sort"
	"strconv"
	"strings"
	"sync"
	"sync/atomic"

	"github.com/snower/slock/protocol"

	"verif/explore"
)

// C14Group is one enumeration group.
type C14Group struct {
	Name        string
	Evaluations int                 // number of cases evaluated (measured)
	Distinct    int                 // number of DISTINCT non-trivial cases (measured)
	Violations  []explore.Violation // Sig starts with "C14:"
	Samples     []string            // concrete cases written out, plus "note:" lines
}

// RunC14Codec runs all groups. quick: < 20 s on one core; thorough: enlarged sets, uses all cores.
func RunC14Codec(quick bool) []C14Group {
	return []C14Group{
		c14EncodeDecode(quick),
		c14ReadmeOffsets(quick),
		c14DecodeEncode(quick),
		c14TextChunking(quick),
		c14ResultText(quick),
	}
}

const c14MaxViolations = 6

// ---------------------------------------------------------------------------------------------
// accumulator, deterministic parallel runner

type c14Viol struct {
	sig, msg string
	count    int
}

type c14Acc struct {
	evals, distinct int
	keys            []string
	viol            map[string]*c14Viol
	samples         []string
	counters        map[string]int
}

func c14NewAcc() *c14Acc {
	return &c14Acc{viol: map[string]*c14Viol{}, counters: map[string]int{}}
}

// add records one failing case; cases are deduplicated by sig+desc, the first one keeps its message.
// msg is a func so the (expensive) text is only built for the first case of a class.
func (a *c14Acc) add(sig, desc string, msg func() string) {
	k := sig + "|" + desc
	if v, ok := a.viol[k]; ok {
		v.count++
		return
	}
	a.viol[k] = &c14Viol{sig: sig, msg: "[" + desc + "] " + msg(), count: 1}
	a.keys = append(a.keys, k)
}

func (a *c14Acc) merge(b *c14Acc) {
	if b == nil {
		return
	}
	a.evals += b.evals
	a.distinct += b.distinct
	for _, k := range b.keys {
		bv := b.viol[k]
		if v, ok := a.viol[k]; ok {
			v.count += bv.count
		} else {
			a.viol[k] = bv
			a.keys = append(a.keys, k)
		}
	}
	a.samples = append(a.samples, b.samples...)
	for k, n := range b.counters {
		a.counters[k] += n
	}
}

func (a *c14Acc) group(name string) C14Group { return a.groupMax(name, c14MaxViolations) }

func (a *c14Acc) groupMax(name string, max int) C14Group {
	g := C14Group{Name: name, Evaluations: a.evals, Distinct: a.distinct, Samples: a.samples}
	var suppressed []string
	// at most max classes are listed: first the first class of every distinct Sig/form (in
	// order of discovery), then further classes in order; the rest is named in a Samples note.
	chosen := map[string]bool{}
	seenSig := map[string]bool{}
	for _, k := range a.keys {
		// selection key: Sig plus the leading word of the description (for the text group: the reply
		// form req / + / - / $ / *), so that every form of every class is represented first
		sk := a.viol[k].sig + "|" + strings.SplitN(strings.TrimPrefix(k, a.viol[k].sig+"|"), ":", 2)[0]
		sk = strings.TrimSuffix(sk, " pipelined")
		if !seenSig[sk] && len(chosen) < max {
			seenSig[sk] = true
			chosen[k] = true
		}
	}
	for _, k := range a.keys {
		if len(chosen) < max {
			chosen[k] = true
		}
	}
	for _, k := range a.keys {
		v := a.viol[k]
		if chosen[k] {
			g.Violations = append(g.Violations, explore.Violation{Sig: v.sig, Msg: fmt.Sprintf("%s (%d failing cases in this class)", v.msg, v.count)})
		} else {
			suppressed = append(suppressed, fmt.Sprintf("%s x%d", k, v.count))
		}
	}
	if len(suppressed) > 0 {
		g.Samples = append(g.Samples, fmt.Sprintf("note: %d further violation classes not listed in Violations: %s", len(suppressed), strings.Join(suppressed, "; ")))
	}
	if len(a.counters) > 0 {
		ks := make([]string, 0, len(a.counters))
		for k := range a.counters {
			ks = append(ks, k)
		}
		sort.Strings(ks)
		parts := make([]string, 0, len(ks))
		for _, k := range ks {
			parts = append(parts, fmt.Sprintf("%s=%d", k, a.counters[k]))
		}
		g.Samples = append(g.Samples, "note: counters "+strings.Join(parts, " "))
	}
	return g
}

// c14Run executes tasks on GOMAXPROCS workers and merges results in task order (deterministic).
func c14Run(tasks []func() *c14Acc) *c14Acc {
	res := make([]*c14Acc, len(tasks))
	workers := runtime.GOMAXPROCS(0)
	if workers > len(tasks) {
		workers = len(tasks)
	}
	var next int64
	var wg sync.WaitGroup
	for w := 0; w < workers; w++ {
		wg.Add(1)
		go func() {
			defer wg.Done()
			for {
				i := int(atomic.AddInt64(&next, 1)) - 1
				if i >= len(tasks) {
					return
				}
				func() {
					defer func() {
						if r := recover(); r != nil {
							a := c14NewAcc()
							a.add("C14:harness-panic", "task", func() string { return fmt.Sprintf("task %d: %v", i, r) })
							res[i] = a
						}
					}()
					res[i] = tasks[i]()
				}()
			}
		}()
	}
	wg.Wait()
	total := c14NewAcc()
	for _, r := range res {
		total.merge(r)
	}
	return total
}

func c14Hash(b []byte) uint64 {
	h := uint64(14695981039346656037)
	for _, c := range b {
		h ^= uint64(c)
		h *= 1099511628211
	}
	return h
}

func c14CountDistinct(h []uint64) int {
	if len(h) == 0 {
		return 0
	}
	sort.Slice(h, func(i, j int) bool { return h[i] < h[j] })
	n := 1
	for i := 1; i < len(h); i++ {
		if h[i] != h[i-1] {
			n++
		}
	}
	return n
}

// c14Try calls an Encode/Decode method value and converts a panic into a string.
func c14Try(f func([]byte) error, b []byte) (err error, pan string) {
	defer func() {
		if r := recover(); r != nil {
			pan = fmt.Sprint(r)
		}
	}()
	return f(b), ""
}

var c14Digits = regexp.MustCompile(`[0-9]+`)

func c14Hex(b []byte) string { return hex.EncodeToString(b) }

// ---------------------------------------------------------------------------------------------
// type table: every command / result type that exists in protocol/command.go, with the byte
// layout read from its Encode/Decode (verified against Decode by a self-check in group 3).
// protocol has no PublishCommand / WillLock types: COMMAND_WILL_LOCK/WILL_UNLOCK travel as
// LockCommand with another CommandType (covered below), COMMAND_PUBLISH frames are built by
// server.PublishLock, which is not part of the protocol package.

type c14Codec interface {
	Encode(buf []byte) error
	Decode(buf []byte) error
}

const (
	c14KInt    = iota // little-endian unsigned integer
	c14KBytes         // [16]byte
	c14KStr           // NUL padded string
	c14KLenStr        // string whose length lives in the preceding byte (LeaderResultCommand.Host)
)

type c14Field struct {
	name   string // reflect path, "." separated
	off    int
	size   int
	kind   int
	header bool            // Magic / Version / CommandType: base frames keep the valid constant
	vals   []reflect.Value // vals[0] distinctive ("typical"), vals[1] maximum, vals[2] zero, then the other boundaries
	bad    []bool          // value is outside what the code defines as valid (Encode must refuse it)
	set    func(root reflect.Value, v reflect.Value)
}

type c14Type struct {
	name    string
	mk      func() c14Codec
	fields  []c14Field
	dynamic func(frame []byte) [64]bool // defined-byte set when it depends on the frame
}

func (f *c14Field) nvalid() int {
	n := 0
	for _, b := range f.bad {
		if b {
			break
		}
		n++
	}
	return n
}

// c14D is the distinctive value of frame byte p: all 64 values differ, none is 0x00 or 0xff.
func c14D(p int) byte { return byte(0x21 + 3*p) }

func c14Resolve(root reflect.Value, path string) reflect.Value {
	for _, p := range strings.Split(path, ".") {
		root = root.FieldByName(p)
	}
	return root
}

func c14DedupU64(in []uint64) []uint64 {
	seen := map[uint64]bool{}
	var out []uint64
	for _, v := range in {
		if !seen[v] {
			seen[v] = true
			out = append(out, v)
		}
	}
	return out
}

func c14IntField(name string, off, size int, first ...uint64) c14Field {
	var dist uint64
	for i := 0; i < size; i++ {
		dist |= uint64(c14D(off+i)) << (8 * uint(i))
	}
	max := ^uint64(0) >> (64 - 8*uint(size))
	raw := append([]uint64{}, first...) // explicit "typical" values first (header constants)
	if len(first) == 0 {
		raw = append(raw, dist)
	}
	raw = append(raw, max, 0, 1, 0x7f, 0x80, 0xfe)
	if size >= 2 {
		raw = append(raw, 0xff, 0x100, 0x7fff, 0x8000, 0xfffe)
	}
	if size >= 4 {
		raw = append(raw, 0xffff, 0x10000, 0x7fffffff, 0x80000000, 0xfffffffe)
	}
	if size >= 8 {
		raw = append(raw, 0xffffffff, 0x100000000, 0x7fffffffffffffff, 0x8000000000000000, 0xfffffffffffffffe)
	}
	if len(first) > 0 {
		raw = append(raw, dist)
	}
	f := c14Field{name: name, off: off, size: size, kind: c14KInt}
	for _, v := range c14DedupU64(raw) {
		v &= max
		var rv reflect.Value
		switch size {
		case 1:
			rv = reflect.ValueOf(uint8(v))
		case 2:
			rv = reflect.ValueOf(uint16(v))
		case 4:
			rv = reflect.ValueOf(uint32(v))
		default:
			rv = reflect.ValueOf(uint64(v))
		}
		f.vals = append(f.vals, rv)
		f.bad = append(f.bad, false)
	}
	return f
}

func c14IdField(name string, off int) c14Field {
	var dist, ff, zero, asc, last [16]byte
	for i := 0; i < 16; i++ {
		dist[i] = c14D(off + i)
		ff[i] = 0xff
		asc[i] = byte(i + 1)
	}
	last[15] = 1
	f := c14Field{name: name, off: off, size: 16, kind: c14KBytes}
	for _, v := range [][16]byte{dist, ff, zero, asc, last} {
		f.vals = append(f.vals, reflect.ValueOf(v))
		f.bad = append(f.bad, false)
	}
	return f
}

const c14Letters = "abcdefghijklmnopqrstuvwxyzABCDEFGHIJKLMNOPQRSTUVWXYZ0123456789-_"

func c14Name(n int) string {
	var sb strings.Builder
	for i := 0; i < n; i++ {
		sb.WriteByte(c14Letters[i%len(c14Letters)])
	}
	return sb.String()
}

// c14StrField: valid lengths 0..max (the code's own limit: Encode returns an error beyond it),
// then over-long lengths to observe the behaviour (expected: refused, never silently truncated).
func c14StrField(name string, off, max, kind int) c14Field {
	f := c14Field{name: name, off: off, size: max, kind: kind}
	add := func(n int, bad bool) {
		f.vals = append(f.vals, reflect.ValueOf(c14Name(n)))
		f.bad = append(f.bad, bad)
	}
	add(max, false)
	add(0, false)
	for n := 1; n < max; n++ {
		add(n, false)
	}
	for _, n := range []int{max + 1, max + 2, 64, 256, 300} {
		add(n, true)
	}
	return f
}

func c14Header(cmdType uint64) []c14Field {
	m := c14IntField("Magic", 0, 1, protocol.MAGIC)
	v := c14IntField("Version", 1, 1, protocol.VERSION)
	ct := c14IntField("CommandType", 2, 1, cmdType)
	m.header, v.header, ct.header = true, true, true
	return []c14Field{m, v, ct, c14IdField("RequestId", 3)}
}

func c14U8(name string, off int) c14Field  { return c14IntField(name, off, 1) }
func c14U16(name string, off int) c14Field { return c14IntField(name, off, 2) }
func c14U32(name string, off int) c14Field { return c14IntField(name, off, 4) }
func c14U64(name string, off int) c14Field { return c14IntField(name, off, 8) }

func c14Types() []*c14Type {
	h := func(ct uint64, more ...c14Field) []c14Field { return append(c14Header(ct), more...) }
	lockHdr := c14Header(protocol.COMMAND_LOCK)
	// LockCommand carries LOCK, UNLOCK, WILL_LOCK and WILL_UNLOCK: all four are enumerated.
	lockHdr[2] = c14IntField("CommandType", 2, 1, protocol.COMMAND_LOCK, protocol.COMMAND_UNLOCK, protocol.COMMAND_WILL_LOCK, protocol.COMMAND_WILL_UNLOCK)
	lockHdr[2].header = true
	lockResHdr := c14Header(protocol.COMMAND_LOCK)
	lockResHdr[2] = lockHdr[2]

	host := c14StrField("Host", 21, 43, c14KLenStr)
	host.set = func(root reflect.Value, v reflect.Value) { // HostLen is not independent: NewLeaderResultCommand sets it to len(host)
		root.FieldByName("Host").Set(v)
		root.FieldByName("HostLen").SetUint(uint64(uint8(v.Len())))
	}
	hostLen := c14Field{name: "HostLen", off: 20, size: 1, kind: c14KInt} // layout only, no independent values

	ts := []*c14Type{
		{name: "Command", mk: func() c14Codec { return &protocol.Command{} }, fields: h(protocol.COMMAND_PING)},
		{name: "ResultCommand", mk: func() c14Codec { return &protocol.ResultCommand{} }, fields: h(protocol.COMMAND_PING, c14U8("Result", 19))},
		{name: "InitCommand", mk: func() c14Codec { return &protocol.InitCommand{} }, fields: h(protocol.COMMAND_INIT, c14IdField("ClientId", 19))},
		{name: "InitResultCommand", mk: func() c14Codec { return &protocol.InitResultCommand{} }, fields: h(protocol.COMMAND_INIT, c14U8("Result", 19), c14U8("InitType", 20))},
		{name: "LockCommand", mk: func() c14Codec { return &protocol.LockCommand{} }, fields: append(lockHdr,
			c14U8("Flag", 19), c14U8("DbId", 20), c14IdField("LockId", 21), c14IdField("LockKey", 37),
			c14U16("Timeout", 53), c14U16("TimeoutFlag", 55), c14U16("Expried", 57), c14U16("ExpriedFlag", 59),
			c14U16("Count", 61), c14U8("Rcount", 63))},
		{name: "LockResultCommand", mk: func() c14Codec { return &protocol.LockResultCommand{} }, fields: append(lockResHdr,
			c14U8("Result", 19), c14U8("Flag", 20), c14U8("DbId", 21), c14IdField("LockId", 22), c14IdField("LockKey", 38),
			c14U16("Lcount", 54), c14U16("Count", 56), c14U8("Lrcount", 58), c14U8("Rcount", 59))},
		{name: "StateCommand", mk: func() c14Codec { return &protocol.StateCommand{} }, fields: h(protocol.COMMAND_STATE, c14U8("Flag", 19), c14U8("DbId", 20))},
		{name: "StateResultCommand", mk: func() c14Codec { return &protocol.StateResultCommand{} }, fields: h(protocol.COMMAND_STATE,
			c14U8("Result", 19), c14U8("Flag", 20), c14U8("DbState", 21), c14U8("DbId", 22),
			c14U64("State.LockCount", 23), c14U64("State.UnLockCount", 31), c14U32("State.LockedCount", 39), c14U32("State.WaitCount", 43),
			c14U32("State.TimeoutedCount", 47), c14U32("State.ExpriedCount", 51), c14U32("State.UnlockErrorCount", 55), c14U32("State.KeyCount", 59))},
		{name: "AdminCommand", mk: func() c14Codec { return &protocol.AdminCommand{} }, fields: h(protocol.COMMAND_ADMIN, c14U8("AdminType", 19))},
		{name: "AdminResultCommand", mk: func() c14Codec { return &protocol.AdminResultCommand{} }, fields: h(protocol.COMMAND_ADMIN, c14U8("Result", 19))},
		{name: "PingCommand", mk: func() c14Codec { return &protocol.PingCommand{} }, fields: h(protocol.COMMAND_PING)},
		{name: "PingResultCommand", mk: func() c14Codec { return &protocol.PingResultCommand{} }, fields: h(protocol.COMMAND_PING, c14U8("Result", 19))},
		{name: "QuitCommand", mk: func() c14Codec { return &protocol.QuitCommand{} }, fields: h(protocol.COMMAND_QUIT)},
		{name: "QuitResultCommand", mk: func() c14Codec { return &protocol.QuitResultCommand{} }, fields: h(protocol.COMMAND_QUIT, c14U8("Result", 19))},
		{name: "CallCommand", mk: func() c14Codec { return &protocol.CallCommand{} }, fields: h(protocol.COMMAND_CALL,
			c14U8("Flag", 19), c14U8("Encoding", 20), c14U8("Charset", 21), c14U32("ContentLen", 22), c14StrField("MethodName", 26, 38, c14KStr))},
		{name: "CallResultCommand", mk: func() c14Codec { return &protocol.CallResultCommand{} }, fields: h(protocol.COMMAND_CALL,
			c14U8("Result", 19), c14U8("Flag", 20), c14U8("Encoding", 21), c14U8("Charset", 22), c14U32("ContentLen", 23), c14StrField("ErrType", 27, 37, c14KStr))},
		{name: "LeaderCommand", mk: func() c14Codec { return &protocol.LeaderCommand{} }, fields: h(protocol.COMMAND_LEADER, c14U8("Flag", 19))},
		{name: "LeaderResultCommand", mk: func() c14Codec { return &protocol.LeaderResultCommand{} }, fields: h(protocol.COMMAND_LEADER, c14U8("Result", 19), hostLen, host),
			dynamic: func(frame []byte) [64]bool { // Host covers exactly HostLen bytes; what follows is padding
				var d [64]bool
				for i := 0; i <= 20; i++ {
					d[i] = true
				}
				for i := 0; i < int(frame[20]) && 21+i < 64; i++ {
					d[21+i] = true
				}
				return d
			}},
		{name: "SubscribeCommand", mk: func() c14Codec { return &protocol.SubscribeCommand{} }, fields: h(protocol.COMMAND_SUBSCRIBE,
			c14U8("Flag", 19), c14U32("ClientId", 20), c14U32("SubscribeId", 24), c14U8("SubscribeType", 28), c14IdField("LockKeyMask", 29),
			c14U32("Expried", 45), c14U32("MaxSize", 49))},
		{name: "SubscribeResultCommand", mk: func() c14Codec { return &protocol.SubscribeResultCommand{} }, fields: h(protocol.COMMAND_SUBSCRIBE,
			c14U8("Result", 19), c14U8("Flag", 20), c14U32("ClientId", 21), c14U32("SubscribeId", 25))},
	}
	return ts
}

// enumerable fields (those with values); HostLen is layout-only.
func (t *c14Type) efields() []int {
	var ix []int
	for i := range t.fields {
		if len(t.fields[i].vals) > 0 {
			ix = append(ix, i)
		}
	}
	return ix
}

func (t *c14Type) static() [64]bool {
	var d [64]bool
	for _, f := range t.fields {
		for i := 0; i < f.size; i++ {
			d[f.off+i] = true
		}
	}
	return d
}

func (t *c14Type) fieldAt(p int) string {
	for _, f := range t.fields {
		if p >= f.off && p < f.off+f.size {
			return f.name
		}
	}
	return "padding"
}

func (t *c14Type) setField(root reflect.Value, i, k int) {
	f := &t.fields[i]
	if f.set != nil {
		f.set(root, f.vals[k])
	} else {
		c14Resolve(root, f.name).Set(f.vals[k])
	}
}

// baseFrames: typical valid frames of the type: valid header, other fields distinctive / maximum / zero.
func (t *c14Type) baseFrames() [][]byte {
	var out [][]byte
	for bi := 0; bi < 3; bi++ {
		obj := t.mk()
		root := reflect.ValueOf(obj).Elem()
		for _, i := range t.efields() {
			f := &t.fields[i]
			k := bi
			if f.header {
				k = 0
			}
			if k >= f.nvalid() {
				k = f.nvalid() - 1
			}
			t.setField(root, i, k)
		}
		buf := make([]byte, 64)
		if err := obj.Encode(buf); err != nil {
			continue
		}
		dup := false
		for _, o := range out {
			if bytes.Equal(o, buf) {
				dup = true
			}
		}
		if !dup {
			out = append(out, buf)
		}
	}
	return out
}

// ---------------------------------------------------------------------------------------------
// group 1: encode-decode
//
// Per type, three exhaustive enumerations over the per-field boundary sets of the table above:
//   product   the full product of the first p values of every field, p the largest uniform prefix
//             whose product stays within the per-type budget (quick 70 000, thorough 5 000 000);
//             the prefix order is distinctive, maximum, zero, then the remaining boundaries
//   pairwise  for every pair of fields the full product of their complete (valid) boundary sets,
//             all other fields distinctive
//   single    every value of every field (including over-long strings), other fields distinctive
// Distinct = distinct encoded frames (64-bit FNV-1a of the 64 bytes, sorted and counted).

func c14EncodeDecode(quick bool) C14Group {
	budget := 5000000
	if quick {
		budget = 70000
	}
	types := c14Types()
	tasks := make([]func() *c14Acc, len(types))
	summary := make([]string, len(types))
	for i, t := range types {
		i, t := i, t
		tasks[i] = func() *c14Acc { return c14EncDecType(t, budget, &summary[i]) }
	}
	acc := c14Run(tasks)
	acc.samples = append(acc.samples, "per type (fields, prefix p, product+pairwise+single cases): "+strings.Join(summary, " "))
	acc.samples = append(acc.samples,
		"note: LockDBState.SlowKeyCount, the Blank arrays and the Data pointers/slices are not part of the 64-byte frame (no Encode writes them); they are left zero and are not judged",
		"note: CallCommand.MethodName valid lengths 0..38, CallResultCommand.ErrType 0..37, LeaderResultCommand.Host 0..43 with HostLen=len(Host) (the limits Encode enforces); longer values must be refused, see counters")
	return acc.group("encode-decode")
}

func c14EncDecType(t *c14Type, budget int, summary *string) *c14Acc {
	acc := c14NewAcc()
	src, dst := t.mk(), t.mk()
	sroot, droot := reflect.ValueOf(src).Elem(), reflect.ValueOf(dst).Elem()
	zero := reflect.Zero(sroot.Type())
	ef := t.efields()
	fv := make([]reflect.Value, len(t.fields))
	for _, i := range ef {
		if t.fields[i].set == nil {
			fv[i] = c14Resolve(sroot, t.fields[i].name)
		}
	}
	cur := make([]int, len(t.fields))
	set := func(i, k int) {
		cur[i] = k
		f := &t.fields[i]
		if f.set != nil {
			f.set(sroot, f.vals[k])
		} else {
			fv[i].Set(f.vals[k])
		}
	}
	buf := make([]byte, 64)
	enc, dec := src.Encode, dst.Decode
	var hashes []uint64
	sampled := 0
	check := func() {
		acc.evals++
		bad := false
		for _, i := range ef {
			if t.fields[i].bad[cur[i]] {
				bad = true
			}
		}
		for j := range buf {
			buf[j] = 0
		}
		err, pan := c14Try(enc, buf)
		if bad {
			switch {
			case pan != "":
				acc.counters[t.name+":overlong-encode-panic"]++
			case err != nil:
				acc.counters[t.name+":overlong-refused-by-Encode"]++
			default:
				acc.counters[t.name+":overlong-accepted-by-Encode"]++
			}
			return
		}
		if pan != "" {
			acc.add("C14:roundtrip:"+t.name, "Encode panics", func() string { return fmt.Sprintf("%s %+v: Encode panic %s", t.name, src, pan) })
			return
		}
		if err != nil {
			acc.add("C14:roundtrip:"+t.name, "Encode error on valid value", func() string { return fmt.Sprintf("%s %+v: Encode error %v", t.name, src, err) })
			return
		}
		hashes = append(hashes, c14Hash(buf))
		droot.Set(zero)
		err, pan = c14Try(dec, buf)
		if pan != "" || err != nil {
			acc.add("C14:roundtrip:"+t.name, "Decode fails on own encoding", func() string {
				return fmt.Sprintf("%s %+v encodes to %s; Decode: err=%v panic=%s", t.name, src, c14Hex(buf), err, pan)
			})
			return
		}
		if !reflect.DeepEqual(src, dst) {
			var diff []string
			for _, i := range ef {
				for _, part := range strings.Split(t.fields[i].name, "+") {
					if !reflect.DeepEqual(c14Resolve(sroot, part).Interface(), c14Resolve(droot, part).Interface()) {
						diff = append(diff, part)
					}
				}
			}
			acc.add("C14:roundtrip:"+t.name, "fields differ: "+strings.Join(diff, ","), func() string {
				return fmt.Sprintf("%s in=%+v frame=%s out=%+v", t.name, src, c14Hex(buf), dst)
			})
			return
		}
		if sampled == 0 && (t.name == "LockCommand" || t.name == "CallCommand" || t.name == "LockResultCommand") {
			sampled++
			acc.samples = append(acc.samples, fmt.Sprintf("%s %+v -> %s -> equal struct", t.name, src, c14Hex(buf)))
		}
	}
	reset := func() {
		for _, i := range ef {
			set(i, 0)
		}
	}

	// product over the first p values of each field
	maxValid := 0
	for _, i := range ef {
		if n := t.fields[i].nvalid(); n > maxValid {
			maxValid = n
		}
	}
	size := func(p int) int {
		s := 1
		for _, i := range ef {
			n := t.fields[i].nvalid()
			if n > p {
				n = p
			}
			s *= n
			if s > budget {
				return budget + 1
			}
		}
		return s
	}
	p := 1
	for p < maxValid && size(p+1) <= budget {
		p++
	}
	lim := make([]int, len(t.fields))
	for _, i := range ef {
		lim[i] = t.fields[i].nvalid()
		if lim[i] > p {
			lim[i] = p
		}
	}
	reset()
	nProduct := 0
	for {
		check()
		nProduct++
		k := len(ef) - 1
		for ; k >= 0; k-- { // odometer: only the fields that roll are written again
			i := ef[k]
			if cur[i]+1 < lim[i] {
				set(i, cur[i]+1)
				break
			}
			set(i, 0)
		}
		if k < 0 {
			break
		}
	}
	// pairwise over complete valid sets
	nPair := 0
	for a := 0; a < len(ef); a++ {
		for b := a + 1; b < len(ef); b++ {
			reset()
			ia, ib := ef[a], ef[b]
			for ka := 0; ka < t.fields[ia].nvalid(); ka++ {
				set(ia, ka)
				for kb := 0; kb < t.fields[ib].nvalid(); kb++ {
					set(ib, kb)
					check()
					nPair++
				}
			}
		}
	}
	// single sweeps over all values, including invalid ones
	nSingle := 0
	for _, i := range ef {
		reset()
		for k := range t.fields[i].vals {
			set(i, k)
			check()
			nSingle++
		}
	}
	acc.distinct = c14CountDistinct(hashes)
	*summary = fmt.Sprintf("%s(%d,p=%d,%d+%d+%d)", t.name, len(ef), p, nProduct, nPair, nSingle)
	return acc
}

// ---------------------------------------------------------------------------------------------
// group 2: readme-offsets
//
// Table used: README.md, section "# Protocol" / "### Slock Binary Protocol", the two ASCII tables
// "# Request Command" and "# Response Command" (8 bytes per row, 8 rows) plus the remarks under them
// (Magic 0x56, Version 0x01, Lock = 1, UnLock = 2, integers low byte first). The tables are parsed
// from the file at run time (cell width 12 characters per byte); the layout below is what that
// parse yields today and serves as fallback / cross-check when the file cannot be read or parsed.

type c14Span struct {
	Name     string
	Off, Len int
}

const c14ReadmePath = "/repo/README.md"

var c14ReadmeReq = []c14Span{{"Magic", 0, 1}, {"Version", 1, 1}, {"CommandType", 2, 1}, {"RequestId", 3, 16}, {"FLAG", 19, 1}, {"DBID", 20, 1},
	{"LockId", 21, 16}, {"LockKey", 37, 16}, {"Timeout", 53, 2}, {"TimeoutFlag", 55, 2}, {"Expried", 57, 2}, {"ExpriedFlag", 59, 2}, {"Count", 61, 2}, {"RCount", 63, 1}}
var c14ReadmeResp = []c14Span{{"Magic", 0, 1}, {"Version", 1, 1}, {"CommandType", 2, 1}, {"RequestId", 3, 16}, {"Result", 19, 1}, {"FLAG", 20, 1}, {"DBID", 21, 1},
	{"LockId", 22, 16}, {"LockKey", 38, 16}, {"LCount", 54, 2}, {"Count", 56, 2}, {"LRCount", 58, 1}, {"RCount", 59, 1}, {"PADDING", 60, 4}}

// README spelling -> struct field
var c14ReadmeNames = map[string]string{"flag": "Flag", "dbid": "DbId", "rcount": "Rcount", "lcount": "Lcount", "lrcount": "Lrcount",
	"magic": "Magic", "version": "Version", "commandtype": "CommandType", "requestid": "RequestId", "lockid": "LockId", "lockkey": "LockKey",
	"timeout": "Timeout", "timeoutflag": "TimeoutFlag", "expried": "Expried", "expriedflag": "ExpriedFlag", "count": "Count", "result": "Result"}

func c14ParseReadmeTable(lines []string, title string) ([]c14Span, error) {
	start := -1
	for i, l := range lines {
		if strings.TrimSpace(l) == title {
			start = i + 1
			break
		}
	}
	if start < 0 {
		return nil, fmt.Errorf("title %q not found", title)
	}
	var spans []c14Span
	off := 0
	for _, l := range lines[start:] {
		l = strings.TrimRight(l, " \t\r")
		if !strings.HasPrefix(l, "|") {
			break
		}
		inner := strings.TrimSuffix(l[1:], "|")
		if strings.Trim(inner, "-| ") == "" {
			continue // separator
		}
		segs := strings.Split(inner, "|")
		numeric := true
		for _, sg := range segs {
			if _, err := strconv.Atoi(strings.TrimSpace(sg)); err != nil {
				numeric = false
			}
		}
		if numeric {
			continue // column header 0..7
		}
		row := 0
		for _, sg := range segs {
			cells := (len(sg) + 1 + 6) / 12
			if cells < 1 {
				cells = 1
			}
			name := strings.TrimSpace(sg)
			if n := len(spans); n > 0 && spans[n-1].Name == name && spans[n-1].Off+spans[n-1].Len == off {
				spans[n-1].Len += cells
			} else {
				spans = append(spans, c14Span{name, off, cells})
			}
			off += cells
			row += cells
		}
		if row != 8 {
			return nil, fmt.Errorf("row %q is %d bytes wide, want 8", l, row)
		}
	}
	if off != 64 {
		return nil, fmt.Errorf("table %q covers %d bytes, want 64", title, off)
	}
	return spans, nil
}

func c14FieldBytes(v reflect.Value) []byte {
	switch v.Kind() {
	case reflect.Uint8, reflect.Uint16, reflect.Uint32, reflect.Uint64:
		n := int(v.Type().Size())
		out := make([]byte, n)
		for i := 0; i < n; i++ {
			out[i] = byte(v.Uint() >> (8 * uint(i))) // README: "the low bit in front"
		}
		return out
	case reflect.Array:
		out := make([]byte, v.Len())
		for i := range out {
			out[i] = byte(v.Index(i).Uint())
		}
		return out
	}
	return nil
}

func c14SetFieldBytes(v reflect.Value, b []byte) {
	switch v.Kind() {
	case reflect.Uint8, reflect.Uint16, reflect.Uint32, reflect.Uint64:
		var x uint64
		for i := range b {
			x |= uint64(b[i]) << (8 * uint(i))
		}
		v.SetUint(x)
	case reflect.Array:
		for i := range b {
			v.Index(i).SetUint(uint64(b[i]))
		}
	}
}

func c14ReadmeOffsets(quick bool) C14Group {
	acc := c14NewAcc()
	req, resp := c14ReadmeReq, c14ReadmeResp
	if data, err := os.ReadFile(c14ReadmePath); err != nil {
		acc.samples = append(acc.samples, "note: README not readable ("+err.Error()+"), using the transcribed tables")
	} else {
		lines := strings.Split(string(data), "\n")
		for _, tb := range []struct {
			title string
			dst   *[]c14Span
		}{{"# Request Command", &req}, {"# Response Command", &resp}} {
			sp, err := c14ParseReadmeTable(lines, tb.title)
			if err != nil {
				acc.samples = append(acc.samples, "note: README table "+tb.title+" not parsed ("+err.Error()+"), using the transcribed table")
				continue
			}
			if !reflect.DeepEqual(sp, *tb.dst) {
				acc.samples = append(acc.samples, fmt.Sprintf("note: README table %s parsed as %v, differs from the transcription %v; the parsed README is used", tb.title, sp, *tb.dst))
			}
			*tb.dst = sp
		}
	}
	acc.samples = append(acc.samples, fmt.Sprintf("README request layout: %v", req), fmt.Sprintf("README response layout: %v", resp))

	// constants stated under the tables
	for _, c := range []struct {
		name      string
		got, want int
	}{{"MAGIC", protocol.MAGIC, 0x56}, {"VERSION", protocol.VERSION, 0x01}, {"COMMAND_LOCK", protocol.COMMAND_LOCK, 1}, {"COMMAND_UNLOCK", protocol.COMMAND_UNLOCK, 2}} {
		acc.evals++
		acc.distinct++
		if c.got != c.want {
			c := c
			acc.add("C14:readme-constant", c.name, func() string { return fmt.Sprintf("%s is %#x, README says %#x", c.name, c.got, c.want) })
		}
	}

	type tcase struct {
		name  string
		mk    func() c14Codec
		spans []c14Span
	}
	for _, tc := range []tcase{
		{"LockCommand", func() c14Codec { return &protocol.LockCommand{} }, req},
		{"LockResultCommand", func() c14Codec { return &protocol.LockResultCommand{} }, resp},
	} {
		// every documented field gets a value whose bytes are unique in the frame: byte i of field f is
		// (0x10*(f+1)+i) xor mask; three masks so that every bit of every byte is seen both ways.
		for _, mask := range []byte{0x00, 0xff, 0x55} {
			obj := tc.mk()
			root := reflect.ValueOf(obj).Elem()
			want := map[string][]byte{}
			for f, sp := range tc.spans {
				fn, ok := c14ReadmeNames[strings.ToLower(sp.Name)]
				if !ok {
					continue // PADDING
				}
				b := make([]byte, sp.Len)
				for i := range b {
					b[i] = byte(0x10*(f+1)+i) ^ mask
				}
				want[sp.Name] = b
				fvv := root.FieldByName(fn)
				if !fvv.IsValid() {
					acc.evals++
					sp := sp
					acc.add("C14:readme-offset:"+tc.name, "no such field "+sp.Name, func() string {
						return fmt.Sprintf("README documents %s at %d, struct has no field %s", sp.Name, sp.Off, fn)
					})
					continue
				}
				if int(fvv.Type().Size()) != sp.Len {
					acc.evals++
					sp := sp
					acc.add("C14:readme-offset:"+tc.name, "width of "+sp.Name, func() string {
						return fmt.Sprintf("README gives %s %d bytes at %d, field %s has %d bytes", sp.Name, sp.Len, sp.Off, fn, fvv.Type().Size())
					})
					continue
				}
				c14SetFieldBytes(fvv, b)
			}
			frame := make([]byte, 64)
			if err := obj.Encode(frame); err != nil {
				acc.add("C14:readme-offset:"+tc.name, "Encode error", func() string { return err.Error() })
				continue
			}
			if mask == 0 {
				acc.samples = append(acc.samples, fmt.Sprintf("%s with per-field distinctive bytes encodes to %s", tc.name, c14Hex(frame)))
			}
			// encode direction: bytes at the documented offset are the field's bytes
			for _, sp := range tc.spans {
				w, ok := want[sp.Name]
				if !ok {
					continue
				}
				acc.evals++
				acc.distinct++
				if !bytes.Equal(frame[sp.Off:sp.Off+sp.Len], w) {
					sp := sp
					acc.add("C14:readme-offset:"+tc.name, "encode "+sp.Name, func() string {
						return fmt.Sprintf("%s.%s=%x: README puts it at bytes %d..%d, frame has %x there; frame=%s", tc.name, sp.Name, w, sp.Off, sp.Off+sp.Len-1, frame[sp.Off:sp.Off+sp.Len], c14Hex(frame))
					})
				}
			}
			// decode direction: a frame laid out as documented decodes to the field values
			doc := make([]byte, 64)
			for _, sp := range tc.spans {
				if w, ok := want[sp.Name]; ok {
					copy(doc[sp.Off:], w)
				}
			}
			dobj := tc.mk()
			if err := dobj.Decode(doc); err != nil {
				acc.add("C14:readme-offset:"+tc.name, "Decode error", func() string { return err.Error() + " on " + c14Hex(doc) })
				continue
			}
			droot := reflect.ValueOf(dobj).Elem()
			for _, sp := range tc.spans {
				w, ok := want[sp.Name]
				if !ok {
					continue
				}
				fvv := droot.FieldByName(c14ReadmeNames[strings.ToLower(sp.Name)])
				if !fvv.IsValid() {
					continue
				}
				acc.evals++
				acc.distinct++
				if got := c14FieldBytes(fvv); !bytes.Equal(got, w) {
					sp := sp
					acc.add("C14:readme-offset:"+tc.name, "decode "+sp.Name, func() string {
						return fmt.Sprintf("frame %s laid out per README: %s should decode to %x, got %x", c14Hex(doc), sp.Name, w, got)
					})
				}
			}
		}
	}
	return acc.group("readme-offsets")
}

// ---------------------------------------------------------------------------------------------
// group 3: decode-encode
//
// Per type and per base frame (valid header; other fields distinctive / maximum / zero):
//   single  all 64 x 256 one-byte variations (plus the base itself)
//   double  two-byte variations inside every multi-byte field (ids, integers, strings):
//           thorough: every pair of positions of the field x all 256 x 256 values, on all base frames
//           quick:    first base frame only; fields of up to 4 bytes: adjacent pairs x all 256 x 256;
//                     every pair of every field x the boundary bytes {00,01,7f,80,fe,ff}^2
// Each frame is decoded into a zeroed struct (a Decode error skips the case), encoded into a zeroed
// buffer and compared with the input on the defined bytes. Defined bytes = bytes covered by a field
// in the table above (for LeaderResultCommand: Host covers HostLen bytes). The table itself is
// checked against Decode first (self-check: flipping byte i changes the decoded struct iff i is in
// the table), so a wrong table cannot hide or invent findings.
// The input buffers have length and capacity exactly 64, as the property speaks of 64-byte inputs.
// Distinct counts frames in canonical form: a variation counts only if every varied byte differs
// from the base (otherwise it is the base or a one-byte variation already counted).

type c14DE struct {
	t        *c14Type
	root     reflect.Value
	zero     reflect.Value
	in, out  []byte
	dec, enc func([]byte) error
	static   [64]bool
}

func c14NewDE(t *c14Type) *c14DE {
	obj := t.mk()
	d := &c14DE{t: t, root: reflect.ValueOf(obj).Elem(), in: make([]byte, 64), out: make([]byte, 64), dec: obj.Decode, enc: obj.Encode, static: t.static()}
	d.zero = reflect.Zero(d.root.Type())
	return d
}

func (d *c14DE) eval(acc *c14Acc) {
	acc.evals++
	d.root.Set(d.zero)
	err, pan := c14Try(d.dec, d.in)
	if pan != "" {
		acc.add("C14:decode-panic:"+d.t.name, c14Digits.ReplaceAllString(pan, "N"), func() string {
			return fmt.Sprintf("%s.Decode(%s) panics: %s", d.t.name, c14Hex(d.in), pan)
		})
		return
	}
	if err != nil {
		acc.counters["decode-error-skipped"]++
		return
	}
	for i := range d.out {
		d.out[i] = 0
	}
	err, pan = c14Try(d.enc, d.out)
	if pan != "" {
		acc.add("C14:decode-encode:"+d.t.name, "Encode panics after Decode", func() string {
			return fmt.Sprintf("%s: Decode(%s) ok, Encode panics: %s", d.t.name, c14Hex(d.in), pan)
		})
		return
	}
	if err != nil {
		acc.counters[d.t.name+":decoded-value-refused-by-Encode"]++
		return
	}
	def := &d.static
	if d.t.dynamic != nil {
		dd := d.t.dynamic(d.in)
		def = &dd
	}
	for p := 0; p < 64; p++ {
		if def[p] && d.in[p] != d.out[p] {
			var ps []int
			for q := p; q < 64; q++ {
				if def[q] && d.in[q] != d.out[q] {
					ps = append(ps, q)
				}
			}
			acc.add("C14:decode-encode:"+d.t.name, "field "+d.t.fieldAt(p)+" not reproduced", func() string {
				return fmt.Sprintf("%s in=%s decoded=%+v re-encoded=%s differ at defined bytes %v", d.t.name, c14Hex(d.in), d.root.Interface(), c14Hex(d.out), ps)
			})
			return
		}
	}
}

var c14BoundaryBytes = []byte{0x00, 0x01, 0x7f, 0x80, 0xfe, 0xff}

func c14DecodeEncode(quick bool) C14Group {
	types := c14Types()
	var tasks []func() *c14Acc
	for _, t := range types {
		t := t
		bases := t.baseFrames()
		// self-check of the layout table + padding behaviour of Encode
		tasks = append(tasks, func() *c14Acc { return c14SelfCheck(t, bases[0]) })
		for bi, base := range bases {
			base := base
			tasks = append(tasks, func() *c14Acc { // single-byte variations
				acc := c14NewAcc()
				d := c14NewDE(t)
				copy(d.in, base)
				d.eval(acc)
				acc.distinct++
				for i := 0; i < 64; i++ {
					for v := 0; v < 256; v++ {
						d.in[i] = byte(v)
						d.eval(acc)
						if byte(v) != base[i] {
							acc.distinct++
						}
					}
					d.in[i] = base[i]
				}
				return acc
			})
			if quick && bi > 0 {
				continue
			}
			for fi := range t.fields {
				f := t.fields[fi]
				if f.size < 2 {
					continue
				}
				for i := 0; i < f.size-1; i++ {
					i := i
					tasks = append(tasks, func() *c14Acc { // two-byte variations, first position f.off+i
						acc := c14NewAcc()
						d := c14NewDE(t)
						copy(d.in, base)
						pi := f.off + i
						for j := i + 1; j < f.size; j++ {
							pj := f.off + j
							full := !quick || (f.size <= 4 && j == i+1)
							if full {
								for a := 0; a < 256; a++ {
									d.in[pi] = byte(a)
									for b := 0; b < 256; b++ {
										d.in[pj] = byte(b)
										d.eval(acc)
										if byte(a) != base[pi] && byte(b) != base[pj] {
											acc.distinct++
										}
									}
								}
							} else {
								for _, a := range c14BoundaryBytes {
									d.in[pi] = a
									for _, b := range c14BoundaryBytes {
										d.in[pj] = b
										d.eval(acc)
										if a != base[pi] && b != base[pj] {
											acc.distinct++
										}
									}
								}
							}
							d.in[pi], d.in[pj] = base[pi], base[pj]
						}
						return acc
					})
				}
			}
		}
	}
	acc := c14Run(tasks)
	for _, name := range []string{"LockCommand", "LeaderResultCommand"} {
		for _, t := range types {
			if t.name == name {
				b := t.baseFrames()[0]
				o := t.mk()
				_ = o.Decode(append([]byte{}, b...))
				acc.samples = append(acc.samples, fmt.Sprintf("base frame %s %s decodes to %+v", name, c14Hex(b), o))
			}
		}
	}
	return acc.group("decode-encode")
}

// c14SelfCheck: (a) Decode looks at byte i iff the table says a field covers it; (b) Encode writes
// zeros to the bytes no field covers (only a note if not: padding is not promised).
func c14SelfCheck(t *c14Type, base []byte) *c14Acc {
	acc := c14NewAcc()
	static := t.static()
	ref := t.mk()
	if err, pan := c14Try(ref.Decode, append(make([]byte, 0, 64), base...)); err != nil || pan != "" {
		acc.add("C14:harness-selfcheck", t.name+" base", func() string { return fmt.Sprintf("base frame %s does not decode: %v %s", c14Hex(base), err, pan) })
		return acc
	}
	for i := 0; i < 64; i++ {
		in := append(make([]byte, 0, 64), base...)
		in[i] ^= 0xff
		o := t.mk()
		err, pan := c14Try(o.Decode, in)
		influences := err != nil || pan != "" || !reflect.DeepEqual(ref, o)
		if influences != static[i] {
			i := i
			acc.add("C14:harness-selfcheck", t.name+" layout", func() string {
				return fmt.Sprintf("%s byte %d: layout table says defined=%v, Decode influence=%v (frame %s)", t.name, i, static[i], influences, c14Hex(in))
			})
		}
	}
	buf := bytes.Repeat([]byte{0xcc}, 64)
	if err, pan := c14Try(ref.Encode, buf); err == nil && pan == "" {
		var stale []int
		for i := 0; i < 64; i++ {
			if !static[i] && buf[i] != 0 {
				stale = append(stale, i)
			}
		}
		if len(stale) > 0 {
			acc.samples = append(acc.samples, fmt.Sprintf("note: %s.Encode leaves padding bytes %v unwritten/non-zero (not judged)", t.name, stale))
		}
	}
	return acc
}

// ---------------------------------------------------------------------------------------------
// group 4: text-chunking
//
// The parser is driven exactly as server.TextServerProtocol.Read / client.TextClientProtocol.Read
// drive it: the chunk is copied to the start of GetReadBuf() (1024 bytes, the size both use; a
// chunk longer than the buffer arrives as several reads of at most 1024 bytes), BufferUpdate(n),
// then ParseRequest/ParseResponse until IsBufferEnd(); on IsParseFinish() the arguments are taken
// and Reset() is called. Every chunking starts with a fresh parser. The part of the read buffer
// behind the current chunk is filled with 0xEE, so a read of stale bytes cannot go unnoticed.
//
// Argument alphabet: S = {"", "a", "\r\n", "$1", "*2"}, M = pat(127/128/129), L = pat(1023/1024/1025),
// thorough also H = pat(65536); pat(n) is n bytes "ABC...Z" repeated.
// Items (same scheme for BuildRequest -> ParseRequest and for result lists BuildResponse(true,"",list)
// -> ParseResponse; a list of one result is sent as "$", longer ones as "*"):
//   A  lists over S of length 0..4: every one of the 2^(n-1) chunkings when the encoding has
//      n <= 12 bytes (thorough: n <= 18), else all 1- and 2-cut (thorough: 3-cut) chunkings
//   B  lists of length 1..2 over the whole alphabet with at least one long member:
//      1- and 2-cut (thorough: 3-cut; the list [H]: 2-cut; two-element lists containing H: 1-cut) chunkings
//   C  such lists of length 3 (without H): 1-cut (thorough: 2-cut)
//   D  thorough only: such lists of length 4 (without H): 1-cut
//   P  pipelining: the list's encoding twice in one stream, lists over S of length <= 2
//      (thorough <= 3), all 1- and 2-cut chunkings; both commands must come out
// plus "+msg" and "-msg" / "-ERR msg" lines for msg in {"", OK, a, $1, *2, "ERR unknown command",
// M, L, (H)} (messages cannot contain CR LF in this format, so none do), 2-cut (thorough 3-cut).
// For encodings longer than 97 bytes the cut positions are restricted to: every position within
// the first 40 and the last 40 bytes, the five positions around every "\r\n" in the stream
// (before, between and after, one further each side), and the positions 1023..1025 and 2047..2049
// (read-buffer edges). Shorter encodings use every position.
// Distinct = distinct (stream, cut set) pairs: the cut sets of one stream are strictly increasing
// index tuples over a duplicate-free position list, the streams are checked to be pairwise different.

const c14RbufSize = 1024

func c14Pat(n int) string {
	b := make([]byte, n)
	for i := range b {
		b[i] = byte('A' + i%26)
	}
	return string(b)
}

// c14Q renders a string compactly but exactly enough to be reproduced.
func c14Q(s string) string {
	if len(s) <= 40 {
		return strconv.Quote(s)
	}
	i := 0
	for i < len(s) && s[i] == byte('A'+i%26) {
		i++
	}
	if i == len(s) {
		return fmt.Sprintf("pat(%d)", i)
	}
	if i >= 32 && len(s)-i <= 24 {
		return fmt.Sprintf("pat(%d)+%s", i, strconv.Quote(s[i:]))
	}
	return fmt.Sprintf("%s...%s(len %d)", strconv.Quote(s[:16]), strconv.Quote(s[len(s)-12:]), len(s))
}

func c14QL(l []string) string {
	parts := make([]string, len(l))
	for i, s := range l {
		parts[i] = c14Q(s)
	}
	return "[" + strings.Join(parts, ", ") + "]"
}

func c14QLL(l [][]string) string {
	parts := make([]string, len(l))
	for i, s := range l {
		parts[i] = c14QL(s)
	}
	return "{" + strings.Join(parts, " ") + "}"
}

type c14TextItem struct {
	isReq    bool
	form     string // "req", "+", "-", "$", "*"
	desc     string
	enc      []byte
	want     []string
	wantType int
	maxCuts  int
	exhaust  bool
	double   bool
}

type c14TextOut struct {
	cmds    [][]string
	types   []int
	err     string
	pending bool // parser still in the middle of a command after the whole stream
}

func c14Feed(isReq bool, stream []byte, cuts []int, rbuf, wbuf []byte) (out c14TextOut) {
	defer func() {
		if r := recover(); r != nil {
			out.err = "panic: " + fmt.Sprint(r)
		}
	}()
	p := protocol.NewTextParser(rbuf, wbuf)
	prev := len(rbuf)
	start := 0
	for ci := 0; ci <= len(cuts); ci++ {
		end := len(stream)
		if ci < len(cuts) {
			end = cuts[ci]
		}
		for start < end {
			n := copy(p.GetReadBuf(), stream[start:end])
			for i := n; i < prev; i++ {
				rbuf[i] = 0xEE
			}
			prev = n
			start += n
			p.BufferUpdate(n)
			guard := 0
			for !p.IsBufferEnd() {
				var err error
				if isReq {
					err = p.ParseRequest()
				} else {
					err = p.ParseResponse()
				}
				if err != nil {
					out.err = "error: " + err.Error()
					return
				}
				if p.IsParseFinish() {
					out.cmds = append(out.cmds, append([]string{}, p.GetArgs()...))
					out.types = append(out.types, p.GetArgsType())
					p.Reset()
				}
				if guard++; guard > n+4 {
					out.err = "error: parser makes no progress"
					return
				}
			}
		}
	}
	out.pending = !p.IsParseFinish()
	return
}

func c14TextOK(o *c14TextOut, want [][]string, wantType int) bool {
	if o.err != "" || o.pending || len(o.cmds) != len(want) {
		return false
	}
	for i := range want {
		if o.types[i] != wantType || len(o.cmds[i]) != len(want[i]) {
			return false
		}
		for j := range want[i] {
			if o.cmds[i][j] != want[i][j] {
				return false
			}
		}
	}
	return true
}

func c14TextClass(o *c14TextOut, want [][]string, wantType int) string {
	if o.err != "" {
		return c14Digits.ReplaceAllString(o.err, "N")
	}
	if len(o.cmds) != len(want) {
		if o.pending {
			return fmt.Sprintf("%d of %d commands delivered, parser still waiting after the whole stream", len(o.cmds), len(want))
		}
		return fmt.Sprintf("%d commands delivered, want %d", len(o.cmds), len(want))
	}
	for i := range want {
		if o.types[i] != wantType {
			return fmt.Sprintf("args type %d, want %d", o.types[i], wantType)
		}
		if len(o.cmds[i]) != len(want[i]) {
			return "argument count differs"
		}
		for j := range want[i] {
			g, w := o.cmds[i][j], want[i][j]
			if g == w {
				continue
			}
			if strings.HasPrefix(g, w) && len(g)-len(w) <= 4 {
				return fmt.Sprintf("stray %q appended to an argument", g[len(w):])
			}
			if strings.HasPrefix(w, g) {
				return "argument truncated"
			}
			return "argument differs"
		}
	}
	if o.pending {
		return "parser still waiting after the whole stream"
	}
	return "?"
}

func c14CutPositions(s []byte) []int {
	n := len(s)
	var pos []int
	if n-1 <= 96 {
		for c := 1; c < n; c++ {
			pos = append(pos, c)
		}
		return pos
	}
	mark := map[int]bool{}
	add := func(c int) {
		if c >= 1 && c < n {
			mark[c] = true
		}
	}
	for c := 1; c <= 40; c++ {
		add(c)
		add(n - c)
	}
	for k := 0; k+1 < n; k++ {
		if s[k] == '\r' && s[k+1] == '\n' {
			for c := k - 1; c <= k+3; c++ {
				add(c)
			}
		}
	}
	for k := 1; k <= 2; k++ {
		for d := -1; d <= 1; d++ {
			add(k*c14RbufSize + d)
		}
	}
	for c := range mark {
		pos = append(pos, c)
	}
	sort.Ints(pos)
	return pos
}

func c14RunTextItem(it *c14TextItem) *c14Acc {
	acc := c14NewAcc()
	rbuf, wbuf := make([]byte, c14RbufSize), make([]byte, c14RbufSize)
	stream := it.enc
	want := [][]string{it.want}
	if it.double {
		stream = append(append([]byte{}, it.enc...), it.enc...)
		want = [][]string{it.want, it.want}
	}
	side := "response"
	if it.isReq {
		side = "request"
	}
	un := c14Feed(it.isReq, stream, nil, rbuf, wbuf)
	sig := "C14:text-chunking-" + side
	if !c14TextOK(&un, want, it.wantType) {
		sig = "C14:text-roundtrip-" + side // wrong even when delivered in one piece
	}
	form := it.form
	if it.double {
		form += " pipelined"
	}
	judge := func(cuts []int) {
		acc.evals++
		acc.distinct++
		o := c14Feed(it.isReq, stream, cuts, rbuf, wbuf)
		if c14TextOK(&o, want, it.wantType) {
			return
		}
		acc.add(sig, form+": "+c14TextClass(&o, want, it.wantType), func() string {
			var pieces []string
			st := 0
			for _, c := range append(append([]int{}, cuts...), len(stream)) {
				pieces = append(pieces, c14Q(string(stream[st:c])))
				st = c
			}
			return fmt.Sprintf("%s; stream(%d bytes)=%s cut at %v -> reads %s; want %s got %s err=%q pending=%v",
				it.desc, len(stream), c14Q(string(stream)), cuts, strings.Join(pieces, " | "), c14QLL(want), c14QLL(o.cmds), o.err, o.pending)
		})
	}
	n := len(stream)
	if it.exhaust && n >= 1 && n-1 <= 20 {
		cuts := make([]int, 0, n)
		for mask := 0; mask < 1<<uint(n-1); mask++ {
			cuts = cuts[:0]
			for b := 0; b < n-1; b++ {
				if mask&(1<<uint(b)) != 0 {
					cuts = append(cuts, b+1)
				}
			}
			judge(cuts)
		}
		return acc
	}
	pos := c14CutPositions(stream)
	judge(nil)
	for a := 0; a < len(pos); a++ {
		judge([]int{pos[a]})
	}
	if it.maxCuts >= 2 {
		for a := 0; a < len(pos); a++ {
			for b := a + 1; b < len(pos); b++ {
				judge([]int{pos[a], pos[b]})
			}
		}
	}
	if it.maxCuts >= 3 {
		cuts := make([]int, 3)
		for a := 0; a < len(pos); a++ {
			for b := a + 1; b < len(pos); b++ {
				for c := b + 1; c < len(pos); c++ {
					cuts[0], cuts[1], cuts[2] = pos[a], pos[b], pos[c]
					judge(cuts)
				}
			}
		}
	}
	return acc
}

// c14Lists enumerates all lists of the given length over alpha (nested, lexicographic).
func c14Lists(alpha []string, length int, f func([]string)) {
	cur := make([]string, length)
	var rec func(i int)
	rec = func(i int) {
		if i == length {
			f(append([]string{}, cur...))
			return
		}
		for _, a := range alpha {
			cur[i] = a
			rec(i + 1)
		}
	}
	rec(0)
}

func c14TextChunking(quick bool) C14Group {
	S := []string{"", "a", "$1", "*2", "\r\n"}
	long := []string{c14Pat(127), c14Pat(128), c14Pat(129), c14Pat(1023), c14Pat(1024), c14Pat(1025)}
	huge := c14Pat(65536)
	isShort := func(s string) bool { return len(s) <= 2 }
	builder := protocol.NewTextParser(make([]byte, 16), make([]byte, 16))
	exhaustN := 12
	if !quick {
		exhaustN = 18
	}
	var items []*c14TextItem
	addList := func(l []string, maxCuts int, double bool) {
		// request
		enc := builder.BuildRequest(l)
		items = append(items, &c14TextItem{isReq: true, form: "req", desc: "BuildRequest(" + c14QL(l) + ")", enc: enc, want: l, wantType: 0,
			maxCuts: maxCuts, exhaust: !double && len(enc) <= exhaustN, double: double})
		// response with result list
		if len(l) == 0 {
			return
		}
		enc = builder.BuildResponse(true, "", l)
		form, wt := "*", 4
		if len(l) == 1 {
			form, wt = "$", 3
		}
		items = append(items, &c14TextItem{isReq: false, form: form, desc: "BuildResponse(true, \"\", " + c14QL(l) + ")", enc: enc, want: l, wantType: wt,
			maxCuts: maxCuts, exhaust: !double && len(enc) <= exhaustN, double: double})
	}
	cutsA, cutsB, cutsC := 2, 2, 1
	if !quick {
		cutsA, cutsB, cutsC = 3, 3, 2
	}
	// status lines
	msgs := append([]string{"", "OK", "a", "$1", "*2", "ERR unknown command"}, long...) // (a status line cannot carry CR / LF in this format: only argument lists are binary-safe)
	if !quick {
		msgs = append(msgs, huge)
	}
	for _, m := range msgs {
		mc := cutsB
		if len(m) == len(huge) {
			mc = 2
		}
		enc := builder.BuildResponse(true, m, nil)
		items = append(items, &c14TextItem{form: "+", desc: "BuildResponse(true, " + c14Q(m) + ", nil)", enc: enc, want: []string{m}, wantType: 1, maxCuts: mc, exhaust: len(enc) <= exhaustN})
		for _, full := range []string{m, "ERR " + m} {
			// ParseResponse splits an error line at the first blank into error type and message
			// (GetResponseCommand: ErrorType=args[0], Message=args[1]); that is the expected value.
			w := []string{full, ""}
			if k := strings.IndexByte(full, ' '); k >= 0 {
				w = []string{full[:k], full[k+1:]}
			}
			enc := builder.BuildResponse(false, full, nil)
			items = append(items, &c14TextItem{form: "-", desc: "BuildResponse(false, " + c14Q(full) + ", nil)", enc: enc, want: w, wantType: 2, maxCuts: mc, exhaust: len(enc) <= exhaustN})
		}
	}

	// A
	for n := 0; n <= 4; n++ {
		c14Lists(S, n, func(l []string) { addList(l, cutsA, false) })
	}
	// P
	maxP := 2
	if !quick {
		maxP = 3
	}
	for n := 1; n <= maxP; n++ {
		c14Lists(S, n, func(l []string) { addList(l, 2, true) })
	}
	// B, C, D
	alpha := append(append([]string{}, S...), long...)
	hasLong := func(l []string) bool {
		for _, s := range l {
			if !isShort(s) {
				return true
			}
		}
		return false
	}
	for n := 1; n <= 2; n++ {
		c14Lists(alpha, n, func(l []string) {
			if hasLong(l) {
				addList(l, cutsB, false)
			}
		})
	}
	if !quick {
		alphaH := append(append([]string{}, alpha...), huge)
		for n := 1; n <= 2; n++ {
			c14Lists(alphaH, n, func(l []string) {
				for _, s := range l {
					if len(s) == len(huge) {
						// the parser rebuilds a split argument by repeated string concatenation
						// (quadratic: about 1 ms per 64 KiB parse), hence fewer cuts here
						mc := 1
						if len(l) == 1 {
							mc = 2
						}
						addList(l, mc, false)
						return
					}
				}
			})
		}
	}
	c14Lists(alpha, 3, func(l []string) {
		if hasLong(l) {
			addList(l, cutsC, false)
		}
	})
	if !quick {
		c14Lists(alpha, 4, func(l []string) {
			if hasLong(l) {
				addList(l, 1, false)
			}
		})
	}
	tasks := make([]func() *c14Acc, len(items))
	seen := map[string]int{}
	dupStreams := 0
	for i, it := range items {
		it := it
		key := fmt.Sprintf("%v|%v|%x", it.isReq, it.double, c14Hash(it.enc))
		if it.form == "+" || it.form == "-" {
			key += it.form
		}
		if _, ok := seen[key]; ok {
			dupStreams++
		}
		seen[key] = i
		tasks[i] = func() *c14Acc { return c14RunTextItem(it) }
	}
	// sequences of DIFFERENT reply forms on one parser (a client connection reads them all through one): every
	// ordered triple of an array of two, an array of three, a single bulk, a status line and an error line, uncut,
	// with every single cut and byte by byte
	type seqForm struct {
		enc  []byte
		want []string
		typ  int
		name string
	}
	forms := []seqForm{
		{builder.BuildResponse(true, "", []string{"a", "b"}), []string{"a", "b"}, 4, "*2"},
		{builder.BuildResponse(true, "", []string{"a", "$1", "c"}), []string{"a", "$1", "c"}, 4, "*3"},
		{builder.BuildResponse(true, "", []string{"v"}), []string{"v"}, 3, "$"},
		{builder.BuildResponse(true, "OK", nil), []string{"OK"}, 1, "+"},
		{builder.BuildResponse(false, "ERR x", nil), []string{"ERR", "x"}, 2, "-"},
	}
	for i := range forms {
		for j := range forms {
			for k := range forms {
				fs := []seqForm{forms[i], forms[j], forms[k]}
				tasks = append(tasks, func() *c14Acc {
					acc := c14NewAcc()
					rbuf, wbuf := make([]byte, c14RbufSize), make([]byte, c14RbufSize)
					var stream []byte
					name := ""
					for _, f := range fs {
						stream = append(stream, f.enc...)
						name += f.name + " "
					}
					judge := func(cuts []int) {
						acc.evals++
						acc.distinct++
						o := c14Feed(false, stream, cuts, rbuf, wbuf)
						ok := o.err == "" && !o.pending && len(o.cmds) == len(fs)
						for x := 0; ok && x < len(fs); x++ {
							ok = fmt.Sprint(o.cmds[x]) == fmt.Sprint(fs[x].want) && o.types[x] == fs[x].typ
						}
						if !ok {
							acc.add("C14:text-reply-sequence", "reply forms "+name, func() string {
								return fmt.Sprintf("replies %son ONE parser, stream %s cut at %v: parsed %s types %v err=%q pending=%v", name, c14Q(string(stream)), cuts, c14QLL(o.cmds), o.types, o.err, o.pending)
							})
						}
					}
					judge(nil)
					all := make([]int, 0, len(stream))
					for c := 1; c < len(stream); c++ {
						judge([]int{c})
						all = append(all, c)
					}
					judge(all)
					return acc
				})
			}
		}
	}
	acc := c14Run(tasks)
	acc.samples = append(acc.samples,
		fmt.Sprintf("%d items (streams); duplicate streams: %d", len(items), dupStreams),
		fmt.Sprintf("sample: BuildRequest(%s) = %s, 2^%d chunkings", c14QL([]string{"a"}), c14Q(string(builder.BuildRequest([]string{"a"}))), len(builder.BuildRequest([]string{"a"}))-1),
		fmt.Sprintf("sample: BuildRequest(%s) = %d bytes, cut positions %v", c14QL([]string{long[4], "\r\n"}), len(builder.BuildRequest([]string{long[4], "\r\n"})), c14CutPositions(builder.BuildRequest([]string{long[4], "\r\n"}))),
		fmt.Sprintf("sample: BuildResponse(false, %q) = %s wants args %s", "ERR unknown command", c14Q(string(builder.BuildResponse(false, "ERR unknown command", nil))), c14QL([]string{"ERR", "unknown command"})))
	return acc.groupMax("text-chunking", 9) // 2 Sigs x forms req,+,-,$,* : one witness each, + reply sequences
}

// ---------------------------------------------------------------------------------------------
// group 5: result-text-rendering
//
// Result codes: the RESULT_* constants of protocol/command.go (0..12), listed by name below so the
// file stops compiling if one disappears. Text table: protocol.ERROR_MSG. Converters: every
// WriteText*CommandResult function of protocol.TextCommandConverter (textcommand.go); the one that
// renders a LockResultCommand as a text reply for LOCK/UNLOCK is WriteTextLockAndUnLockCommandResult.
// Each (code, converter, data variant) is run with a stub ITextProtocol / ISteam; a panic or an
// empty rendering is "C14:result-code-no-text". The LOCK/UNLOCK rendering without data and with
// string data is also parsed back with ParseResponse and must carry the code and a non-empty text.

type c14TextProto struct{ parser *protocol.TextParser }

func (p *c14TextProto) GetDBId() uint8                                { return 0 }
func (p *c14TextProto) GetLockId() [16]byte                           { return [16]byte{} }
func (p *c14TextProto) GetTimeout() uint16                            { return 0 }
func (p *c14TextProto) GetLockCommand() *protocol.LockCommand         { return &protocol.LockCommand{} }
func (p *c14TextProto) FreeLockCommand(_ *protocol.LockCommand) error { return nil }
func (p *c14TextProto) GetParser() *protocol.TextParser               { return p.parser }

type c14Stream struct{ buf []byte }

func (s *c14Stream) ReadBytes(b []byte) (int, error) { return 0, nil }
func (s *c14Stream) Read(b []byte) (int, error)      { return 0, nil }
func (s *c14Stream) WriteBytes(b []byte) error       { s.buf = append(s.buf, b...); return nil }
func (s *c14Stream) Write(b []byte) (int, error)     { s.buf = append(s.buf, b...); return len(b), nil }
func (s *c14Stream) Close() error                    { return nil }

func c14ResultText(quick bool) C14Group {
	acc := c14NewAcc()
	codes := []struct {
		name string
		v    int
	}{
		{"RESULT_SUCCED", protocol.RESULT_SUCCED}, {"RESULT_UNKNOWN_MAGIC", protocol.RESULT_UNKNOWN_MAGIC}, {"RESULT_UNKNOWN_VERSION", protocol.RESULT_UNKNOWN_VERSION},
		{"RESULT_UNKNOWN_DB", protocol.RESULT_UNKNOWN_DB}, {"RESULT_UNKNOWN_COMMAND", protocol.RESULT_UNKNOWN_COMMAND}, {"RESULT_LOCKED_ERROR", protocol.RESULT_LOCKED_ERROR},
		{"RESULT_UNLOCK_ERROR", protocol.RESULT_UNLOCK_ERROR}, {"RESULT_UNOWN_ERROR", protocol.RESULT_UNOWN_ERROR}, {"RESULT_TIMEOUT", protocol.RESULT_TIMEOUT},
		{"RESULT_EXPRIED", protocol.RESULT_EXPRIED}, {"RESULT_STATE_ERROR", protocol.RESULT_STATE_ERROR}, {"RESULT_ERROR", protocol.RESULT_ERROR},
		{"RESULT_LOCK_ACK_WAITING", protocol.RESULT_LOCK_ACK_WAITING},
	}
	conv := protocol.NewTextCommandConverter()
	writers := []struct {
		name string
		f    protocol.WriteTextCommandResultFunc
	}{
		{"WriteTextLockAndUnLockCommandResult", conv.WriteTextLockAndUnLockCommandResult},
		{"WriteTextDelCommandResult", conv.WriteTextDelCommandResult}, {"WriteTextSetCommandResult", conv.WriteTextSetCommandResult},
		{"WriteTextSetNXCommandResult", conv.WriteTextSetNXCommandResult}, {"WriteTextExpireCommandResult", conv.WriteTextExpireCommandResult},
		{"WriteTextGetCommandResult", conv.WriteTextGetCommandResult}, {"WriteTextStrlenCommandResult", conv.WriteTextStrlenCommandResult},
		{"WriteTextExistsCommandResult", conv.WriteTextExistsCommandResult}, {"WriteTextTypeCommandResult", conv.WriteTextTypeCommandResult},
		{"WriteTextDumpCommandResult", conv.WriteTextDumpCommandResult},
	}
	variants := []struct {
		name string
		flag uint8
		data func() *protocol.LockResultCommandData
	}{
		{"no data", 0, func() *protocol.LockResultCommandData { return nil }},
		{"string data", protocol.LOCK_FLAG_CONTAINS_DATA, func() *protocol.LockResultCommandData {
			return protocol.NewLockResultCommandDataFromString("val", protocol.LOCK_DATA_STAGE_CURRENT, protocol.LOCK_DATA_COMMAND_TYPE_SET, 0)
		}},
		{"number data", protocol.LOCK_FLAG_CONTAINS_DATA, func() *protocol.LockResultCommandData {
			return protocol.NewLockResultCommandDataFromBytes([]byte{7, 0, 0, 0, 0, 0, 0, 0}, protocol.LOCK_DATA_STAGE_CURRENT, protocol.LOCK_DATA_COMMAND_TYPE_INCR, protocol.LOCK_DATA_FLAG_VALUE_TYPE_NUMBER)
		}},
	}
	for _, c := range codes {
		c := c
		// the table itself
		acc.evals++
		acc.distinct++
		if c.v >= len(protocol.ERROR_MSG) || protocol.ERROR_MSG[c.v] == "" {
			acc.add("C14:result-code-no-text", "ERROR_MSG has no entry", func() string {
				return fmt.Sprintf("%s = %d: protocol.ERROR_MSG has %d entries (indices 0..%d)", c.name, c.v, len(protocol.ERROR_MSG), len(protocol.ERROR_MSG)-1)
			})
		} else if c.v == 0 || c.v == len(protocol.ERROR_MSG)-1 || c.v == protocol.RESULT_TIMEOUT {
			acc.samples = append(acc.samples, fmt.Sprintf("%s = %d -> %q", c.name, c.v, protocol.ERROR_MSG[c.v]))
		}
		for _, w := range writers {
			for _, va := range variants {
				w, va := w, va
				acc.evals++
				acc.distinct++
				res := &protocol.LockResultCommand{}
				res.Magic, res.Version, res.CommandType, res.Result = protocol.MAGIC, protocol.VERSION, protocol.COMMAND_LOCK, uint8(c.v)
				res.Flag, res.Data = va.flag, va.data()
				for i := range res.LockId {
					res.LockId[i] = byte(i + 1)
				}
				res.Lcount, res.Count, res.Lrcount, res.Rcount = 1, 2, 3, 4
				tp := &c14TextProto{parser: protocol.NewTextParser(make([]byte, 1024), make([]byte, 1024))}
				st := &c14Stream{}
				var err error
				pan := ""
				func() {
					defer func() {
						if r := recover(); r != nil {
							pan = fmt.Sprint(r)
						}
					}()
					err = w.f(tp, st, res)
				}()
				in := fmt.Sprintf("%s(LockResultCommand{Result: %d (%s), Flag: %#x, %s})", w.name, c.v, c.name, va.flag, va.name)
				if pan != "" {
					acc.add("C14:result-code-no-text", w.name+" panics", func() string { return in + " panics: " + pan })
					continue
				}
				if err != nil || len(st.buf) == 0 {
					acc.add("C14:result-code-no-text", w.name+" writes nothing", func() string { return fmt.Sprintf("%s: err=%v, %d bytes written", in, err, len(st.buf)) })
					continue
				}
				if w.name == "WriteTextLockAndUnLockCommandResult" && va.name != "number data" {
					o := c14Feed(false, st.buf, nil, make([]byte, 1024), make([]byte, 1024))
					ok := o.err == "" && !o.pending && len(o.cmds) == 1 && len(o.cmds[0]) >= 12 && o.cmds[0][0] == strconv.Itoa(c.v) && o.cmds[0][1] != ""
					if !ok {
						acc.add("C14:result-text-malformed", w.name, func() string {
							return fmt.Sprintf("%s wrote %s; ParseResponse gives %s err=%q pending=%v", in, c14Q(string(st.buf)), c14QLL(o.cmds), o.err, o.pending)
						})
					} else if c.v == protocol.RESULT_TIMEOUT && va.name == "no data" {
						acc.samples = append(acc.samples, fmt.Sprintf("%s -> %s", in, c14QL(o.cmds[0])))
					}
				}
			}
		}
	}
	acc.samples = append(acc.samples, "note: server/protocol.go:2177,2290,2310 and client/protocol.go:456 index protocol.ERROR_MSG with the result code in the same way (outside the protocol package, not executed here)")
	return acc.group("result-text-rendering")
}
