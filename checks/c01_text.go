package checks

import (
	"encoding/json"
	"fmt"
	"strings"

	"verif/explore"
	"verif/hapi"
	"verif/vrt"
	"verif/wire"
)

// Text connections build their LOCK / UNLOCK commands in command objects recycled per connection (and,
// after a close, server-wide). Whatever a connection did before must not leak into the Count its next
// request is admitted with. Enumeration: two text connections each play EVERY history up to a length over
// a small alphabet of semaphore / re-entrant use on other keys, then both try-lock one key with the Count
// given in the case (absent = exclusive); after every probe the holders of the probed key, as the server
// lists them, must respect the Counts the CLIENTS sent: a probe is granted only while the holds outstanding
// are at most its own Count and at most the Count the oldest holder asked for.
func c01TextPollution() [][]string {
	return [][]string{
		{"LOCK", "s", "LOCK_ID", "@1", "COUNT", "3", "TIMEOUT", "0", "EXPRIED", "30"},
		{"UNLOCK", "s", "LOCK_ID", "@1", "COUNT", "3"},
		{"UNLOCK", "s", "LOCK_ID", "@1"},
		{"LOCK", "r", "LOCK_ID", "@2", "COUNT", "5", "RCOUNT", "4", "TIMEOUT", "0", "EXPRIED", "30"},
		{"UNLOCK", "r", "LOCK_ID", "@2", "RCOUNT", "0"},
	}
}

type c01TextArg struct {
	Pairs  [][2][]int `json:"p"`
	Counts [2]int     `json:"c"` // COUNT word of the two probes; 0 = none (exclusive)
}

func c01TextHists(n, maxLen int) [][]int {
	out := [][]int{{}}
	var rec func(cur []int)
	rec = func(cur []int) {
		if len(cur) == maxLen {
			return
		}
		for i := 0; i < n; i++ {
			nx := append(append([]int{}, cur...), i)
			out = append(out, nx)
			rec(nx)
		}
	}
	rec(nil)
	return out
}

func c01TextCases(quick bool) []EnumCase {
	maxLen := 3
	if !quick {
		maxLen = 4
	}
	hs := c01TextHists(len(c01TextPollution()), maxLen)
	var out []EnumCase
	for _, counts := range [][2]int{{0, 0}, {0, 2}, {2, 0}, {2, 2}} {
		if quick && counts != [2]int{0, 0} && counts != [2]int{2, 2} {
			continue
		}
		var pairs [][2][]int
		flush := func() {
			if len(pairs) > 0 {
				out = append(out, mkCase(fmt.Sprintf("text-pooled-commands/counts%d-%d/%d", counts[0], counts[1], len(out)), c01TextArg{pairs, counts}))
				pairs = nil
			}
		}
		for _, h1 := range hs {
			for _, h2 := range hs {
				if quick && len(h1)+len(h2) > 5 {
					continue
				}
				pairs = append(pairs, [2][]int{h1, h2})
				if len(pairs) == 80 {
					flush()
				}
			}
		}
		flush()
	}
	return out
}

func evalC01Text(c *Ctx, cs EnumCase) EnumResult {
	var a c01TextArg
	if err := json.Unmarshal(cs.Arg, &a); err != nil {
		return EnumResult{Err: err.Error()}
	}
	alpha := c01TextPollution()
	res := EnumResult{Nontrivial: true}
	distinct := map[string]bool{}
	seenSig := map[string]bool{}
	for _, pr := range a.Pairs {
		res.Sub++
		var engErr string
		var log []string
		var viol *explore.Violation
		rt := vrt.Run(vrt.Options{MaxPoints: 100_000_000}, func() {
			node := hapi.Factories["n0"](hapi.Config{FastKeys: 4, Concurrent: 1})
			if err := node.Start(); err != nil {
				engErr = err.Error()
				return
			}
			vrt.AdvanceTo(1300 * ms)
			var conns [2]*wire.Conn
			for i := range conns {
				cn, err := wire.Dial(nodeAddr(0))
				if err != nil {
					engErr = err.Error()
					return
				}
				conns[i] = cn
			}
			play := func(ci int, words []string) string {
				w := make([]string, len(words))
				for i, x := range words {
					w[i] = strings.ReplaceAll(x, "@", fmt.Sprintf("c%d-", ci))
				}
				_ = conns[ci].Send(wire.Resp(w...))
				r := conns[ci].TakeText()
				return strings.Join(r, "|")
			}
			for ci := 0; ci < 2; ci++ {
				for _, i := range pr[ci] {
					log = append(log, fmt.Sprintf("c%d:%s=>%s", ci, strings.Join(alpha[i][:2], " "), firstWord(play(ci, alpha[i]))))
				}
			}
			// the probes
			granted := 0
			var grantedCounts []int
			for ci := 0; ci < 2; ci++ {
				words := []string{"LOCK", "m", "LOCK_ID", fmt.Sprintf("probe%d", ci), "TIMEOUT", "0", "EXPRIED", "30"}
				want := 0
				if a.Counts[ci] > 0 {
					words = append(words, "COUNT", fmt.Sprint(a.Counts[ci]))
					want = a.Counts[ci] - 1
				}
				r := play(ci, words)
				fw := firstWord(r)
				ok := fw == ":0" || fw == "$0" || fw == "0"
				log = append(log, fmt.Sprintf("c%d:probe(count %d)=>%s", ci, want, firstWord(r)))
				if ok {
					oldest := want
					if len(grantedCounts) > 0 {
						oldest = grantedCounts[0]
					}
					if granted > want || granted > oldest {
						viol = &explore.Violation{Sig: "C01:text-grant-exceeds-count", Msg: fmt.Sprintf("connection histories %v / %v, then both try-lock key m: the probe of connection %d (Count %d as sent) was granted while %d hold(s) were outstanding (oldest holder asked for Count %d); reply %q; log %v",
							histNames(alpha, pr[0]), histNames(alpha, pr[1]), ci, want, granted, oldest, r, log)}
						return
					}
					granted++
					grantedCounts = append(grantedCounts, want)
				}
			}
			ks := node.Snapshot().Key(0, normKey("m"))
			n := 0
			if ks != nil {
				n = len(ks.Holds)
			}
			if n != granted {
				viol = &explore.Violation{Sig: "C01:text-holders-differ-from-replies", Msg: fmt.Sprintf("connection histories %v / %v: %d probe(s) were answered as granted, the server lists %d holder(s) of key m; log %v", histNames(alpha, pr[0]), histNames(alpha, pr[1]), granted, n, log)}
			}
		})
		if engErr != "" {
			return EnumResult{Err: engErr}
		}
		if rt.Crash != nil {
			res.Viol = append(res.Viol, explore.Violation{Sig: "C01:text-crash", Msg: fmt.Sprintf("histories %v: %s", pr, rt.Crash.Value)})
			continue
		}
		if rt.Diverged || rt.Deadlock != "" {
			return EnumResult{Err: fmt.Sprintf("histories %v: runtime stuck (%s)", pr, rt.Deadlock)}
		}
		if viol != nil {
			if !seenSig[viol.Sig] {
				seenSig[viol.Sig] = true
				res.Viol = append(res.Viol, *viol)
			}
			continue
		}
		distinct[strings.Join(log, ";")] = true
	}
	res.SubNT = len(distinct)
	res.Obs = fmt.Sprintf("%d history pairs", len(a.Pairs))
	return res
}

func firstWord(s string) string {
	s = strings.TrimLeft(s, "*[ ")
	if i := strings.IndexAny(s, " ]|"); i >= 0 {
		return s[:i]
	}
	return s
}

func histNames(alpha [][]string, h []int) []string {
	var out []string
	for _, i := range h {
		out = append(out, strings.Join(alpha[i], " "))
	}
	return out
}
