package checks

import (
	"encoding/json"
	"fmt"
	"regexp"
	"sort"
	"strings"

	"github.com/snower/slock/protocol"
	"verif/explore"
	"verif/hapi"
	"verif/vrt"
	"verif/vrt/vos"
)

// ---- running a history while capturing file-system images

type captured struct {
	Final   vos.Image
	Points  []vos.Image // image right after each file-system mutation of the history phase
	PointAt []vos.FSPoint
	EndT    int64
	Err     string
	Live    *hapi.Snapshot // the node's state when the history ended (log queue flushed)
}

// injection: while the K-th compaction file-system call of the run is being made, a burst of further requests
// arrives and is written to the log (the thread making the call waits until the log queue is flushed).
type captureInject struct {
	AtPoint  int  // index among the compaction points of the run
	Shutdown bool // instead of a burst: a graceful shutdown of the node is started while that call is being made
	Burst    []SeqOp
	OpIndex  int // out: index of the history op during which the burst was injected (-1: never reached)
}

func runCapture(cfg hapi.Config, hist []SeqOp, everyPoint bool) *captured {
	return runCaptureInject(cfg, hist, everyPoint, nil)
}

func runCaptureInject(cfg hapi.Config, hist []SeqOp, everyPoint bool, inj *captureInject) *captured {
	out := &captured{}
	if inj != nil {
		inj.OpIndex = -1
	}
	_, hist = assignReq(nil, hist)
	rt := vrt.Run(vrt.Options{MaxPoints: 100_000_000}, func() {
		node := hapi.Factories["n0"](cfg)
		if err := node.StartEngine(); err != nil {
			out.Err = err.Error()
			return
		}
		clients := []hapi.Client{node.NewMemClient("a"), node.NewMemClient("b")}
		vrt.AdvanceTo(1300 * ms)
		fs := vos.Cur()
		cur, seen, busy := -1, 0, false
		if everyPoint || inj != nil {
			fs.OnPoint = func(p vos.FSPoint) {
				if everyPoint {
					out.Points = append(out.Points, fs.Image())
					out.PointAt = append(out.PointAt, p)
				}
				if inj != nil && !busy && isCompactionPoint(p) {
					if seen == inj.AtPoint && inj.OpIndex < 0 {
						busy = true
						inj.OpIndex = cur
						if inj.Shutdown {
							node.Poke("shutdown")
							seen++
							busy = false
							vrt.Sleep(1500 * ms) // this file-system call is slow: the shutdown's second of grace passes meanwhile
							return
						}
						_, burst := assignReq(nil, inj.Burst)
						for _, b := range burst {
							b.Cmd.Req += 100
							clients[1].Do(b.Cmd.Build())
						}
						node.Poke("flushaof")
						busy = false
					}
					seen++
				}
			}
		}
		for i, o := range hist {
			cur = i
			if inj != nil && inj.Shutdown && inj.OpIndex >= 0 {
				break // the node is shutting down: no further requests
			}
			if o.Cmd != nil {
				clients[o.Client].Do(o.Cmd.Build())
				vrt.Quiesce()
			} else {
				vrt.AdvanceTo(vrt.Elapsed() + o.Tick)
			}
		}
		if inj != nil && inj.Shutdown && inj.OpIndex >= 0 {
			// let the graceful stop run to its end (it waits for a running compaction)
			for w := 0; w < 100 && node.Poke("isclosed") != true; w++ {
				vrt.AdvanceTo(vrt.Elapsed() + 100*ms)
			}
			if node.Poke("isclosed") != true {
				out.Err = "the graceful shutdown did not finish within 10 s"
			}
			vrt.KillGroup(cfg.WithDefaults().Name)
			fs.OnPoint = nil
			out.Final = fs.Image()
			out.EndT = vrt.Elapsed()
			return
		}
		vrt.AdvanceTo(vrt.Elapsed() + 250*ms)
		node.Poke("flushaof")
		vrt.Quiesce()
		fs.OnPoint = nil
		out.Final = fs.Image()
		out.EndT = vrt.Elapsed()
		out.Live = node.Snapshot()
	})
	if rt.Crash != nil {
		out.Err = "crash while running the history: " + rt.Crash.Value
	}
	return out
}

// ---- recovering an image

type recovered struct {
	StartErr string
	Crash    string
	State    string // user-visible state after load
	Snap     *hapi.Snapshot
	Second   string // oracle message of the second restart ("" = fine)
}

// recoverImage starts a fresh node on the image at virtual time at; with second it then runs a small
// further workload, drains, kills the node and restarts once more.
func recoverImage(cfg hapi.Config, im vos.Image, at int64, second bool) recovered {
	var res recovered
	rt := vrt.Run(vrt.Options{MaxPoints: 100_000_000, StartNow: at}, func() {
		vos.Install(vos.FromImage(im))
		node := hapi.Factories["n0"](cfg)
		if err := node.StartEngine(); err != nil {
			res.StartErr = err.Error()
			return
		}
		vrt.AdvanceTo(at + 100*ms)
		res.Snap = node.Snapshot()
		res.State = res.Snap.UserString()
		if !second {
			return
		}
		c := node.NewMemClient("z")
		c.Do(withEF(hapi.Cmd{Type: 1, Req: 250, Key: 9, Id: 9, Expried: 70, Rcount: 1}, efZeroAof).Build())
		vrt.Quiesce()
		c.Do(withEF(hapi.Cmd{Type: 1, Req: 251, Key: 9, Id: 9, Expried: 70, Rcount: 1}, efZeroAof).Build())
		vrt.Quiesce()
		// ... and two holds that carry values (the value file is appended to as well)
		c.Do(withEF(hapi.Cmd{Type: 1, Req: 252, Key: 10, Id: 10, Expried: 70, Data: protocol.NewLockCommandDataSetString("second-phase-value").Data}, efZeroAof).Build())
		vrt.Quiesce()
		c.Do(withEF(hapi.Cmd{Type: 1, Req: 253, Key: 11, Id: 11, Expried: 70, Data: protocol.NewLockCommandDataSetString("v").Data}, efZeroAof).Build())
		vrt.Quiesce()
		vrt.AdvanceTo(vrt.Elapsed() + 250*ms)
		node.Poke("flushaof")
		vrt.Quiesce()
		before := node.Snapshot()
		vrt.KillGroup(cfg.WithDefaults().Name)
		n2 := hapi.Factories["n0"](cfg)
		if err := n2.StartEngine(); err != nil {
			res.Second = "second restart failed: " + err.Error()
			return
		}
		vrt.AdvanceTo(vrt.Elapsed() + 100*ms)
		after := n2.Snapshot()
		run := &SeqRun{Spec: &SeqSpec{Cfg: cfg}, Restart: &RestartObs{Before: before, After: after}}
		// only certainly-persisted holds are compared (those present after the first recovery are all from the log)
		var msgs []string
		for _, v := range OracleC07(run) {
			if !strings.Contains(v.Sig, "/") {
				msgs = append(msgs, v.Msg)
			}
		}
		sort.Strings(msgs) // the oracle walks maps
		for _, m := range msgs {
			res.Second += m + "; "
		}
		var k9 [16]byte
		k9[15] = 9
		if ks := after.Key(0, k9); ks == nil || len(ks.Holds) != 1 || ks.Holds[0].Depth != 2 {
			res.Second += "the hold taken after the first restart (key 9, depth 2) was not recovered by the second restart; "
		}
	})
	if rt.Crash != nil {
		res.Crash = rt.Crash.Value + "\n" + stableStack(firstLines(rt.Crash.Stack, 18))
	}
	if rt.Deadlock != "" {
		res.Crash = "deadlock: " + rt.Deadlock
	}
	return res
}

// followerStart starts a full node configured as follower of an unreachable leader on the image and reports
// whether the start itself succeeds (a follower reads the tail of its newest append file to learn its position).
func followerStart(cfg hapi.Config, im vos.Image, at int64) (startErr string, crash string) {
	return modeStart(cfg, im, at, "follower")
}

// modeStart: the image under a node configured as a follower / as a member of a replica set (which reads its log
// position from the newest file before anything else).
func modeStart(cfg hapi.Config, im vos.Image, at int64, mode string) (startErr string, crash string) {
	fc := cfg
	if mode == "follower" {
		fc.SlaveOf = "127.0.0.1:5999"
	} else {
		fc.ReplSet = "rs"
	}
	rt := vrt.Run(vrt.Options{MaxPoints: 100_000_000, StartNow: at}, func() {
		vos.Install(vos.FromImage(im))
		node := hapi.Factories["n0"](fc)
		if err := node.Start(); err != nil {
			startErr = err.Error()
			return
		}
		vrt.AdvanceTo(at + 100*ms)
	})
	if rt.Crash != nil {
		crash = rt.Crash.Value + "\n" + stableStack(firstLines(rt.Crash.Stack, 12))
	}
	return
}

// valueMissing: the newest append file contains a value-carrying record whose value is not (fully) in
// the value file — the situation of a crash between the record write and the value write of one flush.
func valueMissing(im vos.Image) bool {
	na := newestAppend(im)
	if na == "" {
		return false
	}
	a, d := im[na], im[na+".dat"]
	need := 0
	for off := 12; off+64 <= len(a); off += 64 {
		flag := uint16(a[off+55]) | uint16(a[off+56])<<8
		if flag&0x2000 != 0 {
			if need+4 > len(d) {
				return true
			}
			n := int(uint32(d[need]) | uint32(d[need+1])<<8 | uint32(d[need+2])<<16 | uint32(d[need+3])<<24)
			need += 4 + n
			if need > len(d) {
				return true
			}
		}
	}
	return false
}

// valueSurplus reports whether the newest value file holds more bytes than the value-carrying records of its log
// account for (the log lost records whose values reached the disk).
func valueSurplus(im vos.Image) bool {
	na := newestAppend(im)
	if na == "" {
		return false
	}
	a, d := im[na], im[na+".dat"]
	need := 0
	for off := 12; off+64 <= len(a); off += 64 {
		flag := uint16(a[off+55]) | uint16(a[off+56])<<8
		if flag&0x2000 != 0 {
			if need+4 > len(d) {
				return false
			}
			need += 4 + int(uint32(d[need])|uint32(d[need+1])<<8|uint32(d[need+2])<<16|uint32(d[need+3])<<24)
		}
	}
	return need < len(d)
}

func newestAppend(im vos.Image) string {
	best, bi := "", -1
	for p := range im {
		i := strings.LastIndex(p, "/append.aof.")
		if i < 0 || strings.HasSuffix(p, ".dat") {
			continue
		}
		var n int
		if _, err := fmt.Sscanf(p[i+len("/append.aof."):], "%d", &n); err == nil && n > bi {
			best, bi = p, n
		}
	}
	return best
}

func copyImage(im vos.Image) vos.Image {
	o := vos.Image{}
	for k, v := range im {
		if v == nil {
			o[k] = nil
		} else {
			o[k] = append([]byte{}, v...)
		}
	}
	return o
}

// ---- histories (consecutive records differ visibly: a reconstructed record changes depth or key set)

func c08Histories(quick bool) [][]SeqOp {
	z := func(c hapi.Cmd) hapi.Cmd { return withEF(c, efZeroAof) }
	set := protocol.NewLockCommandDataSetString("value-1").Data
	set2 := protocol.NewLockCommandDataSetString("v2").Data
	hs := [][]SeqOp{
		// re-entrant locks: every record adds one depth
		{op(0, z(L(0, 1, 1, 0, 90, 0, 9))), op(0, z(L(0, 1, 1, 0, 90, 0, 9))), op(0, z(L(0, 1, 1, 0, 90, 0, 9))), op(0, z(L(0, 2, 7, 0, 80, 0, 0)))},
		// lock A, lock B, unlock A, lock C
		{op(0, z(L(0, 1, 1, 0, 90, 0, 0))), op(0, z(L(0, 2, 2, 0, 80, 0, 0))), op(0, U(0, 1, 1)), op(0, z(L(0, 3, 3, 0, 70, 0, 1))), op(0, z(L(0, 3, 3, 0, 70, 0, 1)))},
		// value-carrying records after plain ones
		{op(0, z(L(0, 1, 1, 0, 90, 0, 2))), op(0, withData(z(L(0, 2, 2, 0, 80, 0, 2)), set)), op(0, withData(z(L(0, 2, 2, 0, 80, 0, 2)), set2)), op(0, z(L(0, 1, 1, 0, 90, 0, 2)))},
		// records whose last byte (Rcount) differs, semaphore holders
		{op(0, z(L(0, 1, 1, 0, 90, 5, 1))), op(0, z(L(0, 1, 2, 0, 90, 5, 2))), op(0, z(L(0, 1, 3, 0, 90, 5, 3))), op(0, U(0, 1, 2)), op(0, z(L(0, 1, 3, 0, 90, 5, 3)))},
	}
	// a short-lived value-carrying hold between long-lived ones: by the time of the restart it has ended (history 4:
	// while the node was still up; history 5: during the outage, see c08Downtime)
	short := protocol.NewLockCommandDataSetString("short-lived").Data
	yankee := protocol.NewLockCommandDataSetString("yankee").Data
	zulu := protocol.NewLockCommandDataSetString("zulu-zulu").Data
	mixed := []SeqOp{op(0, z(L(0, 1, 1, 0, 90, 0, 0))), op(0, withData(z(L(0, 5, 5, 0, 2, 0, 0)), short)), op(0, withData(z(L(0, 2, 2, 0, 80, 0, 0)), yankee)), op(0, z(L(0, 3, 3, 0, 80, 0, 0))), op(0, withData(z(L(0, 4, 4, 0, 80, 0, 0)), zulu))}
	hs = append(hs, append(append([]SeqOp{}, mixed...), tick(4*sec), op(0, z(L(0, 6, 6, 0, 80, 0, 0)))), mixed)
	// history 6 (rotation threshold 4 records, see c08CfgFor): the record that rotates the append file carries a value
	v2, v4, v6 := protocol.NewLockCommandDataSetString("value-2").Data, protocol.NewLockCommandDataSetString("value-4").Data, protocol.NewLockCommandDataSetString("value-6").Data
	hs = append(hs, []SeqOp{op(0, z(L(0, 1, 1, 0, 90, 0, 0))), op(0, withData(z(L(0, 2, 2, 0, 90, 0, 0)), v2)), op(0, z(L(0, 3, 3, 0, 90, 0, 0))), op(0, withData(z(L(0, 4, 4, 0, 90, 0, 0)), v4)),
		op(0, z(L(0, 5, 5, 0, 90, 0, 0))), op(0, withData(z(L(0, 6, 6, 0, 90, 0, 0)), v6))})
	if !quick {
		hs = append(hs,
			[]SeqOp{op(0, z(L(0, 1, 1, 0, 90, 0, 0))), tick(2 * sec), op(0, z(L(0, 2, 2, 0, 3, 0, 0))), tick(5 * sec), op(0, z(L(0, 3, 3, 0, 70, 0, 1)))}, // an expiry record in between
			[]SeqOp{op(0, withData(z(L(0, 1, 1, 0, 90, 0, 3)), set)), op(0, withData(z(L(0, 1, 1, 0, 90, 0, 3)), set2)), op(0, withData(hapi.Cmd{Type: 2, Key: 1, Id: 1, Rcount: 1}, set)), op(0, z(L(0, 2, 2, 0, 80, 0, 0)))},
		)
	}
	return hs
}

// c08Downtime: how long the node stays down before the restart, per history.
func c08Downtime(hist int) int64 {
	if hist == 5 {
		return 5 * sec
	}
	return 0
}

// liveSig lists what a snapshot holds, without deadlines; holds that end before virtual second endsBefore are left out.
func liveSig(s *hapi.Snapshot, endsBefore int64) string {
	var rows []string
	for _, k := range s.Keys {
		var hs []string
		for _, h := range k.Holds {
			if endsBefore > 0 && h.ExpriedAt < endsBefore {
				continue
			}
			hs = append(hs, fmt.Sprintf("H(id%x depth%d c%d rc%d)", h.LockId[15], h.Depth, h.Count, h.Rcount))
		}
		if len(hs) == 0 {
			continue
		}
		rows = append(rows, fmt.Sprintf("db%d key%x value%x: %s", k.DB, k.Key[15], k.Value, strings.Join(hs, " ")))
	}
	sort.Strings(rows)
	return strings.Join(rows, " / ")
}

type c08Arg struct {
	Hist int    `json:"h"`
	Kind string `json:"k"` // aof-cut | dat-cut | fs-point
	From int    `json:"from"`
	To   int    `json:"to"`
}

func c08Cases(quick bool) []EnumCase {
	var out []EnumCase
	cfg := c08Cfg()
	for hi, h := range c08Histories(quick) {
		cfg = c08CfgFor(hi)
		cap := runCapture(cfg, h, true)
		if cap.Err != "" {
			out = append(out, mkCase(fmt.Sprintf("h%d/broken", hi), c08Arg{Hist: hi, Kind: "broken"}))
			continue
		}
		na := newestAppend(cap.Final)
		alen, dlen := len(cap.Final[na]), len(cap.Final[na+".dat"])
		chunk := 16
		for f := 0; f <= alen; f += chunk {
			t := f + chunk
			if t > alen+1 {
				t = alen + 1
			}
			out = append(out, mkCase(fmt.Sprintf("h%d/aof-cut/%d-%d", hi, f, t-1), c08Arg{hi, "aof-cut", f, t}))
		}
		for f := 0; f < dlen; f += chunk {
			t := f + chunk
			if t > dlen {
				t = dlen
			}
			out = append(out, mkCase(fmt.Sprintf("h%d/dat-cut/%d-%d", hi, f, t-1), c08Arg{hi, "dat-cut", f, t}))
		}
		if hi == 6 {
			continue // the crash points of a history that rotates are those of a compaction: C16's ground
		}
		for f := 0; f < len(cap.Points); f += chunk {
			t := f + chunk
			if t > len(cap.Points) {
				t = len(cap.Points)
			}
			out = append(out, mkCase(fmt.Sprintf("h%d/fs-point/%d-%d", hi, f, t-1), c08Arg{hi, "fs-point", f, t}))
		}
	}
	return out
}

func c08Cfg() hapi.Config {
	return hapi.Config{FastKeys: 4, Concurrent: 2, FileBuf: 64, RewriteSz: 1 << 20}
}

// c08CfgFor: history 6 runs with a rotation threshold of four records, so that its fourth record (which carries a
// value) is the one that rotates the append file.
func c08CfgFor(hist int) hapi.Config {
	c := c08Cfg()
	if hist == 6 {
		c.RewriteSz = 12 + 64*4
	}
	return c
}

// prefixStates: the states recovered from the clean record prefixes 0..n of the newest append file.
func prefixStates(cfg hapi.Config, final vos.Image, na string, at int64) ([]string, string) {
	n := (len(final[na]) - 12) / 64
	var ps []string
	for k := 0; k <= n; k++ {
		im := copyImage(final)
		im[na] = im[na][:12+64*k]
		r := recoverImage(cfg, im, at, false)
		if r.StartErr != "" || r.Crash != "" {
			return nil, fmt.Sprintf("recovering the clean prefix of %d records failed: %s %s", k, r.StartErr, r.Crash)
		}
		ps = append(ps, r.State)
	}
	return ps, ""
}

func evalC08(c *Ctx, cs EnumCase) EnumResult {
	var a c08Arg
	if err := json.Unmarshal(cs.Arg, &a); err != nil {
		return EnumResult{Err: err.Error()}
	}
	if a.Kind == "broken" {
		return EnumResult{Err: "history could not be executed"}
	}
	cfg := c08CfgFor(a.Hist)
	h := c08Histories(c.Quick())[a.Hist]
	cap := runCapture(cfg, h, a.Kind == "fs-point")
	if cap.Err != "" {
		return EnumResult{Err: cap.Err}
	}
	na := newestAppend(cap.Final)
	at := cap.EndT + c08Downtime(a.Hist)
	ps, perr := prefixStates(cfg, cap.Final, na, at)
	if perr != "" {
		return EnumResult{Err: perr}
	}
	res := EnumResult{}
	distinct := map[string]bool{}
	var vs []explore.Violation
	if a.Kind == "aof-cut" && a.From == 0 {
		// the prefix states used below are what the loader itself makes of record-boundary cuts; anchor them
		// once per history to something the loader has no part in: the complete log must recover what the
		// node held when it stopped, minus the holds that ended since
		full := recoverImage(cfg, cap.Final, at, false)
		res.Sub++
		if full.StartErr == "" && full.Crash == "" && cap.Live != nil {
			want, got := liveSig(cap.Live, at/sec+2), liveSig(full.Snap, 0)
			if want != got {
				vs = append(vs, explore.Violation{Sig: "C08:complete-log-recovers-differently", Msg: fmt.Sprintf("history %d, uncut files, restart %d ms after the stop: recovered [%s]; when it stopped the node held (still live at the restart) [%s]", a.Hist, c08Downtime(a.Hist)/ms, got, want)})
			}
		}
	}
	judge := func(what string, im vos.Image, maxRec int) {
		r := recoverImage(cfg, im, at, true)
		res.Sub++
		if r.Crash != "" {
			vs = append(vs, explore.Violation{Sig: "C08:recovery-crash", Msg: what + ": " + r.Crash})
			return
		}
		if r.StartErr != "" {
			sig := "C08:start-failed"
			if strings.Contains(what, "header") {
				sig = "C08:start-failed/torn-header"
			}
			if strings.Contains(what, "value file") {
				sig = "C08:start-failed/torn-value"
			}
			vs = append(vs, explore.Violation{Sig: sig, Msg: fmt.Sprintf("%s: the next start fails: %s", what, r.StartErr)})
			return
		}
		distinct[r.State] = true
		okIdx := -1
		for k := 0; k <= maxRec && k < len(ps); k++ {
			if ps[k] == r.State {
				okIdx = k
			}
		}
		if okIdx < 0 {
			any := -1
			for k := range ps {
				if ps[k] == r.State {
					any = k
				}
			}
			if any >= 0 {
				vs = append(vs, explore.Violation{Sig: "C08:record-from-partial-bytes", Msg: fmt.Sprintf("%s: only %d complete records are in the file, but the recovered state is that of %d records: a record was reconstructed from partial bytes [%s]", what, maxRec, any, strings.ReplaceAll(r.State, "\n", " / "))})
			} else {
				vs = append(vs, explore.Violation{Sig: "C08:not-a-prefix-state", Msg: fmt.Sprintf("%s: recovered state [%s] is not the state of any record prefix (%d complete records)", what, strings.ReplaceAll(r.State, "\n", " / "), maxRec)})
			}
			return
		}
		if r.Second != "" {
			sig := "C08:second-restart"
			if strings.Contains(what, "value file") {
				sig += "/value-file-cut"
			} else if strings.Contains(what, "crash right after") && valueMissing(im) {
				sig += "/value-file-cut"
			} else if valueSurplus(im) {
				sig += "/value-file-longer-than-log"
			}
			vs = append(vs, explore.Violation{Sig: sig, Msg: what + ": " + r.Second})
		}
	}
	switch a.Kind {
	case "aof-cut":
		for L := a.From; L < a.To; L++ {
			im := copyImage(cap.Final)
			im[na] = im[na][:L]
			max := 0
			what := fmt.Sprintf("history %d, %s cut to %d bytes", a.Hist, na, L)
			if L >= 12 {
				max = (L - 12) / 64
				what += fmt.Sprintf(" (%d records + %d bytes)", max, (L-12)%64)
			} else {
				what += " (torn header)"
			}
			judge(what, im, max)
			// the same image under a node that starts as a follower
			res.Sub++
			if se, cr := followerStart(cfg, im, at); cr != "" {
				vs = append(vs, explore.Violation{Sig: "C08:recovery-crash/follower", Msg: what + ", node started as a follower: " + cr})
			} else if se != "" {
				vs = append(vs, explore.Violation{Sig: "C08:start-failed/follower", Msg: fmt.Sprintf("%s: a node configured as a follower does not start: %s", what, se)})
			}
			// ... and under a node that starts as a member of a replica set
			res.Sub++
			if se, cr := modeStart(cfg, im, at, "replset"); cr != "" {
				vs = append(vs, explore.Violation{Sig: "C08:recovery-crash/replica-set-member", Msg: what + ", node started as a replica-set member: " + cr})
			} else if se != "" {
				vs = append(vs, explore.Violation{Sig: "C08:start-failed/replica-set-member", Msg: fmt.Sprintf("%s: a node configured as a replica-set member does not start: %s", what, se)})
			}
		}
	case "dat-cut":
		dn := na + ".dat"
		// the value file may only be shorter than the log says when the crash hit between the two writes
		for L := a.From; L < a.To; L++ {
			im := copyImage(cap.Final)
			im[dn] = im[dn][:L]
			judge(fmt.Sprintf("history %d, value file %s cut to %d of %d bytes", a.Hist, dn, L, len(cap.Final[dn])), im, len(ps)-1)
		}
	case "fs-point":
		for i := a.From; i < a.To; i++ {
			im := cap.Points[i]
			p := cap.PointAt[i]
			max := 0
			if n := newestAppend(im); n != "" && len(im[n]) >= 12 {
				max = (len(im[n]) - 12) / 64
			}
			judge(fmt.Sprintf("history %d, crash right after file-system call #%d (%s %s %d bytes)", a.Hist, p.N, p.Op, p.Path, p.Len), im, max)
		}
	}
	res.Viol = dedupe(vs)
	res.SubNT = len(distinct)
	if res.Sub == 0 {
		res.Sub = 1
	}
	var ds []string
	for s := range distinct {
		ds = append(ds, strings.ReplaceAll(s, "\n", " / "))
	}
	sort.Strings(ds)
	res.Obs = fmt.Sprintf("%d images, recovered states: %v", res.Sub, ds)
	res.Nontrivial = len(distinct) > 0
	return res
}

func init() {
	enumCheck("C08", "fault_enumeration",
		func(q bool) []*EnumPlan {
			return []*EnumPlan{{Name: "torn-log", Cases: c08Cases, Eval: evalC08}}
		}, nil,
		"for each workload history: run it on the real write path over the in-memory file system, then enumerate EVERY truncation length of the newest append file (all 64 residues of every record and the 12-byte header), every truncation length of its value file, and the directory image right after EVERY file-system call of the run; each image is recovered by a fresh node; the recovered state must be the state of a clean record prefix no longer than the complete records in the image (clean prefixes are themselves recovered by the implementation: differential oracle), the start must succeed, and after two further operations a second restart must recover them; distinct = distinct recovered states per case group",
		[]string{"crash model: process stop, completed writes durable; cuts of the two files are enumerated independently (one file cut at a time)", "histories are chosen so that consecutive records compose visibly (re-entrant depth, different keys, values)",
			"the clean-prefix reference states are produced by the implementation's own loader on files cut at record boundaries"})
}

var reStackNoise = regexp.MustCompile(`0x[0-9a-f]+|goroutine \d+|\+0x[0-9a-f]+`)

// stableStack removes addresses and goroutine numbers so that two executions of one case print the same text.
func stableStack(s string) string { return reStackNoise.ReplaceAllString(s, "_") }
