package checks

import (
	"encoding/json"
	"fmt"
	"strings"

	"verif/explore"
	"verif/hapi"
	"verif/vrt"
)

// Election protocol at message granularity: explicit-state BFS over the fate (delivered / lost / delivered
// with the reply lost) and the delivery order of every vote, proposal and commit request of 2-3 simultaneous
// candidates. Every transition replays the history on fresh real ArbiterManager objects: the candidates run the
// real ArbiterVoter.DoVote / DoProposal / DoCommit, the acceptors the real REPL_VOTE / REPL_PROPOSAL /
// REPL_COMMIT handlers and DoSelfProposal / DoSelfCommit.

type arbTask struct {
	Spec hapi.ArbSpec    `json:"spec"`
	Hist []hapi.ArbEvent `json:"hist"`
}

type arbResult struct {
	Obs   hapi.ArbObs `json:"obs"`
	Crash string      `json:"crash,omitempty"`
	Dead  string      `json:"dead,omitempty"`
}

func c12VoteSpecs(quick bool) []hapi.ArbSpec {
	d := func(w uint32, l int) hapi.ArbMember { return hapi.ArbMember{Weight: w, Log: l} }
	arb := hapi.ArbMember{Weight: 0, Arbiter: true}
	specs := []hapi.ArbSpec{
		{Name: "3-data-equal-logs", Members: []hapi.ArbMember{d(1, 1), d(1, 1), d(1, 1)}, Candidates: []int{0, 1}, Rounds: 1, MaxLoss: 1},
		{Name: "3-data-link-0-2-down", Members: []hapi.ArbMember{d(1, 1), d(1, 1), d(1, 1)}, Candidates: []int{0, 1}, Down: [][2]int{{0, 2}}, Rounds: 1, MaxLoss: 1},
		{Name: "3-data-link-0-2-down-two-rounds", Members: []hapi.ArbMember{d(1, 1), d(1, 1), d(1, 1)}, Candidates: []int{0, 1}, Down: [][2]int{{0, 2}}, Rounds: 2, MaxLoss: 0},
		{Name: "3-data-newer-log-across-wrap", Members: []hapi.ArbMember{d(1, 1), d(1, 2), d(2, 1)}, Candidates: []int{0, 2}, Rounds: 1, MaxLoss: 1},
		{Name: "2-data-1-arbiter", Members: []hapi.ArbMember{d(1, 1), d(1, 2), arb}, Candidates: []int{0, 2}, Rounds: 1, MaxLoss: 1},
		{Name: "3-data-weight0-has-newest-log", Members: []hapi.ArbMember{d(1, 1), d(0, 2), d(1, 1)}, Candidates: []int{1, 2}, Rounds: 1, MaxLoss: 1},
		// the newest entry is younger than the last status poll: everybody's cached view of member 1 (its own too) is one behind
		{Name: "3-data-weight0-newest-log-not-yet-polled", Members: []hapi.ArbMember{d(1, 1), {Weight: 0, Log: 2, StaleBy: 1}, d(1, 1)}, Candidates: []int{1, 2}, Rounds: 1, MaxLoss: 1},
		{Name: "3-data-newest-log-not-yet-polled", Members: []hapi.ArbMember{d(1, 1), {Weight: 1, Log: 2, StaleBy: 1}, d(1, 1)}, Candidates: []int{0, 2}, Rounds: 1, MaxLoss: 1},
		// (positions above the wrap-around here: an arbiter reports the all-zero position, which the comparison reads as
		// newer than any position in the upper half of the index space)
		// the leader (member 0) has died after a record at position 3 was acknowledged in majority mode (2 of the 3 data
		// members: itself and member 1); member 2 lags; two arbiters vote
		{Name: "3-data-2-arbiters-leader-dead-acked-record", Members: []hapi.ArbMember{d(1, 3), d(1, 3), d(1, 2), arb, arb}, Candidates: []int{2, 1}, Down: [][2]int{{0, 1}, {0, 2}, {0, 3}, {0, 4}}, Rounds: 1, MaxLoss: 1, AckedLog: 3},
		// the same, but the others have not yet been told member 1's latest position (positions are announced periodically) and the link between members 1 and 2 is down
		{Name: "3-data-2-arbiters-leader-dead-acked-record-not-yet-announced", Members: []hapi.ArbMember{{Weight: 1, Log: 3, StaleBy: 1}, {Weight: 1, Log: 3, StaleBy: 1}, d(1, 2), arb, arb}, Candidates: []int{2, 1}, Down: [][2]int{{0, 1}, {0, 2}, {0, 3}, {0, 4}, {1, 2}}, Rounds: 1, MaxLoss: 1, AckedLog: 3},
		{Name: "4-members-weight0-and-arbiter", Members: []hapi.ArbMember{d(1, 1), d(0, 1), d(2, 2), arb}, Candidates: []int{0, 1}, Rounds: 1, MaxLoss: 0},
	}
	// member 0 is a running leader; members 1 and 2 have just been restarted from their saved metadata (which carries no
	// roles) and both stand before its announcement has reached them: whoever the leader itself has answered must refuse
	lead := hapi.ArbMember{Weight: 1, Log: 1, Leader: true}
	specs = append(specs,
		hapi.ArbSpec{Name: "3-data-running-leader-others-just-restarted", Members: []hapi.ArbMember{lead, d(1, 1), d(1, 1)}, Candidates: []int{1, 2}, Rounds: 1, MaxLoss: 1},
		hapi.ArbSpec{Name: "3-data-running-leader-one-candidate-two-rounds", Members: []hapi.ArbMember{lead, d(1, 1), d(1, 1)}, Candidates: []int{1}, Rounds: 2, MaxLoss: 1, Restarts: 1},
	)
	specs = append(specs,
		hapi.ArbSpec{Name: "3-data-member-restart", Members: []hapi.ArbMember{d(1, 1), d(1, 1), d(1, 1)}, Candidates: []int{0, 1}, Rounds: 1, MaxLoss: 1, Restarts: 1},
		hapi.ArbSpec{Name: "3-data-member-restart-two-losses", Members: []hapi.ArbMember{d(1, 1), d(1, 1), d(1, 1)}, Candidates: []int{0, 2}, Rounds: 1, MaxLoss: 2, Restarts: 1},
		hapi.ArbSpec{Name: "3-data-equal-logs-two-losses", Members: []hapi.ArbMember{d(1, 1), d(1, 1), d(1, 1)}, Candidates: []int{0, 1}, Rounds: 1, MaxLoss: 2},
		hapi.ArbSpec{Name: "3-data-three-candidates", Members: []hapi.ArbMember{d(1, 1), d(1, 1), d(1, 1)}, Candidates: []int{0, 1, 2}, Rounds: 1, MaxLoss: 0},
		hapi.ArbSpec{Name: "3-data-two-rounds-one-loss", Members: []hapi.ArbMember{d(1, 1), d(1, 1), d(1, 1)}, Candidates: []int{0, 1}, Rounds: 2, MaxLoss: 1},
		hapi.ArbSpec{Name: "5-data-mixed", Members: []hapi.ArbMember{d(1, 1), d(1, 2), d(2, 2), d(0, 1), arb}, Candidates: []int{0, 2}, Rounds: 1, MaxLoss: 0},
		hapi.ArbSpec{Name: "4-data-link-down", Members: []hapi.ArbMember{d(1, 1), d(1, 1), d(1, 1), d(1, 1)}, Candidates: []int{0, 1}, Down: [][2]int{{0, 3}}, Rounds: 1, MaxLoss: 1},
	)
	if !quick {
		specs = append(specs,
			hapi.ArbSpec{Name: "3-data-three-candidates-one-loss", Members: []hapi.ArbMember{d(1, 1), d(1, 1), d(1, 1)}, Candidates: []int{0, 1, 2}, Rounds: 1, MaxLoss: 1},
			hapi.ArbSpec{Name: "3-data-three-candidates-two-rounds", Members: []hapi.ArbMember{d(1, 1), d(1, 1), d(1, 1)}, Candidates: []int{0, 1, 2}, Rounds: 2, MaxLoss: 0},
			hapi.ArbSpec{Name: "3-data-two-rounds-two-losses", Members: []hapi.ArbMember{d(1, 1), d(1, 1), d(1, 1)}, Candidates: []int{0, 1}, Rounds: 2, MaxLoss: 2},
			hapi.ArbSpec{Name: "4-data-three-candidates", Members: []hapi.ArbMember{d(1, 1), d(1, 2), d(1, 2), d(2, 1)}, Candidates: []int{0, 1, 3}, Rounds: 1, MaxLoss: 0},
			hapi.ArbSpec{Name: "5-data-arbiter-two-losses", Members: []hapi.ArbMember{d(1, 1), d(1, 2), d(2, 2), d(0, 1), arb}, Candidates: []int{1, 2}, Rounds: 1, MaxLoss: 2},
			hapi.ArbSpec{Name: "3-data-three-rounds", Members: []hapi.ArbMember{d(1, 1), d(1, 1), d(1, 1)}, Candidates: []int{0, 1}, Rounds: 3, MaxLoss: 1},
		)
	}
	return specs
}

func c12VoteWorker(c *Ctx) int {
	return ServeWorker(func(task []byte) interface{} {
		var t arbTask
		if err := json.Unmarshal(task, &t); err != nil {
			return arbResult{Obs: hapi.ArbObs{Err: err.Error()}}
		}
		var res arbResult
		rt := vrt.Run(vrt.Options{MaxPoints: 50_000_000}, func() {
			if hapi.ArbExec == nil {
				res.Obs.Err = "election harness not linked"
				return
			}
			res.Obs = hapi.ArbExec(t.Spec, t.Hist)
		})
		if rt.Crash != nil {
			res.Crash = rt.Crash.Value + "\n" + firstLines(rt.Crash.Stack, 14)
		}
		if rt.Diverged {
			res.Obs.Err = "point budget exceeded"
		}
		return res
	})
}

type arbStats struct {
	Name        string
	States      int
	Transitions int
	PerDepth    []int
	Winners     map[string]bool
	Capped      bool
	Violations  int
	Sample      []string
	Known       map[string]int
}

func c12VoteMaster(c *Ctx, spec hapi.ArbSpec, maxStates int) (*arbStats, string) {
	st := &arbStats{Name: spec.Name, Winners: map[string]bool{}, Known: map[string]int{}}
	pool, err := c.NewPool("votes/"+spec.Name, c.NProc)
	if err != nil {
		return nil, err.Error()
	}
	defer pool.Close()
	eval := func(hists [][]hapi.ArbEvent) ([]arbResult, string) {
		in := make([][]byte, len(hists))
		for i, h := range hists {
			in[i], _ = json.Marshal(arbTask{Spec: spec, Hist: h})
		}
		out, err := pool.Map(in)
		if err != nil {
			return nil, err.Error()
		}
		res := make([]arbResult, len(out))
		for i, o := range out {
			if err := json.Unmarshal(o, &res[i]); err != nil {
				return nil, "bad worker reply: " + err.Error()
			}
			if res[i].Obs.Err != "" {
				return nil, fmt.Sprintf("%s after %v: %s", spec.Name, hists[i], res[i].Obs.Err)
			}
		}
		return res, ""
	}
	reported := map[string]bool{}
	judge := func(h []hapi.ArbEvent, r arbResult) {
		var vs []explore.Violation
		if r.Crash != "" {
			vs = append(vs, explore.Violation{Sig: "C12:crash", Msg: r.Crash})
		}
		for _, v := range r.Obs.Viol {
			p := strings.SplitN(v, "|", 2)
			vs = append(vs, explore.Violation{Sig: p[0], Msg: spec.Name + ": " + p[1]})
		}
		vs, known := c.SplitKnown(vs)
		for _, k := range known {
			st.Known[k]++
		}
		for _, v := range vs {
			if reported[v.Sig] {
				continue
			}
			reported[v.Sig] = true
			st.Violations++
			c.ReportViolation(Replay{Scenario: "votes/" + spec.Name, Input: map[string]interface{}{"spec": spec, "events": h, "log": r.Obs.Log}, Findings: []explore.Violation{v}, Trace: strings.Join(r.Obs.Log, "; ")})
		}
		for _, w := range r.Obs.Winners {
			st.Winners[w] = true
			ackSig := "C12:acknowledged-record-lost"
			for _, m := range spec.Members {
				if m.StaleBy > 0 {
					// its own signature: the other members' knowledge of the acknowledging member's position predates the record
					// and that member cannot be reached by the candidate
					ackSig = "C12:acknowledged-record-lost/position-not-yet-announced-and-acknowledging-member-unreachable"
				}
			}
			if spec.AckedLog > 0 && !reported[ackSig] {
				for i, m := range spec.Members {
					if strings.Contains(w, fmt.Sprintf("->127.0.0.1:%d#", 5700+i)) && m.Log < spec.AckedLog {
						v := explore.Violation{Sig: ackSig, Msg: fmt.Sprintf("%s: member %d (log position %d) gathered a commit majority although a record at position %d had been acknowledged by the ack quorum (the dead leader and another data member) before the leader died", spec.Name, i, m.Log, spec.AckedLog)}
						if kn := c.IsKnown(v.Sig); kn != nil {
							st.Known[v.Sig]++
						} else {
							reported[v.Sig] = true
							st.Violations++
							c.ReportViolation(Replay{Scenario: "votes/" + spec.Name, Input: map[string]interface{}{"spec": spec, "events": h, "log": r.Obs.Log}, Findings: []explore.Violation{v}, Trace: strings.Join(r.Obs.Log, "; ")})
						}
					}
				}
			}
		}
	}
	root, e := eval([][]hapi.ArbEvent{nil})
	if e != "" {
		return nil, e
	}
	judge(nil, root[0])
	seen := map[string]bool{root[0].Obs.Key: true}
	st.States = 1
	type node struct {
		h   []hapi.ArbEvent
		obs hapi.ArbObs
	}
	frontier := []node{{nil, root[0].Obs}}
	for len(frontier) > 0 {
		var hists [][]hapi.ArbEvent
		for _, n := range frontier {
			for _, m := range n.obs.Pending {
				if strings.HasPrefix(m, "restart:") {
					hists = append(hists, append(append([]hapi.ArbEvent{}, n.h...), hapi.ArbEvent{Msg: m, Fate: "restart"}))
					continue
				}
				fates := []string{"deliver"}
				if n.obs.Losses < spec.MaxLoss {
					fates = append(fates, "lose", "deliver-lose-reply")
				}
				for _, f := range fates {
					hists = append(hists, append(append([]hapi.ArbEvent{}, n.h...), hapi.ArbEvent{Msg: m, Fate: f}))
				}
			}
		}
		if len(hists) == 0 {
			break
		}
		res, e := eval(hists)
		if e != "" {
			return nil, e
		}
		var next []node
		for i, r := range res {
			st.Transitions++
			judge(hists[i], r)
			if !seen[r.Obs.Key] {
				seen[r.Obs.Key] = true
				st.States++
				next = append(next, node{hists[i], r.Obs})
				if len(r.Obs.Pending) == 0 && len(st.Sample) < 2 {
					st.Sample = append(st.Sample, strings.Join(r.Obs.Log, "; "))
				}
			}
		}
		st.PerDepth = append(st.PerDepth, len(next))
		frontier = next
		if st.States > maxStates {
			st.Capped = len(frontier) > 0
			break
		}
	}
	return st, ""
}
