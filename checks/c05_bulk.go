package checks

import (
	"encoding/json"
	"fmt"

	"verif/explore"
	"verif/hapi"
	"verif/vrt"
)

// One deadline second with very many waiters: N requests queue on one held key with the same long timeout, migrate
// to the long-wait table of their deadline, most of them are cancelled (the table is compacted in place once a
// third of its slots are free), the rest are cancelled too (the table goes back to the pool), and a second wave of N
// waiters takes a recycled table. Every request must be answered exactly once (cancelled: UNLOCK_ERROR, the second
// wave: TIMEOUT at its deadline) and nothing may be left behind.
type c05BulkArg struct {
	N      int `json:"n"`
	Cancel int `json:"c"` // how many of the first wave are cancelled before the rest
}

func c05BulkCases(quick bool) []EnumCase {
	var out []EnumCase
	ns := [][2]int{{1800, 1100}, {300, 260}}
	if !quick {
		ns = append(ns, [2]int{1800, 1700}, [2]int{1000, 700}, [2]int{4000, 3500}, [2]int{600, 590})
	}
	for _, n := range ns {
		out = append(out, mkCase(fmt.Sprintf("bulk-long-waits/%d-waiters-%d-cancelled-first", n[0], n[1]), c05BulkArg{n[0], n[1]}))
	}
	return out
}

func evalC05Bulk(c *Ctx, cs EnumCase) EnumResult {
	var a c05BulkArg
	if err := json.Unmarshal(cs.Arg, &a); err != nil {
		return EnumResult{Err: err.Error()}
	}
	var vs []explore.Violation
	name := fmt.Sprintf("%d waiters on one deadline second, %d cancelled first, then the rest, then a second wave", a.N, a.Cancel)
	add := func(sig, msg string) {
		vs = append(vs, explore.Violation{Sig: "C05:" + sig + "/bulk-long-waits", Msg: name + ": " + msg})
	}
	var engErr, obs string
	rt := vrt.Run(vrt.Options{MaxPoints: 2_000_000_000}, func() {
		node := hapi.Factories["n0"](hapi.Config{FastKeys: 1, Concurrent: 1})
		if err := node.StartEngine(); err != nil {
			engErr = err.Error()
			return
		}
		vrt.AdvanceTo(1300 * ms)
		cl := node.NewMemClient("a")
		reqn := 0
		send := func(cmd hapi.Cmd, id int) int {
			reqn++
			b := cmd.Build()
			b.RequestId[0], b.RequestId[1], b.RequestId[2] = byte(reqn), byte(reqn>>8), byte(reqn>>16)
			b.LockId[15], b.LockId[14] = byte(id), byte(id>>8)
			cl.Do(b)
			return reqn
		}
		send(hapi.Cmd{Type: 1, Key: 1, Expried: 0xffff, ExpriedFlag: fUnlim}, 1)
		vrt.Quiesce()
		answers := map[int][]uint8{}
		collect := func() {
			for _, e := range node.Events() {
				r := int(e.ReqFull[0]) | int(e.ReqFull[1])<<8 | int(e.ReqFull[2])<<16
				answers[r] = append(answers[r], e.Result)
			}
			node.ClearEvents()
		}
		wave := func(base int) (reqs []int, t0 int64) {
			t0 = vrt.Elapsed()
			for i := 0; i < a.N; i++ {
				reqs = append(reqs, send(hapi.Cmd{Type: 1, Key: 1, Timeout: 100, Expried: 5}, base+i))
			}
			vrt.Quiesce()
			return
		}
		w1, _ := wave(10)
		vrt.AdvanceTo(vrt.Elapsed() + 60*sec) // by now they sit in the long-wait table of their deadline
		for i := 0; i < a.N; i++ {
			if i == a.Cancel {
				vrt.AdvanceTo(vrt.Elapsed() + 2*sec)
			}
			send(hapi.Cmd{Type: 2, Key: 1, Flag: 0x02}, 10+i)
		}
		vrt.AdvanceTo(vrt.Elapsed() + 5*sec)
		collect()
		for _, r := range w1 {
			if len(answers[r]) != 1 || answers[r][0] != 6 {
				add("not-answered-once", fmt.Sprintf("a cancelled request of the first wave was answered %v (want one UNLOCK_ERROR)", answers[r]))
				break
			}
		}
		w2, t2 := wave(10000)
		vrt.AdvanceTo(t2 + 104*sec)
		collect()
		for _, r := range w2 {
			if len(answers[r]) != 1 || answers[r][0] != 8 {
				add("not-answered-once", fmt.Sprintf("a request of the second wave was answered %v within 104 s of a 100 s wait (want one TIMEOUT)", answers[r]))
				break
			}
		}
		for _, d := range node.Snapshot().DBs {
			if d.WaitCount != 0 || d.CensusWait != 0 || d.Misfiled > 0 {
				add("left-behind", fmt.Sprintf("db%d WaitCount=%d, %d live queued requests, timer tables: %s", d.DB, d.WaitCount, d.CensusWait, d.MisfiledDetail))
			}
		}
		obs = fmt.Sprintf("%d requests", reqn)
	})
	if engErr != "" {
		return EnumResult{Err: engErr}
	}
	if rt.Crash != nil {
		add("crash", rt.Crash.Value+"\n"+firstLines(rt.Crash.Stack, 12))
	}
	if rt.Diverged {
		return EnumResult{Err: name + ": point budget exceeded"}
	}
	return EnumResult{Viol: dedupe(vs), Obs: obs, Nontrivial: true}
}
