package checks

import (
	"fmt"

	"verif/hapi"
	"verif/vrt"
)

// Cluster is a set of node copies (n0, n1, n2) in one runtime: own globals, own data directories, one
// virtual clock, one in-memory network.
type Cluster struct {
	Nodes []hapi.Node
	Addrs []string
	Cfgs  []hapi.Config
}

func nodeAddr(i int) string { return fmt.Sprintf("127.0.0.1:%d", 5658+i) }

// StartLeaderFollowers starts n0 as leader and followers n1.. slaved to it, then waits until they synced.
func StartLeaderFollowers(followers int, mod func(i int, c *hapi.Config)) (*Cluster, error) {
	cl := &Cluster{}
	for i := 0; i <= followers; i++ {
		cfg := hapi.Config{Name: fmt.Sprintf("n%d", i), Port: uint(5658 + i), FastKeys: 4, Concurrent: 1}
		if i > 0 {
			cfg.SlaveOf = nodeAddr(0)
		}
		if mod != nil {
			mod(i, &cfg)
		}
		n := hapi.Factories[cfg.Name](cfg)
		if err := n.Start(); err != nil {
			return nil, fmt.Errorf("start %s: %v", cfg.Name, err)
		}
		cl.Nodes = append(cl.Nodes, n)
		cl.Addrs = append(cl.Addrs, nodeAddr(i))
		cl.Cfgs = append(cl.Cfgs, cfg)
		if i == 0 {
			vrt.AdvanceTo(vrt.Elapsed() + 1300*ms)
		}
	}
	vrt.AdvanceTo(vrt.Elapsed() + 2*sec)
	for i := 1; i <= followers; i++ {
		if s := cl.Nodes[i].StateName(); s != "follower" {
			return nil, fmt.Errorf("follower n%d is in state %q after 2 s (%v)", i, s, cl.Nodes[i].Poke("repl"))
		}
	}
	return cl, nil
}
