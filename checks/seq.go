package checks

import (
	"crypto/sha256"
	"encoding/hex"
	"encoding/json"
	"fmt"
	"sort"
	"strings"

	"verif/explore"
	"verif/hapi"
	"verif/vrt"
	"verif/vrt/vos"
	"verif/wire"
)

// SeqOp is one step of a sequential history: a request by a client, or a clock advance.
type SeqOp struct {
	Cmd    *hapi.Cmd `json:"cmd,omitempty"`
	Client int       `json:"client,omitempty"` // 0 = "a", 1 = "b", ...
	Tick   int64     `json:"tick,omitempty"`   // advance virtual time by this many ns
}

func (o SeqOp) String() string {
	if o.Cmd == nil {
		return fmt.Sprintf("TICK %dms", o.Tick/ms)
	}
	return clientName(o.Client) + ":" + o.Cmd.String()
}

// SeqSpec describes an explicit-state search over operation histories on an engine-only node.
type SeqSpec struct {
	Name      string
	Cfg       hapi.Config
	Clients   int
	Ramp      []SeqOp // executed before every history (builds a non-initial state), not explored
	Alphabet  []SeqOp
	Depth     int
	Drain     bool  // extend every state by unlock-all + clock advance and require a clean engine
	DrainFor  int64 // how long to advance in the drain (default 40s)
	NoDedupe  bool  // pure tree (cross-check of the canonical key)
	Restart   bool  // after every history: flush the persistence queue, kill the node, start a new one on the same directory
	Full      bool  // full node (listener, Serve) instead of engine only
	Text      bool  // with Full: the clients speak the text protocol (LOCK / UNLOCK lines); only for alphabets whose requests are answered at once
	MaxStates int
	MonC01    bool // install the C01 grant-rule monitor (checked at every release of a shard mutex)
	Restart2  bool // with Restart: in the second incarnation every restored hold is unlocked, then the node is stopped and started a third time
}

// SeqStep is what one step produced.
type SeqStep struct {
	Op     SeqOp
	Events []hapi.Event
	Snap   *hapi.Snapshot
	T      int64
}

// SeqRun is one executed history.
type RestartObs struct {
	Before    *hapi.Snapshot // just before the stop (persistence queue drained)
	After     *hapi.Snapshot // after the new node has loaded
	Released  []string       // Restart2: "db/key/id" of the holds whose unlock was accepted in the second incarnation
	After2    *hapi.Snapshot // Restart2: after the third start
	Start2Err string
	StartErr  string
	Files     []string
}

type SeqRun struct {
	Restart *RestartObs
	Spec    *SeqSpec
	Ramp    []SeqStep
	Steps   []SeqStep
	Drained *hapi.Snapshot
	DrainEv []hapi.Event
	Monitor []explore.Violation
	RT      *vrt.RT
}

type SeqOracle func(r *SeqRun) []explore.Violation

// SeqResult is what a worker returns for one history.
type SeqResult struct {
	Key   string              `json:"k"`
	Obs   string              `json:"o"` // observation of the last step
	Viol  []explore.Violation `json:"v,omitempty"`
	Known []string            `json:"kn,omitempty"`
	Err   string              `json:"e,omitempty"`
	Pts   int64               `json:"p"`
}

// assignReq gives every command of ramp+history a unique RequestId byte.
func assignReq(ramp, hist []SeqOp) ([]SeqOp, []SeqOp) {
	n := byte(0)
	fix := func(ops []SeqOp) []SeqOp {
		out := make([]SeqOp, len(ops))
		for i, o := range ops {
			out[i] = o
			if o.Cmd != nil {
				c := *o.Cmd
				n++
				c.Req = n
				out[i].Cmd = &c
			}
		}
		return out
	}
	return fix(ramp), fix(hist)
}

// ExecSeq replays ramp + history on a fresh engine under the default schedule.
func ExecSeq(spec *SeqSpec, hist []SeqOp) (*SeqRun, string) {
	run := &SeqRun{Spec: spec}
	ramp, hist := assignReq(spec.Ramp, hist)
	var engErr string
	rt := vrt.Run(vrt.Options{MaxPoints: 200_000_000}, func() {
		node := hapi.Factories["n0"](spec.Cfg)
		nc := spec.Clients
		if nc == 0 {
			nc = 2
		}
		clients := make([]hapi.Client, nc)
		var conns []*wire.Conn
		if spec.Full {
			// full node: real listener and one real binary connection per client (the server's own
			// per-connection protocol objects, command pools and reply buffers are in the loop)
			if spec.Restart {
				engErr = "Full and Restart are not combined"
				return
			}
			if err := node.Start(); err != nil {
				engErr = "Start: " + err.Error()
				return
			}
			vrt.AdvanceTo(1300 * ms)
			for i := 0; i < nc; i++ {
				cn, err := wire.Dial(nodeAddr(0))
				if err != nil {
					engErr = "dial: " + err.Error()
					return
				}
				conns = append(conns, cn)
			}
			vrt.Quiesce()
		} else {
			if err := node.StartEngine(); err != nil {
				engErr = "StartEngine: " + err.Error()
				return
			}
			for i := range clients {
				clients[i] = node.NewMemClient(clientName(i))
			}
		}
		var wireEvents []hapi.Event
		collect := func() {
			if spec.Text {
				return
			}
			for i, cn := range conns {
				cn.Pump()
				for _, r := range cn.TakeBin() {
					ev := hapi.Event{Seq: len(wireEvents), T: vrt.Elapsed(), Client: clientName(i), Cmd: r.Type, Req: r.Req[0], ReqFull: r.Req, Result: r.Result}
					if r.Lock != nil {
						ev.LCount, ev.LRCount, ev.DB, ev.Key, ev.LockId = r.Lock.Lcount, r.Lock.Lrcount, r.Lock.DbId, r.Lock.LockKey, r.Lock.LockId
					}
					if r.Data != nil {
						ev.Data = r.Data
					}
					wireEvents = append(wireEvents, ev)
				}
			}
		}
		do := func(i int, cmd hapi.Cmd) {
			if spec.Full && spec.Text {
				_ = conns[i].Send(textLine(cmd))
				for _, r := range conns[i].TakeText() {
					wireEvents = append(wireEvents, textEvent(clientName(i), cmd, r, len(wireEvents)))
				}
				return
			}
			if spec.Full {
				_ = conns[i].Send(wire.BinFrame(cmd))
				return
			}
			clients[i].Do(cmd.Build())
			vrt.Quiesce()
		}
		events := func() []hapi.Event {
			if spec.Full {
				collect()
				return wireEvents
			}
			return node.Events()
		}
		clearEvents := func() {
			if spec.Full {
				collect()
				wireEvents = nil
				return
			}
			node.ClearEvents()
		}
		if spec.MonC01 {
			er := &EngRun{}
			MonitorC01(node, er)
			defer func() { run.Monitor = er.Monitor }()
		}
		vrt.AdvanceTo(1300 * ms)
		step := func(o SeqOp, snap bool) SeqStep {
			clearEvents()
			if o.Cmd != nil {
				do(o.Client, *o.Cmd)
			} else {
				vrt.AdvanceTo(vrt.Elapsed() + o.Tick)
			}
			st := SeqStep{Op: o, Events: append([]hapi.Event{}, events()...), T: vrt.Elapsed()}
			if snap {
				st.Snap = node.Snapshot()
			}
			return st
		}
		for _, o := range ramp {
			run.Ramp = append(run.Ramp, step(o, false))
		}
		if len(ramp) > 0 {
			run.Ramp[len(ramp)-1].Snap = node.Snapshot()
		}
		for _, o := range hist {
			run.Steps = append(run.Steps, step(o, true))
		}
		if len(hist) == 0 {
			run.Steps = append(run.Steps, SeqStep{Op: SeqOp{Tick: 0}, Snap: node.Snapshot(), T: vrt.Elapsed()})
		}
		if spec.Restart {
			ro := &RestartObs{}
			run.Restart = ro
			vrt.AdvanceTo(vrt.Elapsed() + 250*ms) // the 200 ms channel timer flushes and syncs the file
			node.Poke("flushaof")
			vrt.Quiesce()
			ro.Before = node.Snapshot()
			vrt.KillGroup(spec.Cfg.WithDefaults().Name)
			ro.Files = vos.Cur().Files("/")
			n2 := hapi.Factories["n0"](spec.Cfg)
			if err := n2.StartEngine(); err != nil {
				ro.StartErr = err.Error()
				return
			}
			vrt.AdvanceTo(vrt.Elapsed() + 100*ms)
			ro.After = n2.Snapshot()
			if spec.Restart2 {
				n2.ClearEvents()
				c2 := n2.NewMemClient("z")
				r := byte(100)
				for _, k := range ro.After.Keys {
					for _, h := range k.Holds {
						u := hapi.Cmd{Type: 2, Req: r, DB: k.DB, Key: k.Key[15], Id: h.LockId[15]}
						c2.Do(u.Build())
						vrt.Quiesce()
						for _, e := range n2.Events() {
							if e.Req == r && e.Result == 0 {
								ro.Released = append(ro.Released, fmt.Sprintf("db%d key%x id%x", k.DB, k.Key[15], h.LockId[15]))
							}
						}
						r++
					}
				}
				vrt.AdvanceTo(vrt.Elapsed() + 1500*ms)
				n2.Poke("flushaof")
				vrt.Quiesce()
				vrt.KillGroup(spec.Cfg.WithDefaults().Name)
				n3 := hapi.Factories["n0"](spec.Cfg)
				if err := n3.StartEngine(); err != nil {
					ro.Start2Err = err.Error()
					return
				}
				vrt.AdvanceTo(vrt.Elapsed() + 100*ms)
				ro.After2 = n3.Snapshot()
			}
			return
		}
		if spec.Drain {
			clearEvents()
			last := run.Steps[len(run.Steps)-1].Snap
			r := byte(200)
			for _, k := range last.Keys {
				for _, h := range k.Holds {
					u := hapi.Cmd{Type: 2, Req: r, DB: k.DB, Key: k.Key[15], Id: h.LockId[15]}
					r++
					do(0, u)
				}
			}
			d := spec.DrainFor
			if d == 0 {
				d = 40 * sec
			}
			vrt.AdvanceTo(vrt.Elapsed() + d)
			run.Drained = node.Snapshot()
			run.DrainEv = append([]hapi.Event{}, events()...)
		}
	})
	run.RT = rt
	if engErr == "" && rt.Diverged {
		engErr = "point budget exceeded"
	}
	return run, engErr
}

func canonNoReq(s *hapi.Snapshot) string {
	// request ids are echoed only; states that differ in them have the same futures up to renaming
	c := *s
	c.Keys = append([]hapi.KeyState{}, s.Keys...)
	for i := range c.Keys {
		k := c.Keys[i]
		k.Holds = append([]hapi.Hold{}, k.Holds...)
		for j := range k.Holds {
			k.Holds[j].Req = [16]byte{}
		}
		k.Waiters = append([]hapi.Waiter{}, k.Waiters...)
		for j := range k.Waiters {
			k.Waiters[j].Req = [16]byte{}
		}
		c.Keys[i] = k
	}
	return c.Canon()
}

func shortHash(s string) string {
	h := sha256.Sum256([]byte(s))
	return hex.EncodeToString(h[:12])
}

func evStr(es []hapi.Event) string {
	var parts []string
	for _, e := range es {
		parts = append(parts, fmt.Sprintf("%s:r%d=%s lc%d lrc%d id%x d%x", e.Client, e.Req, hapi.ResultName(e.Result), e.LCount, e.LRCount, e.LockId[15], e.Data))
	}
	return strings.Join(parts, " ")
}

// SeqWorker evaluates one history (JSON list of ops).
func SeqWorker(spec *SeqSpec, oracles []SeqOracle, c *Ctx, task []byte) interface{} {
	var hist []SeqOp
	if err := json.Unmarshal(task, &hist); err != nil {
		return SeqResult{Err: "bad task: " + err.Error()}
	}
	run, err := ExecSeq(spec, hist)
	if err != "" {
		return SeqResult{Err: err}
	}
	res := SeqResult{Pts: run.RT.Points}
	var vs []explore.Violation
	if run.RT.Crash != nil {
		vs = append(vs, explore.Violation{Sig: "crash", Msg: "panic in " + run.RT.Crash.Thread + ": " + run.RT.Crash.Value + "\n" + firstLines(run.RT.Crash.Stack, 24)})
	} else if run.RT.Deadlock != "" {
		vs = append(vs, explore.Violation{Sig: "deadlock", Msg: run.RT.Deadlock})
	} else {
		last := run.Steps[len(run.Steps)-1]
		res.Key = shortHash(canonNoReq(last.Snap))
		res.Obs = evStr(last.Events)
		vs = append(vs, run.Monitor...)
		for _, o := range oracles {
			vs = append(vs, o(run)...)
		}
	}
	if c != nil {
		res.Viol, res.Known = c.SplitKnown(vs)
	} else {
		res.Viol = vs
	}
	return res
}

// SeqStats summarises one explicit-state search.
type SeqStats struct {
	States      int
	Transitions int
	Depth       int
	PerDepth    []int
	Violations  int
	KnownHits   map[string]int
	CutByKnown  int
	ObsDistinct map[string]bool
	Samples     []string
	CapHit      bool
	Points      int64
	EngineErr   string
}

// SeqMaster runs the breadth-first search with a pool of worker processes.
func SeqMaster(c *Ctx, spec *SeqSpec, report func(Replay)) *SeqStats {
	st := &SeqStats{KnownHits: map[string]int{}, ObsDistinct: map[string]bool{}}
	pool, err := c.NewPool(spec.Name, c.NProc)
	if err != nil {
		st.EngineErr = err.Error()
		return st
	}
	defer pool.Close()
	seen := map[string]bool{}
	frontier := [][]SeqOp{{}}
	// root
	root, err := pool.Map([][]byte{[]byte("[]")})
	if err != nil {
		st.EngineErr = err.Error()
		return st
	}
	var rr SeqResult
	_ = json.Unmarshal(root[0], &rr)
	if rr.Err != "" {
		st.EngineErr = spec.Name + ": " + rr.Err
		return st
	}
	seen[rr.Key] = true
	st.States = 1
	if len(rr.Viol) > 0 {
		st.Violations++
		report(Replay{Scenario: spec.Name, Input: map[string]interface{}{"history": []SeqOp{}}, Findings: rr.Viol, Trace: rr.Obs})
	}
	reported := map[string]bool{}
	for depth := 1; depth <= spec.Depth; depth++ {
		var tasks [][]byte
		var hs [][]SeqOp
		for _, h := range frontier {
			for _, op := range spec.Alphabet {
				nh := append(append([]SeqOp{}, h...), op)
				b, _ := json.Marshal(nh)
				tasks = append(tasks, b)
				hs = append(hs, nh)
			}
		}
		outs, err := pool.Map(tasks)
		if err != nil {
			st.EngineErr = err.Error()
			return st
		}
		var next [][]SeqOp
		newStates := 0
		for i, o := range outs {
			var r SeqResult
			if err := json.Unmarshal(o, &r); err != nil {
				st.EngineErr = "bad worker output: " + err.Error()
				return st
			}
			if r.Err != "" {
				st.EngineErr = fmt.Sprintf("%s: history %v: %s", spec.Name, hs[i], r.Err)
				return st
			}
			st.Transitions++
			st.Points += r.Pts
			if r.Obs != "" {
				st.ObsDistinct[hs[i][len(hs[i])-1].String()+" => "+r.Obs] = true
			}
			if len(r.Known) > 0 {
				st.CutByKnown++
				for _, k := range r.Known {
					st.KnownHits[k]++
				}
				continue
			}
			if len(r.Viol) > 0 {
				sig := ""
				for _, v := range r.Viol {
					sig += v.Sig + ";"
				}
				if !reported[sig] {
					reported[sig] = true
					st.Violations++
					report(Replay{Scenario: spec.Name, Input: map[string]interface{}{"history": histStrings(hs[i]), "ops": hs[i]}, Findings: r.Viol, Trace: r.Obs})
				}
				continue // do not extend a violating history
			}
			if spec.NoDedupe || !seen[r.Key] {
				if !seen[r.Key] {
					seen[r.Key] = true
					st.States++
					newStates++
				}
				next = append(next, hs[i])
				if len(st.Samples) < 3 && depth == spec.Depth {
					st.Samples = append(st.Samples, strings.Join(histStrings(hs[i]), " ; ")+" => "+r.Obs)
				}
			}
		}
		st.Depth = depth
		st.PerDepth = append(st.PerDepth, newStates)
		frontier = next
		if spec.MaxStates > 0 && st.States > spec.MaxStates && depth < spec.Depth {
			st.CapHit = true
			break
		}
		if len(frontier) == 0 {
			break
		}
	}
	return st
}

func histStrings(h []SeqOp) []string {
	var out []string
	for _, o := range h {
		out = append(out, o.String())
	}
	return out
}

// SeqPlan bundles several specs for one property.
type SeqPlan struct {
	Specs   []*SeqSpec
	Oracles []SeqOracle
}

func (p *SeqPlan) find(name string) *SeqSpec {
	for _, s := range p.Specs {
		if s.Name == name {
			return s
		}
	}
	return nil
}

func (p *SeqPlan) Worker(c *Ctx) int {
	spec := p.find(c.Scen)
	if spec == nil {
		return EngineError("unknown scenario %q", c.Scen)
	}
	return ServeWorker(func(task []byte) interface{} { return SeqWorker(spec, p.Oracles, c, task) })
}

type SeqSummary struct {
	Per        map[string]*SeqStats
	States     int
	Trans      int
	Violations int
	KnownHits  map[string]int
	Obs        int
	EngineErr  string
	CapHit     bool
	Samples    []interface{}
}

func (p *SeqPlan) Master(c *Ctx) *SeqSummary {
	sum := &SeqSummary{Per: map[string]*SeqStats{}, KnownHits: map[string]int{}}
	for _, spec := range p.Specs {
		// determinism gate on a fixed history: the first alphabet symbols
		var probe []SeqOp
		for i := 0; i < len(spec.Alphabet) && i < 3; i++ {
			probe = append(probe, spec.Alphabet[i])
		}
		pb, _ := json.Marshal(probe)
		r1, _ := json.Marshal(SeqWorker(spec, p.Oracles, c, pb))
		r2, _ := json.Marshal(SeqWorker(spec, p.Oracles, c, pb))
		if string(r1) != string(r2) {
			sum.EngineErr = fmt.Sprintf("%s: two executions of the same history differ:\n%s\n%s", spec.Name, r1, r2)
			return sum
		}
		st := SeqMaster(c, spec, func(r Replay) { c.ReportViolation(r) })
		sum.Per[spec.Name] = st
		if st.EngineErr != "" {
			sum.EngineErr = st.EngineErr
			return sum
		}
		fmt.Printf("  search %-26s depth=%d alphabet=%d states=%d transitions=%d new-per-depth=%v distinct-observations=%d cut-by-known=%d violations=%d%s\n",
			spec.Name, st.Depth, len(spec.Alphabet), st.States, st.Transitions, st.PerDepth, len(st.ObsDistinct), st.CutByKnown, st.Violations, map[bool]string{true: " (state cap hit)", false: ""}[st.CapHit])
		sum.States += st.States
		sum.Trans += st.Transitions
		sum.Violations += st.Violations
		sum.Obs += len(st.ObsDistinct)
		sum.CapHit = sum.CapHit || st.CapHit
		for k, v := range st.KnownHits {
			sum.KnownHits[k] += v
		}
		for _, s := range st.Samples {
			sum.Samples = append(sum.Samples, map[string]string{"search": spec.Name, "history=>last observation": s})
		}
	}
	c.ReportKnown(sum.KnownHits)
	return sum
}

func (s *SeqSummary) Coverage(plan *SeqPlan, note string) map[string]interface{} {
	per := map[string]interface{}{}
	var names []string
	for n := range s.Per {
		names = append(names, n)
	}
	sort.Strings(names)
	for _, n := range names {
		st := s.Per[n]
		sp := plan.find(n)
		var alpha []string
		for _, o := range sp.Alphabet {
			alpha = append(alpha, o.String())
		}
		per[n] = map[string]interface{}{"depth": st.Depth, "states": st.States, "transitions": st.Transitions, "new_states_per_depth": st.PerDepth,
			"distinct_observations": len(st.ObsDistinct), "alphabet": alpha, "ramp_ops": len(sp.Ramp), "cut_by_known_finding": st.CutByKnown, "state_cap_hit": st.CapHit}
	}
	if len(s.Samples) == 0 {
		s.Samples = append(s.Samples, "no history reached the final depth")
	}
	return map[string]interface{}{
		"states":                        s.States,
		"transitions":                   s.Trans,
		"traces_validated_against_impl": s.Trans,
		"samples":                       s.Samples,
		"searches":                      per,
		"distinct_observations":         s.Obs,
		"exhaustive":                    !s.CapHit,
		"explanation":                   note,
	}
}

// textLine renders a lock / unlock command as the text-protocol line with the same field values (COUNT and
// RCOUNT are one more than the binary fields; TIMEOUT / EXPRIED carry the flag word in their upper 16 bits).
func textLine(c hapi.Cmd) []byte {
	raw := func(b byte) string { k := make([]byte, 16); k[15] = b; return string(k) }
	name := "LOCK"
	if c.Type == 2 {
		name = "UNLOCK"
	}
	args := []string{name, raw(c.Key), "LOCK_ID", raw(c.Id)}
	if c.Flag != 0 {
		args = append(args, "FLAG", fmt.Sprint(c.Flag))
	}
	args = append(args, "TIMEOUT", fmt.Sprint(uint32(c.TimeoutFlag)<<16|uint32(c.Timeout)), "EXPRIED", fmt.Sprint(uint32(c.ExpriedFlag)<<16|uint32(c.Expried)))
	if c.Count != 0 { // a zero field is the default: left out, as a client would (the converter must not remember an earlier command's)
		args = append(args, "COUNT", fmt.Sprint(uint32(c.Count)+1))
	}
	if c.Rcount != 0 {
		args = append(args, "RCOUNT", fmt.Sprint(uint32(c.Rcount)+1))
	}
	return wire.Resp(args...)
}

// textEvent turns the text reply to cmd into the event the binary reply would be.
func textEvent(client string, c hapi.Cmd, reply string, seq int) hapi.Event {
	ev := hapi.Event{Seq: seq, T: vrt.Elapsed(), Client: client, Cmd: c.Type, Req: c.Req, Result: 0xfe}
	ev.Key[15], ev.LockId[15] = c.Key, c.Id
	f := strings.Fields(strings.Trim(reply, "*[]"))
	num := func(s string) int {
		n := 0
		fmt.Sscan(strings.TrimLeft(s, "$:"), &n)
		return n
	}
	if len(f) > 0 {
		ev.Result = uint8(num(f[0]))
	}
	if strings.HasPrefix(reply, "-") {
		ev.Result = 0xfd // an error line
		if strings.Contains(reply, "DB") {
			ev.Result = 3 // "Uknown DB Error": the database has not been touched by a lock yet
		}
	}
	for i := 0; i+1 < len(f); i++ {
		switch f[i] {
		case "$LCOUNT":
			ev.LCount = uint16(num(f[i+1]))
		case "$LRCOUNT":
			ev.LRCount = uint8(num(f[i+1]))
		case "$LOCK_ID":
			if b, err := hex.DecodeString(strings.TrimLeft(f[i+1], "$")); err == nil && len(b) == 16 {
				copy(ev.LockId[:], b)
			}
		}
	}
	return ev
}
