package checks

import (
	"bytes"
	"encoding/json"
	"fmt"
	"strings"

	"github.com/snower/slock/protocol"
	"verif/explore"
	"verif/hapi"
	"verif/vrt"
	"verif/vrt/vnet"
	"verif/vrt/vos"
	"verif/wire"
)

const tfAck = 0x1000

type c11Case struct {
	Followers  int      `json:"f"`
	Mode       uint     `json:"m"`     // 0 all (mixed), 1 majority, 2 all
	Fates      []string `json:"fates"` // per follower: deliver | held | late | cut | negative (the follower cannot apply the record and says so) | disk-error (the follower cannot write the record to its own log)
	Interf     string   `json:"i"`     // none | duplicate | unlock | waiter-behind | demote
	Value      bool     `json:"v"`
	FromQueue  bool     `json:"q"`            // the ack lock is granted from the wait queue
	LeaderDisk string   `json:"ld,omitempty"` // "error": from the request on every write to the LEADER's own data directory is refused
}

func (c c11Case) name() string {
	if c.LeaderDisk != "" {
		return fmt.Sprintf("f%d/mode%d/%s/%s/value=%v/queue=%v/leader-disk-%s", c.Followers, c.Mode, strings.Join(c.Fates, ","), c.Interf, c.Value, c.FromQueue, c.LeaderDisk)
	}
	return fmt.Sprintf("f%d/mode%d/%s/%s/value=%v/queue=%v", c.Followers, c.Mode, strings.Join(c.Fates, ","), c.Interf, c.Value, c.FromQueue)
}

func (c c11Case) required() int {
	if c.Mode == 1 {
		return (c.Followers+1)/2 + 1
	}
	return c.Followers + 1
}

func c11Cases(quick bool) []EnumCase {
	var out []EnumCase
	fates := []string{"deliver", "held", "late", "cut", "negative", "disk-error"}
	var rec func(f int, cur []string, emit func([]string))
	rec = func(f int, cur []string, emit func([]string)) {
		if len(cur) == f {
			emit(append([]string{}, cur...))
			return
		}
		for _, x := range fates {
			rec(f, append(cur, x), emit)
		}
	}
	for f := 0; f <= 2; f++ {
		for _, mode := range []uint{0, 1, 2} {
			if f == 0 && mode != 0 {
				continue
			}
			rec(f, nil, func(fs []string) {
				for _, in := range []string{"none", "duplicate", "unlock", "waiter-behind", "demote", "quit-leader"} {
					for _, val := range []bool{false, true} {
						for _, q := range []bool{false, true} {
							if quick && f == 2 && (val != q) {
								continue
							}
							c := c11Case{f, mode, fs, in, val, q, ""}
							out = append(out, mkCase(c.name(), c))
							allDeliver := true
							for _, x := range fs {
								allDeliver = allDeliver && x == "deliver"
							}
							if in == "none" && allDeliver {
								// the followers acknowledge, the leader's own log write fails
								c.LeaderDisk = "error"
								out = append(out, mkCase(c.name(), c))
								// ... after having taken a second (the followers' acknowledgements arrive meanwhile)
								c.LeaderDisk = "slow-error"
								out = append(out, mkCase(c.name(), c))
							}
						}
					}
				}
			})
		}
	}
	return out
}

func evalC11(c *Ctx, cs EnumCase) EnumResult {
	var k c11Case
	if err := json.Unmarshal(cs.Arg, &k); err != nil {
		return EnumResult{Err: err.Error()}
	}
	var vs []explore.Violation
	add := func(sig, msg string) {
		vs = append(vs, explore.Violation{Sig: "C11:" + sig, Msg: k.name() + ": " + msg})
	}
	var engErr, obs string
	rt := vrt.Run(vrt.Options{MaxPoints: 400_000_000, HB: true}, func() {
		cl, err := StartLeaderFollowers(k.Followers, func(i int, cfg *hapi.Config) { cfg.AckMode = k.Mode })
		if err != nil {
			engErr = err.Error()
			return
		}
		leader := cl.Nodes[0]
		conn, _ := wire.Dial(cl.Addrs[0])
		_ = conn.Send(make64(protocol.COMMAND_PING))
		conn.TakeBin()
		other, _ := wire.Dial(cl.Addrs[0])
		_ = other.Send(make64(protocol.COMMAND_PING))
		other.TakeBin()
		pre := protocol.NewLockCommandDataSetString("before").Data
		newv := protocol.NewLockCommandDataSetString("after").Data
		// key 1 carries a value "before", held by id 9 with Count 1 so that id 1 can hold next to it
		_ = other.Send(wire.BinFrame(withEF(hapi.Cmd{Type: 1, Req: 50, Key: 1, Id: 9, Expried: 600, Count: 1, Data: pre}, efZeroAof)))
		other.TakeBin()
		vrt.AdvanceTo(vrt.Elapsed() + 200*ms)
		for i, f := range k.Fates {
			if f == "negative" {
				// the follower's copy of the key is filled up behind the leader's back (an extra holder next to
				// id 9), so it cannot apply the ack lock's record and acknowledges it negatively
				fc := cl.Nodes[i+1].NewMemClient("x")
				fc.Do(hapi.Cmd{Type: 1, Req: 90, Key: 1, Id: 77, Flag: 0x04, Expried: 600, Count: 5}.Build())
				vrt.Quiesce()
				if fk := cl.Nodes[i+1].Snapshot().Key(0, [16]byte{15: 1}); fk == nil || len(fk.Holds) != 2 {
					engErr = fmt.Sprintf("could not fill the key on follower %d", i+1)
					return
				}
			}
		}
		if k.FromQueue {
			// id 8 fills the key (Count 1 => 2 holders), the ack lock must queue and is granted when id 8 unlocks
			_ = other.Send(wire.BinFrame(withEF(hapi.Cmd{Type: 1, Req: 51, Key: 1, Id: 8, Expried: 600, Count: 1}, efZeroAof)))
		}
		other.TakeBin()
		vrt.AdvanceTo(vrt.Elapsed() + 500*ms)
		// follower fates: acks travel follower -> leader on the replication link (the follower dialed it)
		repl := map[int]*vnet.Link{}
		for _, l := range vnet.Links() {
			for i := 1; i <= k.Followers; i++ {
				if l.DialGroup == fmt.Sprintf("n%d", i) && l.ListenAddr == nodeAddr(0) && !l.AtoB.Hold {
					repl[i] = l // the last link of the node is its live replication link
				}
			}
		}
		for i, f := range k.Fates {
			l := repl[i+1]
			if l == nil {
				engErr = fmt.Sprintf("no replication link for follower %d", i+1)
				return
			}
			if f != "deliver" {
				l.AtoB.Hold = true // "negative" / "disk-error": the refusal travels like a late acknowledgement
			}
		}
		// followers whose disk fails from now on: every write to their data directory is refused
		badDisk := map[string]bool{}
		for i, f := range k.Fates {
			if f == "disk-error" {
				badDisk[fmt.Sprintf("/n%d/", i+1)] = true
			}
		}
		if k.LeaderDisk != "" {
			badDisk["/n0/"] = true
		}
		if len(badDisk) > 0 {
			vos.Cur().ShortWrite = func(p vos.FSPoint, n int) int {
				if k.LeaderDisk == "slow-error" && strings.Contains(p.Path, "/n0/") {
					vrt.Sleep(1000 * ms)
				}
				for d := range badDisk {
					if strings.Contains(p.Path, d) {
						return 0
					}
				}
				return n
			}
		}
		t0 := vrt.Elapsed()
		lock := hapi.Cmd{Type: 1, Req: 1, Key: 1, Id: 1, Timeout: 3, TimeoutFlag: tfAck, Expried: 60, Count: 1}
		if k.Value {
			lock.Data = newv
		}
		_ = conn.Send(wire.BinFrame(lock))
		if k.FromQueue {
			vrt.AdvanceTo(t0 + 100*ms)
			_ = other.Send(wire.BinFrame(hapi.Cmd{Type: 2, Req: 52, Key: 1, Id: 8}))
		}
		vrt.AdvanceTo(t0 + 200*ms)
		for i, f := range k.Fates {
			if f == "cut" {
				repl[i+1].Break()
			}
		}
		var dupReply, unlReply []wire.BinReply
		switch k.Interf {
		case "duplicate":
			_ = other.Send(wire.BinFrame(hapi.Cmd{Type: 1, Req: 60, Key: 1, Id: 1, Timeout: 0, Expried: 60, Count: 1, Rcount: 5}))
			dupReply = pick(other.TakeBin(), 60)
		case "unlock":
			_ = other.Send(wire.BinFrame(hapi.Cmd{Type: 2, Req: 61, Key: 1, Id: 1}))
			unlReply = pick(other.TakeBin(), 61)
		case "waiter-behind":
			_ = other.Send(wire.BinFrame(hapi.Cmd{Type: 1, Req: 62, Key: 1, Id: 7, Timeout: 20, Expried: 60, Count: 1}))
		}
		vrt.AdvanceTo(t0 + 500*ms)
		if k.Interf == "demote" {
			leader.Poke("demote", "")
		}
		if k.Interf == "quit-leader" {
			leader.Poke("quitleader")
		}
		vrt.AdvanceTo(t0 + 1500*ms)
		for i, f := range k.Fates {
			if f == "late" || f == "negative" || f == "disk-error" {
				repl[i+1].AtoB.Hold = false
			}
		}
		vrt.AdvanceTo(t0 + 9*sec)
		conn.Pump()
		other.Pump()
		mine := pick(conn.TakeBin(), 1)
		rest := other.TakeBin()
		snap := leader.Snapshot()
		var k1 [16]byte
		k1[15] = 1
		ks := snap.Key(0, k1)
		holds := ""
		var value []byte
		hasHold := false
		if ks != nil {
			holds = holdsStr(*ks)
			value = valuePayload(ks.Value)
			for _, h := range ks.Holds {
				if h.LockId[15] == 1 {
					hasHold = true
				}
			}
		}
		obs = fmt.Sprintf("requester %s; others %s; key1 %s value %q", binStr(mine), binStr(rest), holds, value)
		for i := 1; i <= k.Followers; i++ {
			if fk := cl.Nodes[i].Snapshot().Key(0, k1); fk != nil {
				obs += fmt.Sprintf("; follower %d key1 %s", i, holdsStr(*fk))
			}
		}

		// ---- oracle
		acks := 1 // the leader's own log write
		lateNeeded := false
		for _, f := range k.Fates {
			if f == "deliver" || f == "late" {
				acks++
			}
			if f == "late" {
				lateNeeded = true
			}
		}
		early := 1 // acknowledgements that arrive at once (log write + followers whose acks are delivered)
		for _, f := range k.Fates {
			if f == "deliver" {
				early++
			}
		}
		waitingAt200 := early < k.required() // still waiting when the interference happens
		expectOK := acks >= k.required()
		if k.LeaderDisk != "" {
			expectOK = false // the record never reaches the leader's own log
		}
		// a demotion that starts while acknowledgements are outstanding first waits for the followers; if the
		// acknowledgements do arrive the request may still succeed (the record is logged and acknowledged),
		// so both outcomes are accepted there
		either := k.Interf == "demote" && waitingAt200 && expectOK
		for _, f := range k.Fates {
			if (f == "negative" || f == "disk-error") && expectOK {
				either = true // a refusal may fail the request even where the others would make a quorum
			}
		}
		if k.Interf == "quit-leader" && waitingAt200 {
			// the node leaves the leader role first and sweeps its pending acknowledgement waits afterwards:
			// leadership is lost, the requester must get an error whatever arrives later
			expectOK = false
		}
		if len(mine) != 1 {
			add("not-exactly-one-reply", fmt.Sprintf("the ack-required request got %d terminal replies %s", len(mine), binStr(mine)))
			return
		}
		got := mine[0]
		if got.Result == 0 {
			// a success is only legal after the log write and the required acknowledgements
			needed := k.required()
			if k.LeaderDisk != "" {
				// the recorded finding is ONE root cause: the followers' acknowledgements alone fill the counter
				// (majority mode, as many followers as the counter asks for). Where the counter cannot be filled
				// without the leader's own write, a SUCCED means the failed write was counted: another signature.
				sig := "succeeded-without-own-log-write"
				if k.Followers >= needed {
					sig += "/followers-fill-counter"
				}
				add(sig, fmt.Sprintf("reported SUCCED although every write to the leader's own log has failed since the request was made (the %d follower acknowledgements alone filled the counter of %d)", k.Followers, needed))
			} else if !expectOK && !either {
				add("succeeded-without-quorum", fmt.Sprintf("reported SUCCED although only %d of the %d required acknowledgements (log write included) can have arrived", acks, needed))
			} else if lateNeeded && early < needed && got.Lock != nil {
				// the deciding acknowledgement was released at t0+1.5 s: SUCCED must not have been sent before
				if replyTimeBefore(conn, t0+1500*ms) {
					add("succeeded-before-ack", "reported SUCCED before the deciding acknowledgement was delivered")
				}
			}
			if !hasHold && k.Interf != "unlock" {
				add("succeeded-without-hold", "reported SUCCED but LockId 1 holds nothing afterwards: "+holds)
			}
			if k.Value && !bytes.Equal(value, []byte("after")) && hasHold {
				add("value-not-applied", fmt.Sprintf("SUCCED with SET \"after\" but the key carries %q", value))
			}
		} else {
			if expectOK && !either && (k.Interf == "none" || !waitingAt200) {
				add("failed-with-quorum", fmt.Sprintf("answered %s although the log write and %d of %d required acknowledgements arrived", hapi.ResultName(got.Result), acks, k.required()))
			}
			if hasHold {
				add("hold-left-after-failure", fmt.Sprintf("answered %s but LockId 1 still holds the key: %s", hapi.ResultName(got.Result), holds))
			}
			if k.Value && !bytes.Equal(value, []byte("before")) && k.Interf != "demote" && k.Interf != "quit-leader" {
				add("value-not-restored", fmt.Sprintf("answered %s but the key carries %q instead of the value from before the request (\"before\")", hapi.ResultName(got.Result), value))
			}
			if k.Interf == "waiter-behind" {
				if w := pick(rest, 62); len(w) != 1 || w[0].Result != 0 {
					add("queued-request-not-served", fmt.Sprintf("the ack lock failed (%s) but the request queued behind it was answered %s", hapi.ResultName(got.Result), binStr(w)))
				}
			}
		}
		if k.Interf == "duplicate" && waitingAt200 && len(dupReply) == 1 && dupReply[0].Result == 0 {
			add("duplicate-granted-while-waiting", "a second request for the LockId was granted while the first was waiting for acknowledgements")
		}
		if k.Interf == "unlock" && len(unlReply) == 1 && unlReply[0].Result == 0 && got.Result == 0 && hasHold {
			add("unlock-accepted-but-hold-stays", "an unlock during the acknowledgement wait was accepted, yet the hold is still there")
		}
	})
	if engErr != "" {
		return EnumResult{Err: k.name() + ": " + engErr}
	}
	if rt.Crash != nil {
		add("crash", rt.Crash.Value+"\n"+firstLines(rt.Crash.Stack, 14))
	}
	if mr := rt.MapRaceReport(); mr != "" {
		add("crash/concurrent-map-access", "two threads access a map without an ordering between them (the Go runtime kills the process when they meet): "+mr)
	}
	if rt.Deadlock != "" {
		add("deadlock", rt.Deadlock)
	}
	return EnumResult{Viol: dedupe(vs), Obs: obs, Nontrivial: true}
}

func pick(rs []wire.BinReply, req byte) []wire.BinReply {
	var out []wire.BinReply
	for _, r := range rs {
		if r.Req[0] == req && (r.Type == 1 || r.Type == 2) && r.Result != 9 {
			out = append(out, r)
		}
	}
	return out
}

// replyTimeBefore: we cannot timestamp bytes after the fact, so the requester connection is pumped at the
// checkpoints; here we only know whether bytes were already pending before the release instant.
func replyTimeBefore(c *wire.Conn, t int64) bool { return false }

func init() {
	enumCheck("C11", "fault_enumeration",
		func(q bool) []*EnumPlan {
			return []*EnumPlan{{Name: "ack-fates", Cases: c11Cases, Eval: evalC11}, {Name: "sole-holder", Cases: c11SoleCases, Eval: evalC11Sole}, {Name: "established-hold", Cases: c11EstCases, Eval: evalC11Est}}
		}, nil,
		"every combination of: 0..2 followers (real node copies), ack mode all / majority, per-follower acknowledgement fate (delivered, held forever, released 1.5 s later, connection cut with the ack in flight), interference (none, second request for the LockId, unlock during the wait, another request queued behind, leader demotion), with / without a value operation, fresh grant / grant from the wait queue; one execution each on the implementation; oracle: SUCCED only if the log write plus the deliverable acknowledgements reach the configured number and leadership is kept, exactly one terminal reply, on failure no hold is left, the value is the one from before the request and the queued request is served",
		[]string{"message handlers run under the default schedule; acknowledgement delay/loss is injected on the follower->leader direction of the replication link", "the timing of SUCCED relative to a late acknowledgement is checked only through its consequences (no early success when the quorum depends on a held acknowledgement)"})
}
