package checks

import (
	"encoding/json"
	"fmt"
	"strings"

	"verif/explore"
	"verif/hapi"
	"verif/vrt"
	"verif/wire"
)

// Text connections answer strictly in request order and have no RequestId on the wire: a late notice (expiry of
// a hold, result of a fire-and-forget PUSH) that slips into the connection's reply queue is read by the client as
// the answer to its next request. For every sequence over the alphabet the replies of one text connection to a
// full node are checked: exactly one reply per request, a LOCK / UNLOCK reply carries the LOCK_ID of its own
// request, and no reply is an EXPRIED notice.
func c03TextAlphabet() []wStep {
	return []wStep{
		{Text: []string{"LOCK", "k1", "LOCK_ID", "a1", "TIMEOUT", "0", "EXPRIED", "1"}},
		{Text: []string{"LOCK", "k2", "LOCK_ID", "b2", "TIMEOUT", "0", "EXPRIED", "10"}},
		{Text: []string{"LOCK", "k2", "LOCK_ID", "c3", "TIMEOUT", "1", "EXPRIED", "1"}},
		{Text: []string{"UNLOCK", "k2", "LOCK_ID", "b2"}},
		{Text: []string{"UNLOCK", "k1", "LOCK_ID", "a1"}},
		{Text: []string{"SET", "x", "5", "EX", "1"}},
		{Text: []string{"GET", "x"}},
		{Text: []string{"PUSH", "k3", "LOCK_ID", "d4", "TIMEOUT", "0", "EXPRIED", "1"}},
		{Text: []string{"PUSH", "k2", "LOCK_ID", "e5", "TIMEOUT", "5", "EXPRIED", "1"}}, // queues behind b2 and is woken by the connection's own UNLOCK
		{Tick: 3 * sec},
	}
}

type c03TextArg struct {
	Seqs [][]int `json:"s"`
}

func c03TextCases(quick bool) []EnumCase {
	d := 4
	if !quick {
		d = 5
	}
	sq := seqsOf(len(c03TextAlphabet()), d)
	var out []EnumCase
	for f := 0; f < len(sq); f += 100 {
		t := f + 100
		if t > len(sq) {
			t = len(sq)
		}
		out = append(out, mkCase(fmt.Sprintf("text/%d-%d", f, t-1), c03TextArg{sq[f:t]}))
	}
	return out
}

func evalC03Text(c *Ctx, cs EnumCase) EnumResult {
	var a c03TextArg
	if err := json.Unmarshal(cs.Arg, &a); err != nil {
		return EnumResult{Err: err.Error()}
	}
	alpha := c03TextAlphabet()
	res := EnumResult{Nontrivial: true}
	var vs []explore.Violation
	distinct := map[string]bool{}
	for _, sq := range a.Seqs {
		var steps []wStep
		var names []string
		for _, i := range sq {
			steps = append(steps, alpha[i])
			names = append(names, alpha[i].String())
		}
		res.Sub++
		var engErr string
		var got []string
		rt := vrt.Run(vrt.Options{MaxPoints: 100_000_000}, func() {
			node := hapi.Factories["n0"](hapi.Config{FastKeys: 4, Concurrent: 1})
			if err := node.Start(); err != nil {
				engErr = err.Error()
				return
			}
			vrt.AdvanceTo(1300 * ms)
			conn, err := wire.Dial(nodeAddr(0))
			if err != nil {
				engErr = err.Error()
				return
			}
			for _, st := range steps {
				if st.Text == nil {
					vrt.AdvanceTo(vrt.Elapsed() + st.Tick)
					conn.Pump()
					if extra := conn.TakeText(); len(extra) > 0 {
						got = append(got, "unsolicited:"+strings.Join(extra, "|"))
					}
					continue
				}
				_ = conn.Send(wire.Resp(st.Text...))
				r := conn.TakeText()
				for w := 0; len(r) == 0 && w < 30; w++ {
					vrt.AdvanceTo(vrt.Elapsed() + 100*ms)
					conn.Pump()
					r = conn.TakeText()
				}
				got = append(got, strings.Join(r, "|"))
			}
		})
		if engErr != "" {
			return EnumResult{Err: engErr}
		}
		if rt.Crash != nil {
			vs = append(vs, explore.Violation{Sig: "C03:text-crash", Msg: fmt.Sprintf("sequence %v: %s", names, rt.Crash.Value)})
			continue
		}
		distinct[strings.Join(got, ";")] = true
		gi := 0
		for _, st := range steps {
			if st.Text == nil {
				if gi < len(got) && strings.HasPrefix(got[gi], "unsolicited:") {
					vs = append(vs, explore.Violation{Sig: "C03:text-unsolicited-reply", Msg: fmt.Sprintf("sequence %v: the connection received %q although no request was outstanding", names, got[gi])})
					gi++
				}
				continue
			}
			if gi >= len(got) {
				break
			}
			r := got[gi]
			gi++
			cmd := strings.ToUpper(st.Text[0])
			bad := ""
			switch {
			case r == "":
				bad = "was not answered within 3 s"
			case strings.Contains(r, "|"):
				bad = fmt.Sprintf("drew more than one reply: %q", r)
			case strings.Contains(r, "EXPRIED"):
				bad = fmt.Sprintf("was answered with an expiry notice: %q", r)
			case (cmd == "LOCK" || cmd == "UNLOCK") && strings.Contains(r, "LOCK_ID") && !strings.Contains(r, fmt.Sprintf("%x", normKey(st.Text[3]))):
				bad = fmt.Sprintf("was answered with the result of another request (LOCK_ID differs): %q", r)
			}
			if bad != "" {
				vs = append(vs, explore.Violation{Sig: "C03:text-reply-of-another-request", Msg: fmt.Sprintf("sequence %v: request %v %s (all replies %v)", names, st.Text, bad, got)})
				break
			}
		}
		res.Obs = fmt.Sprintf("%v => %v", names, got)
	}
	res.Viol = dedupe(vs)
	res.SubNT = len(distinct)
	return res
}
