package checks

import (
	"encoding/json"
	"fmt"

	"github.com/snower/slock/protocol"
	"verif/explore"
	"verif/hapi"
	"verif/vrt"
)

// Acknowledgement-required requests that do not create a hold of their own: a re-entrant lock and an update of
// an established (already acknowledged) hold, and a lock with expiry 0 (the form plain value writes use). One
// engine-only leader; either its own log write is the only acknowledgement needed, or every database needs one
// follower acknowledgement that never comes (harness poke "missingacks" after the hold is established).
type c11EstCase struct {
	Kind    string `json:"k"` // relock | update | zero-expiry
	Missing bool   `json:"m"` // follower acknowledgements never come
	Value   bool   `json:"v"`
	Then    string `json:"t"` // what the owner does next: nothing | unlock
}

func (c c11EstCase) name() string {
	return fmt.Sprintf("%s/acks-missing=%v/value=%v/then-%s", c.Kind, c.Missing, c.Value, c.Then)
}

func c11EstCases(quick bool) []EnumCase {
	var out []EnumCase
	for _, k := range []string{"relock", "update", "zero-expiry", "beside-never-logged-holder"} {
		for _, m := range []bool{false, true} {
			for _, v := range []bool{false, true} {
				for _, t := range []string{"nothing", "unlock"} {
					c := c11EstCase{k, m, v, t}
					out = append(out, mkCase(c.name(), c))
				}
			}
		}
	}
	return out
}

func evalC11Est(c *Ctx, cs EnumCase) EnumResult {
	var k c11EstCase
	if err := json.Unmarshal(cs.Arg, &k); err != nil {
		return EnumResult{Err: err.Error()}
	}
	var vs []explore.Violation
	add := func(sig, msg string) {
		vs = append(vs, explore.Violation{Sig: "C11:" + sig + "/" + k.Kind, Msg: k.name() + ": " + msg})
	}
	var obs string
	rt := vrt.Run(vrt.Options{MaxPoints: 100_000_000}, func() {
		node := hapi.Factories["n0"](hapi.Config{FastKeys: 1, Concurrent: 1, PreDBs: 1})
		if err := node.StartEngine(); err != nil {
			obs = "start: " + err.Error()
			return
		}
		a := node.NewMemClient("a")
		vrt.AdvanceTo(1500 * ms)
		do := func(cmd hapi.Cmd) { a.Do(cmd.Build()); vrt.Quiesce() }
		before := protocol.NewLockCommandDataSetString("before").Data
		after := protocol.NewLockCommandDataSetString("after").Data
		do(withData(withTF(L(1, 1, 1, 0, 30, 0, 2), tfAck), before)) // established: acknowledged by the log write
		if k.Missing {
			node.Poke("missingacks", 1)
		}
		var req hapi.Cmd
		switch k.Kind {
		case "relock":
			req = withTF(L(2, 1, 1, 2, 30, 0, 2), tfAck)
		case "update":
			req = withF(withTF(L(2, 1, 1, 2, 40, 0, 2), tfAck), 0x02)
		case "zero-expiry":
			req = withTF(L(2, 2, 5, 2, 0, 0, 0), tfAck)
		case "beside-never-logged-holder":
			// key 3 (Count 1: two holders) is held by a LockId that asked for its hold never to be logged
			do(withEF(L(4, 3, 7, 0, 30, 1, 0), 0x0200))
			req = withTF(L(2, 3, 5, 2, 30, 1, 0), tfAck)
		}
		if k.Value {
			req.Data = after
		}
		node.ClearEvents()
		do(req)
		at0 := append([]hapi.Event{}, node.Events()...)
		var unl []hapi.Event
		if k.Then == "unlock" {
			vrt.AdvanceTo(vrt.Elapsed() + 500*ms)
			n := len(node.Events())
			do(U(3, 1, 1))
			for _, e := range node.Events()[n:] {
				if e.Req == 3 {
					unl = append(unl, e)
				}
			}
		}
		vrt.AdvanceTo(vrt.Elapsed() + 6*sec) // well past the request's 2 s wait
		var mine []hapi.Event
		for _, e := range node.Events() {
			if e.Req == 2 && e.Result != 9 {
				mine = append(mine, e)
			}
		}
		snap := node.Snapshot()
		kb := byte(1)
		if k.Kind == "zero-expiry" {
			kb = 2
		}
		if k.Kind == "beside-never-logged-holder" {
			kb = 3
		}
		ks := snap.Key(0, [16]byte{15: kb})
		depth, value := 0, ""
		if ks != nil {
			value = string(valuePayload(ks.Value))
			for _, h := range ks.Holds {
				if h.LockId[15] == 1 {
					depth = int(h.Depth)
				}
			}
		}
		obs = fmt.Sprintf("at once %s; in the end %s; unlock %s; depth %d value %q", evStr(at0), evStr(mine), evStr(unl), depth, value)
		if len(mine) != 1 {
			add("not-exactly-one-reply", fmt.Sprintf("the ack-required request got %d terminal replies (%s) within 6 s of a 2 s wait", len(mine), evStr(mine)))
			return
		}
		r := mine[0]
		ok := r.Result == 0 || (k.Kind == "update" && r.Result == 5) // an accepted update is answered LOCKED_ERROR by design
		if k.Missing {
			if ok {
				add("succeeded-without-quorum", fmt.Sprintf("answered %s although the follower acknowledgement it needs never came", hapi.ResultName(r.Result)))
				return
			}
			if k.Kind == "relock" && depth != 1 && k.Then != "unlock" {
				add("change-left-after-failure", fmt.Sprintf("answered %s but the hold's depth is %d (1 before the request)", hapi.ResultName(r.Result), depth))
			}
			if k.Value && k.Kind != "zero-expiry" && value != "before" && k.Then != "unlock" {
				add("value-not-restored", fmt.Sprintf("answered %s but the key carries %q (\"before\" before the request)", hapi.ResultName(r.Result), value))
			}
		} else {
			if !ok {
				add("failed-with-quorum", fmt.Sprintf("answered %s although the log write is the only acknowledgement needed", hapi.ResultName(r.Result)))
			}
		}
		if k.Then == "unlock" && len(unl) == 1 && unl[0].Result == 0 && depth > 0 {
			add("unlock-accepted-but-hold-stays", "the owner's unlock was accepted, yet the hold is still there")
		}
	})
	if rt.Crash != nil {
		add("crash", rt.Crash.Value+"\n"+firstLines(rt.Crash.Stack, 14))
	}
	if rt.Deadlock != "" {
		add("deadlock", rt.Deadlock)
	}
	return EnumResult{Viol: dedupe(vs), Obs: obs, Nontrivial: true}
}
