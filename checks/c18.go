package checks

import (
	"encoding/json"
	"fmt"

	"github.com/snower/slock/protocol"
	"verif/explore"
	"verif/hapi"
	"verif/vrt"
	"verif/wire"
)

type c18Case struct {
	Text      bool   `json:"text"`
	Init      bool   `json:"init"`
	Wills     int    `json:"wills"`           // 0..3 registered will commands
	Cause     string `json:"cause"`           // client-close | protocol-error | client-kill
	CloseAt   string `json:"closeat"`         // before-grant | at-timeout-tick | after-timeout
	SelfQueue bool   `json:"selfq,omitempty"` // the victim also leaves a request queued behind its OWN hold on key 1 (granted by its will unlock)
	Reconnect string `json:"reconnect"`       // no | before-late-reply | after-late-reply | before-close (the new connection announces the id while the old one is still open)
	Admin     bool   `json:"admin,omitempty"` // text commands issued in the admin text mode of a BINARY connection (COMMAND_ADMIN)
	DudWill   string `json:"dud,omitempty"`   // a will that cannot do anything is registered FIRST: unlock-unused-db | lock-db255 | unlock-missing-key
	ZeroId    bool   `json:"zero,omitempty"`  // the victim never announced a client id; an UNRELATED client connects later and announces the all-zero id
}

func (k c18Case) name() string {
	n := fmt.Sprintf("text=%v/init=%v/wills=%d/%s/%s/reconnect=%s", k.Text, k.Init, k.Wills, k.Cause, k.CloseAt, k.Reconnect)
	if k.SelfQueue {
		n += "/self-queued"
	}
	if k.DudWill != "" {
		n += "/first-will-" + k.DudWill
	}
	if k.Admin {
		n += "/admin-text-mode"
	}
	if k.ZeroId {
		n += "/stranger-announces-zero-id"
	}
	return n
}

func c18Cases(quick bool) []EnumCase {
	var out []EnumCase
	for _, text := range []bool{false, true} {
		for _, init := range []bool{false, true} {
			for wills := 0; wills <= 7; wills++ {
				if wills > 3 && !text {
					continue // binary wills are three distinct commands; text connections register the same will n times
				}
				for _, cause := range []string{"client-close", "protocol-error", "client-kill"} {
					for _, at := range []string{"before-grant", "at-timeout-tick", "after-timeout"} {
						for _, rc := range []string{"no", "before-late-reply", "after-late-reply", "before-close"} {
							if !init && rc == "before-late-reply" && wills == 0 && cause == "client-close" && at == "before-grant" {
								// (binary and text victims alike)
								k := c18Case{Text: text, Init: false, Wills: wills, Cause: cause, CloseAt: at, Reconnect: rc, ZeroId: true}
								out = append(out, mkCase(k.name(), k))
							}
							if text && (init || rc != "no") {
								continue // client ids are a binary-protocol notion
							}
							if !init && rc != "no" {
								continue
							}
							k := c18Case{Text: text, Init: init, Wills: wills, Cause: cause, CloseAt: at, Reconnect: rc}
							out = append(out, mkCase(k.name(), k))
							if !text && init && wills == 3 && at == "before-grant" {
								k.SelfQueue = true
								out = append(out, mkCase(k.name(), k))
								k.SelfQueue = false
							}
							if text && wills >= 1 && at == "before-grant" && cause == "client-close" {
								k.Admin = true
								out = append(out, mkCase(k.name(), k))
								k.Admin = false
								if wills <= 2 {
									k.DudWill = "will-option-twice" // the first will line carries the WILL option twice
									out = append(out, mkCase(k.name(), k))
									k.DudWill = ""
								}
							}
							if !text && wills >= 1 && at == "before-grant" && rc == "no" {
								for _, dud := range []string{"unlock-unused-db", "lock-db255", "unlock-missing-key"} {
									k.DudWill = dud
									out = append(out, mkCase(k.name(), k))
								}
							}
						}
					}
				}
			}
		}
	}
	return out
}

func initFrame(req byte, clientID byte) []byte {
	b := make64(protocol.COMMAND_INIT)
	b[3] = req
	b[34] = clientID
	return b
}

func evalC18(c *Ctx, cs EnumCase) EnumResult {
	var k c18Case
	if err := json.Unmarshal(cs.Arg, &k); err != nil {
		return EnumResult{Err: err.Error()}
	}
	var vs []explore.Violation
	add := func(sig, msg string) {
		vs = append(vs, explore.Violation{Sig: "C18:" + sig, Msg: k.name() + ": " + msg})
	}
	var engErr, obs string
	rt := vrt.Run(vrt.Options{MaxPoints: 400_000_000, HB: true}, func() {
		node := hapi.Factories["n0"](hapi.Config{FastKeys: 4, Concurrent: 1})
		if err := node.Start(); err != nil {
			engErr = err.Error()
			return
		}
		vrt.AdvanceTo(1300 * ms)
		addr := nodeAddr(0)
		key := func(b byte) [16]byte { var x [16]byte; x[15] = b; return x }
		holdersOf := func(b byte) []hapi.Hold {
			ks := node.Snapshot().Key(0, key(b))
			if ks == nil {
				return nil
			}
			return ks.Holds
		}
		// the observer holds key 2 (the victim will queue behind it) and is a live binary connection
		ob, _ := wire.Dial(addr)
		_ = ob.Send(make64(protocol.COMMAND_PING))
		_ = ob.Send(wire.BinFrame(hapi.Cmd{Type: 1, Req: 100, Key: 2, Id: 100, Expried: 120}))
		ob.TakeBin()
		// the victim connection
		v, _ := wire.Dial(addr)
		if k.Text {
			if k.Admin {
				_ = v.Send(make64(protocol.COMMAND_ADMIN))
				if rs := v.TakeBin(); len(rs) != 1 || rs[0].Result != 0 {
					engErr = fmt.Sprintf("COMMAND_ADMIN answered %s", binStr(rs))
					return
				}
			}
			_ = v.Send(wire.Resp("LOCK", "\x00\x00\x00\x00\x00\x00\x00\x00\x00\x00\x00\x00\x00\x00\x00\x01", "LOCK_ID", "v1", "TIMEOUT", "0", "EXPRIED", "8"))
			v.TakeText()
			for i := 0; i < k.Wills; i++ {
				args := []string{"LOCK", fmt.Sprintf("will%d", i), "LOCK_ID", "w", "TIMEOUT", "0", "EXPRIED", "30", "RCOUNT", "6", "WILL", "1"}
				if k.DudWill == "will-option-twice" && i == 0 {
					args = append(args, "WILL", "1")
				}
				_ = v.Send(wire.Resp(args...))
				v.TakeText()
			}
		} else {
			if k.Init {
				_ = v.Send(initFrame(1, 0xaa))
			} else {
				_ = v.Send(make64(protocol.COMMAND_PING))
			}
			v.TakeBin()
			// the connection has been used before (its per-connection command pool is warm)
			_ = v.Send(wire.BinFrame(hapi.Cmd{Type: 1, Req: 20, Key: 20, Id: 20, Expried: 8}))
			_ = v.Send(wire.BinFrame(hapi.Cmd{Type: 2, Req: 21, Key: 20, Id: 20}))
			v.TakeBin()
			_ = v.Send(wire.BinFrame(hapi.Cmd{Type: 1, Req: 2, Key: 1, Id: 1, Expried: 8})) // a hold the victim leaves behind
			v.TakeBin()
			// wills: lock key 10 (id a), lock key 10 again (id b: refused if run after the first), unlock the own hold on key 1
			wills := []hapi.Cmd{
				{Type: protocol.COMMAND_WILL_LOCK, Req: 30, Key: 10, Id: 0xa, Expried: 30, Rcount: 6},
				{Type: protocol.COMMAND_WILL_LOCK, Req: 31, Key: 10, Id: 0xb, Expried: 30},
				{Type: protocol.COMMAND_WILL_UNLOCK, Req: 32, Key: 1, Id: 1},
			}
			switch k.DudWill {
			case "unlock-unused-db":
				_ = v.Send(wire.BinFrame(hapi.Cmd{Type: protocol.COMMAND_WILL_UNLOCK, Req: 29, DB: 9, Key: 5, Id: 5}))
			case "lock-db255":
				_ = v.Send(wire.BinFrame(hapi.Cmd{Type: protocol.COMMAND_WILL_LOCK, Req: 29, DB: 255, Key: 5, Id: 5, Expried: 30}))
			case "unlock-missing-key":
				_ = v.Send(wire.BinFrame(hapi.Cmd{Type: protocol.COMMAND_WILL_UNLOCK, Req: 29, Key: 77, Id: 5}))
			}
			for i := 0; i < k.Wills; i++ {
				_ = v.Send(wire.BinFrame(wills[i]))
			}
			// a request left queued behind the observer's hold on key 2 (timeout 3 s)
			_ = v.Send(wire.BinFrame(hapi.Cmd{Type: 1, Req: 3, Key: 2, Id: 3, Timeout: 3, Expried: 6}))
			if k.SelfQueue {
				// and one behind the victim's own hold on key 1: the will unlock of that hold grants it while the
				// connection is being closed; its hold then expires after 3 s
				_ = v.Send(wire.BinFrame(hapi.Cmd{Type: 1, Req: 4, Key: 1, Id: 4, Timeout: 20, Expried: 3}))
			}
		}
		t0 := vrt.Elapsed()
		if len(holdersOf(10)) != 0 {
			add("will-ran-before-close", "a registered will command was executed while its connection was still open")
		}
		if k.Text {
			for i := 0; i < k.Wills; i++ {
				if ks := node.Snapshot().Key(0, normKey(fmt.Sprintf("will%d", i))); ks != nil && len(ks.Holds) != 0 {
					add("will-ran-before-close", fmt.Sprintf("text will %d was executed while its connection was still open", i))
				}
			}
		}
		// when does the connection end?
		var closeT int64
		switch k.CloseAt {
		case "before-grant":
			closeT = t0 + 500*ms
		case "at-timeout-tick":
			closeT = (t0/sec + 4) * sec // the tick at which the 3 s wait is due
		default:
			closeT = t0 + 7*sec
		}
		vrt.AdvanceTo(closeT)
		var nc *wire.Conn
		if k.Reconnect == "before-close" {
			nc, _ = wire.Dial(addr)
			_ = nc.Send(initFrame(40, 0xaa))
			nc.TakeBin()
		}
		switch k.Cause {
		case "client-close":
			v.Close()
		case "protocol-error":
			if k.Text {
				_ = v.Send([]byte("*a\r\n"))
			} else {
				bad := make64(1)
				bad[0] = 0
				_ = v.Send(bad)
			}
		case "client-kill":
			ad, _ := wire.Dial(addr)
			_ = ad.Send(wire.Resp("CLIENT", "LIST"))
			list := ad.TakeText()
			target := ""
			if len(list) == 1 {
				target = findAddr(list[0], v.C.LocalAddr().String())
			}
			if target == "" {
				engErr = fmt.Sprintf("CLIENT LIST does not show the victim %s: %v", v.C.LocalAddr(), list)
				return
			}
			_ = ad.Send(wire.Resp("CLIENT", "KILL", target))
		}
		vrt.Quiesce()
		v.Pump()
		if k.Cause != "client-close" && !v.Closed {
			add("connection-never-closed", "the "+k.Cause+" did not make the server close the victim connection (its close handler has not finished)")
		}
		afterClose := vrt.Elapsed()
		// wills: each exactly once, in registration order, only now
		if !k.Text {
			hs := holdersOf(10)
			switch {
			case k.Wills == 0 && len(hs) != 0:
				add("will-from-nowhere", fmt.Sprintf("no will registered but key 10 is held: %v", hs))
			case k.Wills >= 1 && (len(hs) != 1 || hs[0].LockId[15] != 0xa):
				add("will-not-run-in-order", fmt.Sprintf("after the close key 10 should be held by the first will (LockId a) only, it is held by %s", holdsOf(hs)))
			case k.Wills >= 1 && hs[0].Depth != 1:
				add("will-run-twice", fmt.Sprintf("the will lock was executed %d times", hs[0].Depth))
			}
			h1 := holdersOf(1)
			if k.SelfQueue {
				// the queued own request takes key 1 over: only the victim's first hold (LockId 1) must be gone
				var rest []hapi.Hold
				for _, h := range h1 {
					if h.LockId[15] == 1 {
						rest = append(rest, h)
					}
				}
				h1 = rest
			}
			if k.Wills == 3 && len(h1) != 0 && closeT < t0+8*sec {
				add("will-unlock-not-run", "the will unlock of the connection's own hold on key 1 was not executed")
			}
			if k.Wills < 3 && len(h1) != 1 && closeT < t0+8*sec {
				add("hold-dropped-at-disconnect", "the hold on key 1 was taken without expiry having passed and no will released it, yet it is gone after the disconnect")
			}
		} else if k.Wills > 0 {
			for i := 0; i < k.Wills; i++ {
				ks := node.Snapshot().Key(0, normKey(fmt.Sprintf("will%d", i)))
				if ks == nil || len(ks.Holds) != 1 || ks.Holds[0].Depth != 1 {
					add("text-will-not-run-once", fmt.Sprintf("text will %d: key holds %v after the close", i, ks))
				}
			}
		}
		// an unrelated connection with several requests outstanding at once: the hold the victim left behind keeps
		// its identity (key, LockId) and can still be released by its LockId
		if !k.Text && k.Wills < 3 && !k.SelfQueue && closeT < t0+6*sec {
			un, _ := wire.Dial(addr)
			for i := byte(0); i < 4; i++ {
				_ = un.Send(wire.BinFrame(hapi.Cmd{Type: 1, Req: 50 + i, Key: 21 + i, Id: 60 + i, Expried: 30}))
			}
			un.TakeBin()
			if hs := holdersOf(1); len(hs) != 1 || hs[0].LockId[15] != 1 {
				add("left-hold-changed-identity", fmt.Sprintf("after the disconnect and four LOCKs of an unrelated connection the hold left on key 1 (LockId 1) reads %s", holdsOf(hs)))
			}
			for i := byte(0); i < 4; i++ {
				_ = un.Send(wire.BinFrame(hapi.Cmd{Type: 2, Req: 60 + i, Key: 21 + i, Id: 60 + i}))
			}
			un.TakeBin()
			un.Close()
		}
		// reconnect under the same client id
		if k.Reconnect == "before-late-reply" {
			nc, _ = wire.Dial(addr)
			if k.ZeroId {
				_ = nc.Send(initFrame(40, 0))
			} else {
				_ = nc.Send(initFrame(40, 0xaa))
			}
			nc.TakeBin()
		}
		// the observer releases key 2: the queued request (if still live) is granted now -> late reply
		_ = ob.Send(wire.BinFrame(hapi.Cmd{Type: 2, Req: 101, Key: 2, Id: 100}))
		obReplies := ob.TakeBin()
		if k.Reconnect == "after-late-reply" {
			nc, _ = wire.Dial(addr)
			_ = nc.Send(initFrame(40, 0xaa))
			nc.TakeBin()
		}
		vrt.AdvanceTo(afterClose + 2*sec)
		// no frame on the observer that is not its own
		ob.Pump()
		obReplies = append(obReplies, ob.TakeBin()...)
		for _, r := range obReplies {
			if r.Req[0] != 100 && r.Req[0] != 101 && r.Type != protocol.COMMAND_PING {
				add("reply-misrouted", fmt.Sprintf("the observer connection received a frame for RequestId %d which it never sent", r.Req[0]))
			}
		}
		if nc != nil {
			nc.Pump()
			late := nc.TakeBin()
			queuedLive := !k.Text && closeT < t0+3*sec
			gotLate := false
			for _, r := range late {
				if k.ZeroId {
					if r.Req[0] != 40 {
						add("reply-misrouted/stranger-with-zero-client-id", fmt.Sprintf("an unrelated client that announced the all-zero client id received a frame for RequestId %d (result %s) of the connection that had gone", r.Req[0], hapi.ResultName(r.Result)))
					}
					continue
				}
				if r.Req[0] == 3 {
					gotLate = true
				} else if r.Req[0] != 40 && r.Req[0] != 2 && !(r.Req[0] >= 30 && r.Req[0] <= 32) && !(k.SelfQueue && r.Req[0] == 4) {
					// 30..32 are the victim's own will commands: their results are addressed to its client id
					add("reply-misrouted", fmt.Sprintf("the reconnected connection received a frame for RequestId %d", r.Req[0]))
				}
			}
			if !k.ZeroId && (k.Reconnect == "before-late-reply" || k.Reconnect == "before-close") && queuedLive && !gotLate {
				add("late-reply-not-delivered-to-reconnected-client", fmt.Sprintf("a client announcing the same client id reconnected before the queued request was granted, but the grant reply was not delivered to it (it received %s)", binStr(late)))
			}
		}
		if k.SelfQueue && nc != nil {
			// the hold granted by the will expires 3 s after the close: its EXPRIED notice is addressed to the
			// client id and must reach the reconnected connection
			vrt.AdvanceTo(afterClose + 7*sec)
			nc.Pump()
			got := false
			for _, r := range nc.TakeBin() {
				if r.Req[0] == 4 && r.Result == 9 {
					got = true
				}
			}
			if len(holdersOf(1)) == 0 && !got {
				add("expiry-notice-not-delivered-to-reconnected-client", "the request queued behind the victim's own hold was granted by its will unlock during the close and its hold has expired, but the EXPRIED notice did not reach the connection that reconnected under the same client id")
			}
		}
		// everything drains: the left-behind waiter ends, holds expire, counters return to zero
		vrt.AdvanceTo(vrt.Elapsed() + 50*sec)
		final := node.Snapshot()
		obs = fmt.Sprintf("closed at %d ms; final %s", closeT/ms, final.UserString())
		for _, d := range final.DBs {
			if d.WaitCount != 0 || d.CensusWait != 0 {
				add("queued-request-leaked", fmt.Sprintf("50 s after the disconnect WaitCount=%d (%d live queued requests)", d.WaitCount, d.CensusWait))
			}
			if d.LockedCount != 0 || d.CensusLocked != 0 || d.KeyCount != 0 {
				add("state-leaked", fmt.Sprintf("50 s after the disconnect LockedCount=%d KeyCount=%d, holds %s", d.LockedCount, d.KeyCount, final.UserString()))
			}
		}
	})
	if engErr != "" {
		return EnumResult{Err: k.name() + ": " + engErr}
	}
	if rt.Crash != nil {
		add("crash", rt.Crash.Value+"\n"+firstLines(rt.Crash.Stack, 14))
	}
	if mr := rt.MapRaceReport(); mr != "" {
		add("crash/concurrent-map-access", "two threads access a map without an ordering between them (the Go runtime kills the process when they meet): "+mr)
	}
	if rt.Deadlock != "" {
		add("deadlock", rt.Deadlock)
	}
	return EnumResult{Viol: dedupe(vs), Obs: obs, Nontrivial: true}
}

func findAddr(list, addr string) string {
	if i := indexOf(list, "addr="+addr); i >= 0 {
		return addr
	}
	return ""
}

func indexOf(s, sub string) int {
	for i := 0; i+len(sub) <= len(s); i++ {
		if s[i:i+len(sub)] == sub {
			return i
		}
	}
	return -1
}

func init() {
	enumCheck("C18", "exploration",
		func(q bool) []*EnumPlan {
			return []*EnumPlan{{Name: "connection-lifetimes", Cases: c18Cases, Eval: evalC18}, {Name: "connection-older-than-promotion", Cases: c18PromCases, Eval: evalC18Prom}}
		}, nil,
		"every connection lifetime from the product: binary / text, with / without INIT(client id), 0..3 registered WILL commands (lock, second lock on the same key, unlock of the own hold), a hold and a queued request left behind, ended by client close / protocol error / CLIENT KILL, ended before the queued request's grant / on its timeout tick / after its timeout, without reconnect or with a reconnect under the same client id before / after the late reply; each run on a full node next to an observer connection; oracle: no will runs before the close, each will exactly once and in registration order afterwards, the left hold stays until expiry, the queued request ends, no frame with a foreign RequestId on the observer, the late grant reply reaches a reconnected client with the same id, and the node drains to zero",
		[]string{"handlers run under the default schedule; the close instant is enumerated at three positions relative to the queued request's timeout", "text connections: wills via the WILL option, no client ids"})
}
