package checks

import (
	"fmt"
	"sort"
	"strings"

	"verif/explore"
	"verif/hapi"
	"verif/refmodel"
)

// Note: slock releases a hold and wakes the queue in two critical sections, so a request that never queues
// (timeout 0) may legitimately take the key in between ("barging"); the atomic reference cannot produce that
// outcome. The oracle is therefore only attached to scenarios without such a newcomer (C02's request pairs).
//
// OracleLinearizable: for scenarios whose threads only issue requests at one instant (no sleeps, no sweeper
// involvement): the replies of all requests and the holders / queue left at quiescence must equal the outcome of
// SOME sequential order of the requests (per-thread order kept) on the RefLockDB reference. The set of all such
// outcomes is enumerated by brute force over the interleavings of the threads' request lists.
func OracleLinearizable(prefix string) Oracle {
	return func(r *EngRun) []explore.Violation {
		sp := r.Spec
		var threads [][]hapi.Cmd
		for _, t := range sp.Threads {
			var cs []hapi.Cmd
			for _, st := range t {
				if st.SleepUntil > 0 || st.Poke != "" {
					return nil // timing or role changes: not judged by this oracle
				}
				if st.Cmd != nil {
					cs = append(cs, *st.Cmd)
				}
			}
			threads = append(threads, cs)
		}
		if r.AfterRun == nil {
			return nil
		}
		t0 := sp.T0
		if t0 == 0 {
			t0 = 1300 * ms
		}
		base := func() *refmodel.RefLockDB {
			m := refmodel.New()
			for _, st := range sp.Setup {
				if st.Cmd == nil {
					continue
				}
				c := *st.Cmd
				if c.Type == 1 {
					m.Lock("s", toRef(&c))
				} else {
					m.Unlock("s", toRef(&c))
				}
			}
			// holds of the setup that ended by time before the exploration instant
			for _, e := range r.Events {
				if e.T < t0 && e.Result == refmodel.EXPRIED && e.Cmd == 1 {
					_, _ = m.Expire(e.Key[15], e.LockId[15], e.Req)
				}
			}
			return m
		}
		// observed outcome: replies produced during the exploration instant + state right after it
		var obs []string
		for _, e := range r.Events {
			if e.T >= t0 && e.T < t0+100*ms {
				obs = append(obs, fmt.Sprintf("%s:r%d=%d", e.Client, e.Req, refusal(e.Result)))
			}
		}
		sort.Strings(obs)
		observed := strings.Join(obs, " ") + " | " + linState(r.AfterRun)
		// all sequential outcomes
		allowed := map[string]string{}
		idx := make([]int, len(threads))
		var order []string
		var rec func(m *refmodel.RefLockDB, replies []string)
		rec = func(m *refmodel.RefLockDB, replies []string) {
			done := true
			for ti := range threads {
				if idx[ti] >= len(threads[ti]) {
					continue
				}
				done = false
				c := threads[ti][idx[ti]]
				m2 := cloneRef(m)
				var rs []refmodel.Reply
				if c.Type == 1 {
					rs = m2.Lock(clientName(ti), toRef(&c))
				} else {
					rs = m2.Unlock(clientName(ti), toRef(&c))
				}
				var add []string
				for _, x := range rs {
					add = append(add, fmt.Sprintf("%s:r%d=%d", x.Client, x.Req, refusal(x.Result)))
				}
				idx[ti]++
				order = append(order, fmt.Sprintf("%s:r%d", clientName(ti), c.Req))
				rec(m2, append(append([]string{}, replies...), add...))
				order = order[:len(order)-1]
				idx[ti]--
			}
			if done {
				rr := append([]string{}, replies...)
				sort.Strings(rr)
				allowed[strings.Join(rr, " ")+" | "+refState(m)] = strings.Join(order, ", ")
			}
		}
		rec(base(), nil)
		if _, ok := allowed[observed]; ok {
			return nil
		}
		var al []string
		for k, o := range allowed {
			al = append(al, fmt.Sprintf("[%s] (order %s)", k, o))
		}
		sort.Strings(al)
		return []explore.Violation{{Sig: prefix + ":not-a-sequential-outcome", Msg: fmt.Sprintf("the concurrent requests ended with [%s]; no sequential order of them gives that on the reference model; sequential outcomes: %s", observed, strings.Join(al, "; "))}}
	}
}

// refusal: UNLOCK_ERROR and UNOWN_ERROR are both "refused, nothing changed" (the statement allows either).
func refusal(r uint8) uint8 {
	if r == 7 {
		return 6
	}
	return r
}

func cloneRef(m *refmodel.RefLockDB) *refmodel.RefLockDB {
	n := refmodel.New()
	for k, v := range m.Keys {
		c := &refmodel.Key{Holds: append([]refmodel.Hold{}, v.Holds...), Waits: append([]refmodel.Wait{}, v.Waits...)}
		for i := range c.Holds {
			c.Holds[i].Reqs = append([]byte{}, c.Holds[i].Reqs...)
		}
		n.Keys[k] = c
	}
	return n
}

// linState / refState: holders (id, depth) and queued requests per key, in a comparable rendering.
func linState(s *hapi.Snapshot) string {
	var rows []string
	for _, k := range s.Keys {
		if len(k.Holds) == 0 && len(k.Waiters) == 0 {
			continue
		}
		var hs, ws []string
		for _, h := range k.Holds {
			hs = append(hs, fmt.Sprintf("%d*%d", h.LockId[15], h.Depth))
		}
		for _, w := range k.Waiters {
			ws = append(ws, fmt.Sprintf("%d", w.LockId[15]))
		}
		sort.Strings(hs)
		sort.Strings(ws)
		rows = append(rows, fmt.Sprintf("k%d held[%s] queued[%s]", k.Key[15], strings.Join(hs, ","), strings.Join(ws, ",")))
	}
	sort.Strings(rows)
	return strings.Join(rows, " ")
}

func refState(m *refmodel.RefLockDB) string {
	var rows []string
	for kb, k := range m.Keys {
		if len(k.Holds) == 0 && len(k.Waits) == 0 {
			continue
		}
		var hs, ws []string
		for _, h := range k.Holds {
			hs = append(hs, fmt.Sprintf("%d*%d", h.Id, h.Depth))
		}
		for _, w := range k.Waits {
			ws = append(ws, fmt.Sprintf("%d", w.Id))
		}
		sort.Strings(hs)
		sort.Strings(ws)
		rows = append(rows, fmt.Sprintf("k%d held[%s] queued[%s]", kb, strings.Join(hs, ","), strings.Join(ws, ",")))
	}
	sort.Strings(rows)
	return strings.Join(rows, " ")
}
