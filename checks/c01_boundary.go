package checks

import (
	"encoding/json"
	"fmt"

	"verif/explore"
	"verif/hapi"
	"verif/refmodel"
	"verif/vrt"
)

// Keys at the boundary of the 16-bit Count: 65534 / 65535 / 65536 holds outstanding (257 LockIds entered up to 255
// times each), the oldest holder's Count 0xfffe or 0xffff, and one more request with Count 5 / 0xfffe / 0xffff. The
// request must be admitted exactly when the documented rule admits it (holds <= both Counts; 0xffff on both sides
// means unlimited).
type c01BoundArg struct {
	Oldest uint16 `json:"o"`
	Holds  int    `json:"n"`
	Probe  uint16 `json:"p"`
}

func c01BoundCases(quick bool) []EnumCase {
	var out []EnumCase
	for _, o := range []uint16{0xfffe, 0xffff} {
		for _, n := range []int{65534, 65535, 65536} {
			if o == 0xfffe && n > 65535 {
				continue // cannot be reached: the 65536th hold is not admitted
			}
			for _, p := range []uint16{5, 0xfffe, 0xffff} {
				a := c01BoundArg{o, n, p}
				out = append(out, mkCase(fmt.Sprintf("count-boundary/oldest%#x/holds%d/probe%#x", o, n, p), a))
			}
		}
	}
	return out
}

func evalC01Bound(c *Ctx, cs EnumCase) EnumResult {
	var a c01BoundArg
	if err := json.Unmarshal(cs.Arg, &a); err != nil {
		return EnumResult{Err: err.Error()}
	}
	res := EnumResult{Nontrivial: true, Sub: 1}
	var engErr, obs string
	var viol *explore.Violation
	rt := vrt.Run(vrt.Options{MaxPoints: 2_000_000_000}, func() {
		node := hapi.Factories["n0"](hapi.Config{FastKeys: 1, Concurrent: 1})
		if err := node.StartEngine(); err != nil {
			engErr = err.Error()
			return
		}
		cl := node.NewMemClient("a")
		vrt.AdvanceTo(1500 * ms)
		n := 0
		for id := 0; n < a.Holds; id++ {
			for d := 0; d < 255 && n < a.Holds; d++ {
				l := hapi.Cmd{Type: 1, Req: 1, Key: 1, Expried: 600, ExpriedFlag: 0x0200, Count: a.Oldest, Rcount: 255}.Build()
				l.LockId[14], l.LockId[15] = byte(id>>8), byte(id)
				cl.Do(l)
				n++
			}
		}
		vrt.Quiesce()
		granted := 0
		for _, e := range node.Events() {
			if e.Result == 0 {
				granted++
			}
		}
		if granted != a.Holds {
			engErr = fmt.Sprintf("could not build %d holds with Count %#x: %d granted", a.Holds, a.Oldest, granted)
			return
		}
		node.ClearEvents()
		p := hapi.Cmd{Type: 1, Req: 2, Key: 1, Expried: 600, ExpriedFlag: 0x0200, Count: a.Probe}.Build()
		p.LockId[13] = 1
		cl.Do(p)
		vrt.Quiesce()
		ev := node.Events()
		if len(ev) != 1 {
			engErr = fmt.Sprintf("probe answered %d times", len(ev))
			return
		}
		k := &refmodel.Key{Holds: []refmodel.Hold{{Id: 1, Depth: a.Holds, Count: a.Oldest}}}
		want := k.Admissible(a.Probe)
		got := ev[0].Result == 0
		obs = fmt.Sprintf("%d holds, oldest Count %#x, request Count %#x: %s", a.Holds, a.Oldest, a.Probe, hapi.ResultName(ev[0].Result))
		if got && !want {
			viol = &explore.Violation{Sig: "C01:grant-exceeds-count/count-boundary", Msg: fmt.Sprintf("%d holds outstanding on the key (oldest holder's Count %#x): a request with Count %#x was granted as a new holder", a.Holds, a.Oldest, a.Probe)}
		} else if !got && want {
			viol = &explore.Violation{Sig: "C01:admissible-request-refused/count-boundary", Msg: fmt.Sprintf("%d holds outstanding (oldest Count %#x): a request with Count %#x, which the rule admits, was answered %s", a.Holds, a.Oldest, a.Probe, hapi.ResultName(ev[0].Result))}
		}
	})
	if engErr != "" {
		return EnumResult{Err: cs.Name + ": " + engErr}
	}
	if rt.Crash != nil {
		viol = &explore.Violation{Sig: "C01:crash", Msg: rt.Crash.Value + "\n" + firstLines(rt.Crash.Stack, 12)}
	}
	if viol != nil {
		res.Viol = []explore.Violation{*viol}
	}
	res.Obs = obs
	res.SubNT = 1
	return res
}
