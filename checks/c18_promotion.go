package checks

import (
	"encoding/json"
	"fmt"

	"github.com/snower/slock/protocol"
	"verif/explore"
	"verif/hapi"
	"verif/vrt"
	"verif/wire"
)

// A connection made while the node was a follower (it is served by the forwarding protocol) registers will
// commands; the leader goes away and the node is promoted; the client goes on using the connection and then ends
// it: the wills must run once, on the node that is leader now.
type c18PromCase struct {
	Demotion bool   `json:"demotion,omitempty"` // the other way round: the connection is made to the leader, which then steps down and follows the promoted follower
	Text     bool   `json:"text"`
	Wills    int    `json:"wills"`
	Use      bool   `json:"use"`   // the client sends one more request over the connection after the promotion
	Cause    string `json:"cause"` // client-close | protocol-error
}

func (k c18PromCase) name() string {
	if k.Demotion {
		return fmt.Sprintf("demotion/text=%v/wills=%d/used-after=%v/%s", k.Text, k.Wills, k.Use, k.Cause)
	}
	return fmt.Sprintf("promotion/text=%v/wills=%d/used-after=%v/%s", k.Text, k.Wills, k.Use, k.Cause)
}

func c18PromCases(quick bool) []EnumCase {
	var out []EnumCase
	for _, text := range []bool{false, true} {
		for w := 1; w <= 3; w++ {
			for _, use := range []bool{false, true} {
				for _, cause := range []string{"client-close", "protocol-error"} {
					k := c18PromCase{false, text, w, use, cause}
					out = append(out, mkCase(k.name(), k))
					k.Demotion = true
					out = append(out, mkCase(k.name(), k))
				}
			}
		}
	}
	return out
}

func evalC18Prom(c *Ctx, cs EnumCase) EnumResult {
	var k c18PromCase
	if err := json.Unmarshal(cs.Arg, &k); err != nil {
		return EnumResult{Err: err.Error()}
	}
	var vs []explore.Violation
	add := func(sig, msg string) {
		vs = append(vs, explore.Violation{Sig: "C18:" + sig, Msg: k.name() + ": " + msg})
	}
	var engErr, obs string
	rt := vrt.Run(vrt.Options{MaxPoints: 400_000_000, HB: true}, func() {
		cl, err := StartLeaderFollowers(1, nil)
		if err != nil {
			engErr = err.Error()
			return
		}
		fol := cl.Nodes[1]
		vaddr := cl.Addrs[1]
		if k.Demotion {
			vaddr = cl.Addrs[0]
		}
		v, _ := wire.Dial(vaddr)
		willKey := func(i int) [16]byte {
			if k.Text {
				return normKey(fmt.Sprintf("pw%d", i))
			}
			return [16]byte{15: byte(10 + i)}
		}
		if k.Text {
			_ = v.Send(wire.Resp("PING"))
			v.TakeText()
			for i := 0; i < k.Wills; i++ {
				_ = v.Send(wire.Resp("LOCK", fmt.Sprintf("pw%d", i), "LOCK_ID", "w", "TIMEOUT", "0", "EXPRIED", "30", "WILL", "1"))
				v.TakeText()
			}
		} else {
			_ = v.Send(make64(protocol.COMMAND_PING))
			v.TakeBin()
			for i := 0; i < k.Wills; i++ {
				_ = v.Send(wire.BinFrame(hapi.Cmd{Type: protocol.COMMAND_WILL_LOCK, Req: byte(30 + i), Key: byte(10 + i), Id: byte(0xa + i), Expried: 30}))
			}
			vrt.Quiesce()
		}
		vrt.AdvanceTo(vrt.Elapsed() + 300*ms)
		if k.Demotion {
			// the follower is promoted, the leader steps down and follows it
			fol.Poke("promote")
			vrt.AdvanceTo(vrt.Elapsed() + 200*ms)
			cl.Nodes[0].Poke("changeleader", cl.Addrs[1])
			cl.Nodes[0].Poke("demote", cl.Addrs[1])
			vrt.AdvanceTo(vrt.Elapsed() + 3*sec)
			if st, _ := cl.Nodes[0].Poke("state").(int); st == 1 {
				engErr = "the old leader did not step down"
				return
			}
		} else {
			// the leader goes away, the follower is promoted
			vrt.KillGroup("n0")
			vrt.AdvanceTo(vrt.Elapsed() + 200*ms)
			fol.Poke("promote")
			vrt.AdvanceTo(vrt.Elapsed() + 2*sec)
		}
		if st, _ := fol.Poke("state").(int); st != 1 { // STATE_LEADER
			engErr = fmt.Sprintf("the follower was not promoted (state %d)", st)
			return
		}
		held := func(i int) int {
			ks := fol.Snapshot().Key(0, willKey(i))
			if ks == nil {
				return 0
			}
			return ks.DepthSum()
		}
		for i := 0; i < k.Wills; i++ {
			if held(i) != 0 {
				add("will-ran-before-close", fmt.Sprintf("will %d was executed while its connection was still open", i))
			}
		}
		if k.Use {
			if k.Text {
				_ = v.Send(wire.Resp("PING"))
				v.TakeText()
			} else {
				_ = v.Send(make64(protocol.COMMAND_PING))
				v.TakeBin()
			}
		}
		switch k.Cause {
		case "client-close":
			v.Close()
		default:
			if k.Text {
				_ = v.Send([]byte("*a\r\n"))
			} else {
				bad := make64(1)
				bad[0] = 0
				_ = v.Send(bad)
			}
		}
		vrt.AdvanceTo(vrt.Elapsed() + 1*sec)
		for i := 0; i < k.Wills; i++ {
			obs += fmt.Sprintf("will%d:%d ", i, held(i))
			if held(i) != 1 && k.Demotion {
				add("will-not-run-once/connection-older-than-demotion", fmt.Sprintf("the connection was made while the node was the leader and ended after it had stepped down: will %d was executed %d times on the new leader", i, held(i)))
			} else if held(i) != 1 {
				add("will-not-run-once/connection-older-than-promotion", fmt.Sprintf("the connection was made while the node was a follower and ended after its promotion: will %d was executed %d times on the new leader", i, held(i)))
			}
		}
	})
	if engErr != "" {
		return EnumResult{Err: k.name() + ": " + engErr}
	}
	if rt.Crash != nil {
		add("crash", rt.Crash.Value+"\n"+firstLines(rt.Crash.Stack, 14))
	}
	if mr := rt.MapRaceReport(); mr != "" {
		add("crash/concurrent-map-access", "two threads access a map without an ordering between them (the Go runtime kills the process when they meet): "+mr)
	}
	if rt.Deadlock != "" {
		add("deadlock", rt.Deadlock)
	}
	return EnumResult{Viol: dedupe(vs), Obs: obs, Nontrivial: true}
}
