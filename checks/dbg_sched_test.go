package checks

import (
	"fmt"
	"os"
	"strings"
	"testing"

	"verif/explore"
	"verif/vrt"
)

// TestDbgSched: debugging aid. DBGSCHED=<C02 scenario name> [DBGPREFIX="1 0 0 1"] go test -run TestDbgSched ./checks/
func TestDbgSched(t *testing.T) {
	name := os.Getenv("DBGSCHED")
	if name == "" {
		t.Skip()
	}
	if name == "c08-restart" {
		x := explore.RunPrefix(c08RestartScenario(), vrt.Options{TraceSync: os.Getenv("DBGTRACE") != ""}, dbgPrefix())
		fmt.Println("choices", x.Choices)
		for i, ci := range x.Infos {
			fmt.Printf("%d:N%d,k%d,p%v ", i, ci.N, ci.Kind, ci.Preempt)
		}
		fmt.Println()
		for _, l := range x.RT.SyncTrace {
			fmt.Println("   ", l)
		}
		fmt.Println(x.Out.Trace, x.Out.Violations, x.Out.EngineErr)
		return
	}
	for _, s := range append(c02SchedSpecs(true), coreSchedSpecs(true)...) {
		if s.Name != name {
			continue
		}
		sc := EngineScenario(s, nil, []Oracle{OracleLinearizable("C02")}, nil)
		prefix := dbgPrefix()
		x := explore.RunPrefix(sc, vrt.Options{Fine: s.Fine, TraceSync: os.Getenv("DBGTRACE") != ""}, prefix)
		fmt.Println("choices", x.Choices)
		for i, ci := range x.Infos {
			fmt.Printf("%d:N%d,k%d,p%v ", i, ci.N, ci.Kind, ci.Preempt)
		}
		fmt.Println()
		for _, l := range x.RT.SyncTrace {
			fmt.Println("   ", l)
		}
		fmt.Println(x.Out.Trace)
		fmt.Println(x.Out.Violations)
	}
}

func dbgPrefix() []int {
	var prefix []int
	for _, f := range strings.Fields(os.Getenv("DBGPREFIX")) {
		var v int
		fmt.Sscan(f, &v)
		prefix = append(prefix, v)
	}
	return prefix
}
