package checks

import (
	"fmt"
	"os"
	"testing"

	"verif/explore"
	"verif/vrt"
)

// TestDbgSched: debugging aid. DBGSCHED=<C02 scenario name> [DBGPREFIX="1 0 0 1"] go test -run TestDbgSched ./checks/
func TestDbgSched(t *testing.T) {
	name := os.Getenv("DBGSCHED")
	if name == "" {
		t.Skip()
	}
	for _, s := range append(c02SchedSpecs(true), coreSchedSpecs(true)...) {
		if s.Name != name {
			continue
		}
		sc := EngineScenario(s, nil, []Oracle{OracleLinearizable("C02")}, nil)
		var prefix []int
		var v int
		rest := os.Getenv("DBGPREFIX")
		for {
			n, err := fmt.Sscan(rest, &v)
			if n == 0 || err != nil {
				break
			}
			prefix = append(prefix, v)
			i := 0
			for i < len(rest) && rest[i] == ' ' {
				i++
			}
			for i < len(rest) && rest[i] != ' ' {
				i++
			}
			rest = rest[i:]
		}
		x := explore.RunPrefix(sc, vrt.Options{Fine: s.Fine, TraceSync: os.Getenv("DBGTRACE") != ""}, prefix)
		fmt.Println("choices", x.Choices)
		for i, ci := range x.Infos {
			fmt.Printf("%d:N%d,k%d,p%v ", i, ci.N, ci.Kind, ci.Preempt)
		}
		fmt.Println()
		for _, l := range x.RT.SyncTrace {
			fmt.Println("   ", l)
		}
		fmt.Println(x.Out.Trace)
		fmt.Println(x.Out.Violations)
	}
}
