package checks

import (
	"fmt"
	"os"
	"testing"

	"github.com/snower/slock/protocol"
	"verif/hapi"
	"verif/vrt"
)

// TestDbgC15: debugging aid. DBGC15=1 go test -run TestDbgC15 ./checks/
func TestDbgC15(t *testing.T) {
	if os.Getenv("DBGC15") == "" {
		t.Skip()
	}
	props := []*protocol.LockCommandDataProperty{protocol.NewLockCommandDataProperty(1, []byte("p"))}
	cases := map[string][][]byte{
		"set-pipeI":  {vd(protocol.NewLockCommandDataSetString("5")), vd(protocol.NewLockCommandDataPipelineData([]*protocol.LockCommandData{protocol.NewLockCommandDataIncrData(3)}))},
		"setp-set":   {vd(protocol.NewLockCommandDataSetStringWithProperty("abcdef", props)), vd(protocol.NewLockCommandDataSetString("v0"))},
		"setp-app":   {vd(protocol.NewLockCommandDataSetStringWithProperty("abcdef", props)), vd(protocol.NewLockCommandDataAppendString("x"))},
		"setp-shift": {vd(protocol.NewLockCommandDataSetStringWithProperty("abcdef", props)), vd(protocol.NewLockCommandDataShiftData(2))},
		"set-push":   {vd(protocol.NewLockCommandDataSetString("ab")), vd(protocol.NewLockCommandDataPushString("b"))},
		"set-incr":   {vd(protocol.NewLockCommandDataSetString("ab")), vd(protocol.NewLockCommandDataIncrData(3))},
		"none-set":   {nil, vd(protocol.NewLockCommandDataSetString("v0"))},
	}
	for name, cs := range cases {
		if os.Getenv("DBGC15") != "1" && os.Getenv("DBGC15") != name {
			continue
		}
		vrt.Run(vrt.Options{MaxPoints: 100_000_000}, func() {
			node := hapi.Factories["n0"](hapi.Config{FastKeys: 1, Concurrent: 1, PreDBs: 1, MissingAcks: 1})
			_ = node.StartEngine()
			a, b := node.NewMemClient("a"), node.NewMemClient("b")
			vrt.AdvanceTo(1500 * ms)
			do := func(c hapi.Client, cmd hapi.Cmd) { c.Do(cmd.Build()); vrt.Quiesce() }
			show := func(tag string) {
				fmt.Printf("%s t=%d %s: %s\n   events %s\n", name, vrt.Elapsed()/ms, tag, node.Snapshot().Canon(), evStr(node.Events()))
				node.ClearEvents()
			}
			do(a, withData(L(1, 1, 1, 0, 9, 5, 3), cs[0]))
			show("a set")
			do(b, withTF(withData(L(2, 1, 2, 1, 9, 5, 0), cs[1]), tfAck))
			show("b pending")
			vrt.AdvanceTo(vrt.Elapsed() + 2500*ms)
			show("b refused")
		})
	}
}
