// Package checks contains one check per property plus the shared driver plumbing.
package checks

import (
	"bytes"
	"encoding/json"
	"fmt"
	"os"
	"os/exec"
	"path/filepath"
	"sort"
	"strconv"
	"strings"
	"sync"
	"time"

	"verif/explore"
	"verif/vrt"
)

// Ctx is the invocation context of one check run.
type Ctx struct {
	ID      string
	Tier    string
	Seed    int
	Root    string // /verif
	Start   time.Time
	NProc   int
	Worker  int // -1 in the master
	NWorker int
	Scen    string
	Args    []string
}

func (c *Ctx) Quick() bool { return c.Tier != "thorough" }

type CheckFunc func(c *Ctx) int

var Registry = map[string]CheckFunc{}
var WorkerRegistry = map[string]func(c *Ctx) interface{}{}

// ---------- evidence

type Evidence struct {
	PropertyID  string                 `json:"property_id"`
	Tier        string                 `json:"tier"`
	Seed        int                    `json:"seed"`
	Level       string                 `json:"level"`
	Coverage    map[string]interface{} `json:"coverage"`
	Assumptions []string               `json:"assumptions"`
	WallS       float64                `json:"wall_s"`
	Violations  int                    `json:"violations"`
}

func (c *Ctx) WriteEvidence(level string, cov map[string]interface{}, assumptions []string, violations int) {
	ev := Evidence{PropertyID: c.ID, Tier: c.Tier, Seed: c.Seed, Level: level, Coverage: cov, Assumptions: assumptions,
		WallS: time.Since(c.Start).Seconds(), Violations: violations}
	if ev.Tier != "thorough" {
		ev.Tier = "quick"
	}
	b, _ := json.MarshalIndent(ev, "", " ")
	dir := filepath.Join(c.Root, "evidence")
	_ = os.MkdirAll(dir, 0755)
	if err := os.WriteFile(filepath.Join(dir, c.ID+".json"), b, 0644); err != nil {
		fmt.Fprintln(os.Stderr, "cannot write evidence:", err)
	}
}

// ---------- known findings

type KnownFinding struct {
	Property string `json:"property"`
	Key      string `json:"key"`
	Status   string `json:"status"` // known | fixed
	Commit   string `json:"commit,omitempty"`
	What     string `json:"what"`
}

var knownOnce sync.Once
var knownList []KnownFinding

func (c *Ctx) Known() []KnownFinding {
	knownOnce.Do(func() {
		b, err := os.ReadFile(filepath.Join(c.Root, "known_findings.json"))
		if err == nil {
			_ = json.Unmarshal(b, &knownList)
		}
	})
	return knownList
}

// IsKnown reports whether a violation signature is a listed, still-open finding of this property.
func (c *Ctx) IsKnown(sig string) *KnownFinding {
	for i, k := range c.Known() {
		if k.Property == c.ID && k.Status == "known" && k.Key == sig {
			return &c.Known()[i]
		}
	}
	return nil
}

// SplitKnown separates violations into unlisted ones and listed known findings.
func (c *Ctx) SplitKnown(vs []explore.Violation) (viol []explore.Violation, known []string) {
	for _, v := range vs {
		if c.IsKnown(v.Sig) != nil {
			known = append(known, v.Sig)
		} else {
			viol = append(viol, v)
		}
	}
	return
}

// ---------- replay files and reporting

type Replay struct {
	Property string              `json:"property"`
	Scenario string              `json:"scenario"`
	Choices  []int               `json:"choices,omitempty"`
	Input    interface{}         `json:"input,omitempty"`
	Findings []explore.Violation `json:"findings"`
	Trace    string              `json:"trace"`
}

var replayN int

func (c *Ctx) WriteReplay(r Replay) string {
	r.Property = c.ID
	dir := filepath.Join(c.Root, "replays")
	_ = os.MkdirAll(dir, 0755)
	replayN++
	p := filepath.Join(dir, fmt.Sprintf("%s-%d.json", c.ID, replayN))
	b, _ := json.MarshalIndent(r, "", " ")
	_ = os.WriteFile(p, b, 0644)
	return p
}

func (c *Ctx) ReportViolation(r Replay) {
	p := c.WriteReplay(r)
	for _, f := range r.Findings {
		fmt.Printf("  finding[%s]: %s\n", f.Sig, f.Msg)
	}
	fmt.Printf("VIOLATION property=%s replay=%s\n", c.ID, p)
}

func (c *Ctx) ReportKnown(hits map[string]int) {
	var keys []string
	for k := range hits {
		keys = append(keys, k)
	}
	sort.Strings(keys)
	for _, k := range keys {
		what := k
		if kf := c.IsKnown(k); kf != nil {
			what = k + " — " + kf.What
		}
		fmt.Printf("KNOWN-FINDING: property=%s %s (hit in %d executions)\n", c.ID, what, hits[k])
	}
}

// ---------- worker processes

// RunWorkers starts n copies of this binary as workers of scenario scen and merges their Stats.
func (c *Ctx) RunWorkers(scen string, n int, extra ...string) (*explore.Stats, error) {
	self, err := os.Executable()
	if err != nil {
		return nil, err
	}
	type res struct {
		st  *explore.Stats
		err error
	}
	out := make([]res, n)
	var wg sync.WaitGroup
	for k := 0; k < n; k++ {
		wg.Add(1)
		go func(k int) {
			defer wg.Done()
			args := append([]string{c.ID, "--tier", c.Tier, "--worker", fmt.Sprintf("%d/%d", k, n), "--scenario", scen}, extra...)
			cmd := exec.Command(self, args...)
			cmd.Env = append(os.Environ(), "GOMAXPROCS=1", "GOGC=400")
			var so, se bytes.Buffer
			cmd.Stdout, cmd.Stderr = &so, &se
			if err := cmd.Run(); err != nil {
				out[k].err = fmt.Errorf("worker %d of %s: %v: %s", k, scen, err, tail(se.String(), 2000))
				return
			}
			st := explore.NewStats()
			if err := json.Unmarshal(so.Bytes(), st); err != nil {
				out[k].err = fmt.Errorf("worker %d of %s: bad output: %v: %s", k, scen, err, tail(so.String(), 500))
				return
			}
			out[k].st = st
		}(k)
	}
	wg.Wait()
	total := explore.NewStats()
	for _, r := range out {
		if r.err != nil {
			return nil, r.err
		}
		total.Merge(r.st)
		if r.st.BoundDone > total.BoundDone {
			total.BoundDone = r.st.BoundDone
		}
	}
	return total, nil
}

func tail(s string, n int) string {
	if len(s) > n {
		return s[len(s)-n:]
	}
	return s
}

func ParseWorker(s string) (k, n int) {
	p := strings.Split(s, "/")
	if len(p) != 2 {
		return -1, 0
	}
	k, _ = strconv.Atoi(p[0])
	n, _ = strconv.Atoi(p[1])
	return
}

// EngineError aborts the check with exit status 3 (never a verdict).
func EngineError(format string, a ...interface{}) int {
	fmt.Fprintf(os.Stderr, "ENGINE-ERROR: "+format+"\n", a...)
	return 3
}

// Confirm re-runs a failing choice sequence twice and requires identical observations.
func Confirm(sc explore.Scenario, base vrt.Options, f explore.Found) (bool, string) {
	for i := 0; i < 2; i++ {
		x := explore.RunPrefix(sc, base, f.Prefix)
		if x.Out.EngineErr != "" {
			return false, "replay: " + x.Out.EngineErr
		}
		if x.Out.Trace != f.Trace {
			return false, "replay produced a different observation trace (nondeterminism in the harness)"
		}
		if len(x.Out.Violations) == 0 {
			return false, "replay did not reproduce the violation"
		}
	}
	return true, ""
}
