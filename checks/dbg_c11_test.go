package checks

import (
	"encoding/json"
	"fmt"
	"os"
	"strings"
	"testing"
	_ "verif/gen/n1/server"
	_ "verif/gen/n2/server"
)

// DBGC11="f1/mode0/negative/none/value=false/queue=true" go test -run TestDbgC11 ./checks/
func TestDbgC11(t *testing.T) {
	want := os.Getenv("DBGC11")
	if want == "" {
		t.Skip()
	}
	for _, cs := range c11Cases(false) {
		if cs.Name != want {
			continue
		}
		r := evalC11(&Ctx{}, cs)
		b, _ := json.MarshalIndent(r, "", " ")
		fmt.Println(strings.ReplaceAll(string(b), "\\n", "\n"))
	}
}
