package checks

import (
	"encoding/json"
	"fmt"
	"strconv"
	"strings"

	"verif/explore"
	"verif/hapi"
	"verif/vrt"
	"verif/wire"
)

// refKV: a plain key-value store with expiry, with one concession to the register semantics the statement
// derives it from: a number and a byte string are different kinds of value; arithmetic on a string (or string
// operations on a number) leave the key "unknown" until it is SET or deleted again.
type kvEntry struct {
	s       string
	n       int64
	isNum   bool
	unknown bool
	expAt   int64 // 0 = none (virtual ns)
	nx      bool  // created by SETNX: slock holds it under a private LockId (see known findings)
	wild    bool  // a recorded deviation happened on this key: everything about it is open until DEL
}

type refKV struct {
	m map[string]*kvEntry
}

func (r *refKV) get(k string, now int64) *kvEntry {
	e := r.m[k]
	if e != nil && e.expAt > 0 && now >= e.expAt+2*sec {
		delete(r.m, k)
		return nil
	}
	return e
}

// maybeExpired: inside the window [deadline, deadline+2s] both answers are allowed.
func (r *refKV) maybeExpired(k string, now int64) bool {
	e := r.m[k]
	return e != nil && e.expAt > 0 && now >= e.expAt && now < e.expAt+2*sec
}

// apply returns the expected reply ("" = any reply accepted) for one command.
func (r *refKV) apply(args []string, now int64) string {
	cmd, k := strings.ToUpper(args[0]), args[1]
	if r.maybeExpired(k, now) {
		delete(r.m, k)
		r.m[k] = &kvEntry{unknown: true}
		// the key may or may not exist: everything about it is open until it is SET again
	}
	e := r.get(k, now)
	if e != nil && e.wild {
		if cmd == "DEL" {
			delete(r.m, k)
		}
		return ""
	}
	unknown := e != nil && e.unknown
	switch cmd {
	case "SET":
		r.m[k] = &kvEntry{s: args[2]}
		if len(args) == 5 && strings.ToUpper(args[3]) == "EX" {
			s, _ := strconv.Atoi(args[4])
			r.m[k].expAt = now + int64(s)*sec
		}
		if len(args) == 5 && strings.ToUpper(args[3]) == "PX" {
			s, _ := strconv.Atoi(args[4])
			r.m[k].expAt = now + int64(s)*ms
		}
		return "+OK"
	case "GET":
		switch {
		case unknown:
			return ""
		case e == nil:
			return "$nil"
		case e.isNum:
			return ":" + strconv.FormatInt(e.n, 10)
		}
		return "$" + e.s
	case "DEL":
		delete(r.m, k)
		if unknown {
			return ""
		}
		if e == nil {
			return ":0"
		}
		return ":1"
	case "SETNX":
		if unknown {
			return ""
		}
		if e == nil {
			r.m[k] = &kvEntry{s: args[2], nx: true}
			return ":1"
		}
		return ":0"
	case "GETSET":
		r.m[k] = &kvEntry{s: args[2]}
		switch {
		case unknown:
			return ""
		case e == nil:
			return "$nil"
		case e.isNum:
			return ""
		}
		return "$" + e.s
	case "APPEND":
		switch {
		case unknown:
			r.m[k] = &kvEntry{unknown: true}
			return ""
		case e != nil && e.isNum:
			// a plain store has no kinds of value: the counter's decimal text is appended to
			e.s, e.isNum, e.n = strconv.FormatInt(e.n, 10)+args[2], false, 0
		case e == nil:
			r.m[k] = &kvEntry{s: args[2]}
		default:
			e.s += args[2]
		}
		return ":" + strconv.Itoa(len(r.m[k].s))
	case "EXISTS":
		if unknown {
			return ""
		}
		if e == nil {
			return ":0"
		}
		return ":1"
	case "STRLEN":
		switch {
		case unknown || (e != nil && e.isNum):
			return ""
		case e == nil:
			return ":0"
		}
		return ":" + strconv.Itoa(len(e.s))
	case "INCR", "DECR", "INCRBY", "DECRBY":
		d := int64(1)
		if len(args) > 2 {
			d, _ = strconv.ParseInt(args[2], 10, 64)
		}
		if cmd[0] == 'D' {
			d = -d
		}
		switch {
		case unknown:
			r.m[k] = &kvEntry{unknown: true}
			return ""
		case e != nil && !e.isNum:
			// a plain store counts on the decimal text of the value and refuses anything else with an error
			v, err := strconv.ParseInt(e.s, 10, 64)
			if err != nil {
				return "-"
			}
			e.s, e.isNum, e.n = "", true, v+d
		case e == nil:
			r.m[k] = &kvEntry{isNum: true, n: d}
		default:
			e.n += d
		}
		return ":" + strconv.FormatInt(r.m[k].n, 10)
	case "EXPIRE":
		if unknown {
			return ""
		}
		if e == nil {
			return ":0"
		}
		s, _ := strconv.Atoi(args[2])
		e.expAt = now + int64(s)*sec
		return ":1"
	case "PERSIST":
		if unknown {
			return ""
		}
		if e == nil {
			return ":0"
		}
		e.expAt = 0
		return ":1"
	}
	return ""
}

var c15Writes = map[string]bool{"SET": true, "GETSET": true, "APPEND": true, "EXPIRE": true, "PERSIST": true, "INCR": true, "DECR": true, "INCRBY": true, "DECRBY": true}
var c15Refusal = map[string]bool{"$nil": true, ":0": true, "-ERR 8": true}

func c15TextAlphabet() []wStep {
	var a []wStep
	for _, k := range []string{"a", "b"} {
		a = append(a,
			wStep{Text: []string{"SET", k, "x"}}, wStep{Text: []string{"SET", k, "yy"}}, wStep{Text: []string{"GET", k}}, wStep{Text: []string{"DEL", k}},
			wStep{Text: []string{"SETNX", k, "z"}}, wStep{Text: []string{"GETSET", k, "w"}}, wStep{Text: []string{"APPEND", k, "pq"}},
			wStep{Text: []string{"EXISTS", k}}, wStep{Text: []string{"STRLEN", k}})
	}
	a = append(a, wStep{Text: []string{"SET", "a", "10"}}, wStep{Text: []string{"APPEND", "n", "x"}}, wStep{Text: []string{"INCR", "n"}}, wStep{Text: []string{"DECR", "n"}}, wStep{Text: []string{"INCRBY", "n", "5"}}, wStep{Text: []string{"DECRBY", "n", "7"}}, wStep{Text: []string{"INCRBY", "n", "0"}}, wStep{Text: []string{"EXISTS", "n"}},
		wStep{Text: []string{"GET", "n"}}, wStep{Text: []string{"DEL", "n"}}, wStep{Text: []string{"INCR", "a"}},
		wStep{Text: []string{"EXPIRE", "a", "2"}}, wStep{Text: []string{"PERSIST", "a"}}, wStep{Text: []string{"SET", "b", "v", "EX", "2"}}, wStep{Text: []string{"SET", "b", "v", "PX", "3500"}},
		wStep{Tick: 1 * sec}, wStep{Tick: 5 * sec})
	return a
}

// c15Same: the expected reply "-" stands for any error reply
func c15Same(want, got string) bool {
	if want == "-" {
		return strings.HasPrefix(got, "-")
	}
	return want == got
}

type c15TextArg struct {
	Seqs [][]int `json:"s"`
}

func c15TextCases(quick bool) []EnumCase {
	depth := 3
	if !quick {
		depth = 4
	}
	n := len(c15TextAlphabet())
	sq := seqsOf(n, depth)
	if !quick {
		// depth 4 over 31 symbols is 954k sequences: keep every sequence whose first two symbols touch key a or n
		var f [][]int
		for _, s := range sq {
			if len(s) < 4 || (s[0]%9 < 7 && s[0] < 25) {
				f = append(f, s)
			}
		}
		sq = f
	}
	var out []EnumCase
	chunk := 200
	for f := 0; f < len(sq); f += chunk {
		t := f + chunk
		if t > len(sq) {
			t = len(sq)
		}
		out = append(out, mkCase(fmt.Sprintf("kv/%d-%d", f, t-1), c15TextArg{sq[f:t]}))
	}
	return out
}

func evalC15Text(c *Ctx, cs EnumCase) EnumResult {
	var a c15TextArg
	if err := json.Unmarshal(cs.Arg, &a); err != nil {
		return EnumResult{Err: err.Error()}
	}
	alpha := c15TextAlphabet()
	res := EnumResult{Nontrivial: true}
	var vs []explore.Violation
	distinct := map[string]bool{}
	for _, sq := range a.Seqs {
		var steps []wStep
		var names []string
		for _, i := range sq {
			steps = append(steps, alpha[i])
			names = append(names, alpha[i].String())
		}
		res.Sub++
		var engErr string
		var got []string
		var want []string
		var class []string
		rt := vrt.Run(vrt.Options{MaxPoints: 100_000_000}, func() {
			node := hapi.Factories["n0"](hapi.Config{FastKeys: 4, Concurrent: 1})
			if err := node.Start(); err != nil {
				engErr = err.Error()
				return
			}
			vrt.AdvanceTo(1300 * ms)
			conn, err := wire.Dial(nodeAddr(0))
			if err != nil {
				engErr = err.Error()
				return
			}
			ref := &refKV{m: map[string]*kvEntry{}}
			for _, st := range steps {
				if st.Text == nil {
					vrt.AdvanceTo(vrt.Elapsed() + st.Tick)
					continue
				}
				_ = conn.Send(wire.Resp(st.Text...))
				r := conn.TakeText()
				// SETNX on an existing key waits for the connection's default timeout before it answers :0
				for w := 0; len(r) == 0 && w < 20; w++ {
					vrt.AdvanceTo(vrt.Elapsed() + 1*sec)
					conn.Pump()
					r = conn.TakeText()
				}
				reply := fmt.Sprintf("<%d replies>", len(r))
				if len(r) == 1 {
					reply = r[0]
				}
				// the command takes effect when it is answered (only SETNX ever waits)
				now, k, cmd := vrt.Elapsed(), st.Text[1], strings.ToUpper(st.Text[0])
				kind := "missing"
				var saved *kvEntry
				if e := ref.get(k, now); e != nil {
					cp := *e
					saved = &cp
					kind = "string"
					switch {
					case e.wild || e.unknown || ref.maybeExpired(k, now):
						kind = "unknown"
					case e.nx:
						kind = "setnx"
					case e.isNum:
						kind = "number"
					}
				}
				w := ref.apply(st.Text, now)
				cl := cmd + "-on-" + kind + "-key"
				if kind == "setnx" && c15Writes[cmd] && c15Refusal[reply] && w != reply {
					// slock refuses to touch a SETNX-created key until it is deleted: the key stays as it was
					ref.m[k] = saved
					if w == "" {
						w = reply
					}
				} else if kind == "missing" && (cmd == "EXPIRE" || cmd == "PERSIST") && reply == ":1" {
					// slock creates an empty hold here: from now on the key is outside what a plain store defines
					ref.m[k] = &kvEntry{wild: true}
				} else if kind == "setnx" && c15Writes[cmd] {
					if e := ref.m[k]; e != nil {
						e.nx = false
					}
				}
				if (kind == "string" && (cmd == "INCR" || cmd == "DECR" || cmd == "INCRBY" || cmd == "DECRBY") || kind == "number" && cmd == "APPEND") && !c15Same(w, reply) {
					// slock keeps numbers and byte strings apart: from here on the key is outside what a plain store defines
					ref.m[k] = &kvEntry{wild: true}
				}
				if cmd == "SETNX" && w == "" && kind == "unknown" && reply == ":1" {
					ref.m[k] = &kvEntry{s: st.Text[2], nx: true} // the old key had expired: SETNX created it
				}
				class = append(class, cl)
				want = append(want, w)
				if len(r) != 1 {
					got = append(got, fmt.Sprintf("<%d replies>", len(r)))
				} else {
					got = append(got, r[0])
				}
			}
		})
		if engErr != "" {
			return EnumResult{Err: engErr}
		}
		if rt.Crash != nil {
			vs = append(vs, explore.Violation{Sig: "C15:text-crash", Msg: fmt.Sprintf("sequence %v: %s\n%s", names, rt.Crash.Value, firstLines(rt.Crash.Stack, 14))})
			continue
		}
		distinct[strings.Join(got, "|")] = true
		for i := range want {
			if want[i] != "" && i < len(got) && !c15Same(want[i], got[i]) {
				sig := "C15:text-kv-differs/" + class[i]
				vs = append(vs, explore.Violation{Sig: sig, Msg: fmt.Sprintf("sequence %v: command %d answered %q, a plain key-value store answers %q (all replies %v)", names, i+1, got[i], want[i], got)})
				if c.IsKnown(sig) == nil {
					break // after an unlisted difference the reference no longer follows the server
				}
			}
		}
		res.Obs = fmt.Sprintf("%v => %v", names, got)
	}
	res.Viol = dedupe(vs)
	res.SubNT = len(distinct)
	return res
}
