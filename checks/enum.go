package checks

import (
	"encoding/json"
	"fmt"
	"sort"

	"verif/explore"
)

// EnumCase is one member of a finite enumeration (an input class, a fault position, ...).
type EnumCase struct {
	Name string          `json:"name"`
	Arg  json.RawMessage `json:"arg"`
}

type EnumResult struct {
	Viol       []explore.Violation `json:"v,omitempty"`
	Known      []string            `json:"kn,omitempty"`
	Obs        string              `json:"o"`
	Nontrivial bool                `json:"nt"`
	Err        string              `json:"e,omitempty"`
	Sub        int                 `json:"sub,omitempty"`   // sub-cases evaluated inside this case (default 1)
	SubNT      int                 `json:"subnt,omitempty"` // distinct non-trivial sub-cases (when Sub > 1)
}

// EnumPlan enumerates Cases completely; Eval runs one case on the implementation and judges it.
type EnumPlan struct {
	Name  string
	Cases func(quick bool) []EnumCase
	Eval  func(c *Ctx, cs EnumCase) EnumResult
}

type EnumSummary struct {
	Evaluations int
	DistinctNT  map[string]bool
	Violations  int
	KnownHits   map[string]int
	EngineErr   string
	Samples     []interface{}
	ByGroup     map[string]int
}

func mkCase(name string, arg interface{}) EnumCase {
	b, _ := json.Marshal(arg)
	return EnumCase{Name: name, Arg: b}
}

func (p *EnumPlan) Worker(c *Ctx) int {
	return ServeWorker(func(task []byte) interface{} {
		var cs EnumCase
		if err := json.Unmarshal(task, &cs); err != nil {
			return EnumResult{Err: err.Error()}
		}
		r := p.Eval(c, cs)
		r.Viol, r.Known = splitKnownAppend(c, r.Viol, r.Known)
		return r
	})
}

func splitKnownAppend(c *Ctx, vs []explore.Violation, known []string) ([]explore.Violation, []string) {
	v, k := c.SplitKnown(vs)
	return v, append(known, k...)
}

func groupOf(name string) string {
	for i := 0; i < len(name); i++ {
		if name[i] == '/' {
			return name[:i]
		}
	}
	return name
}

func (p *EnumPlan) Master(c *Ctx, sum *EnumSummary) {
	if sum.DistinctNT == nil {
		sum.DistinctNT = map[string]bool{}
		sum.KnownHits = map[string]int{}
		sum.ByGroup = map[string]int{}
	}
	cases := p.Cases(c.Quick())
	if len(cases) == 0 {
		return
	}
	// determinism gate on the first case
	// (signatures, not texts: which of several equivalent holds a message names may follow the iteration order
	// of a Go map inside the server, which the runtime does not control)
	gate := func(r EnumResult) string {
		var sigs []string
		for _, v := range r.Viol {
			sigs = append(sigs, v.Sig)
		}
		sort.Strings(sigs)
		return fmt.Sprintf("err=%q sigs=%v known=%d nt=%v sub=%d", r.Err, sigs, len(r.Known), r.Nontrivial, r.Sub)
	}
	r1, r2 := gate(p.Eval(c, cases[0])), gate(p.Eval(c, cases[0]))
	if r1 != r2 {
		sum.EngineErr = fmt.Sprintf("%s: two evaluations of case %s differ:\n%s\n%s", p.Name, cases[0].Name, r1, r2)
		return
	}
	pool, err := c.NewPool(p.Name, c.NProc)
	if err != nil {
		sum.EngineErr = err.Error()
		return
	}
	defer pool.Close()
	var tasks [][]byte
	for _, cs := range cases {
		b, _ := json.Marshal(cs)
		tasks = append(tasks, b)
	}
	outs, err := pool.Map(tasks)
	if err != nil {
		sum.EngineErr = err.Error()
		return
	}
	reported := map[string]bool{}
	viol := 0
	for i, o := range outs {
		var r EnumResult
		if err := json.Unmarshal(o, &r); err != nil {
			sum.EngineErr = "bad worker output: " + err.Error()
			return
		}
		if r.Err != "" {
			sum.EngineErr = fmt.Sprintf("%s case %s: %s", p.Name, cases[i].Name, r.Err)
			return
		}
		n := r.Sub
		if n == 0 {
			n = 1
		}
		sum.Evaluations += n
		sum.ByGroup[p.Name+":"+groupOf(cases[i].Name)] += n
		if r.Sub > 1 {
			for j := 0; j < r.SubNT; j++ {
				sum.DistinctNT[fmt.Sprintf("%s#%d", cases[i].Name, j)] = true
			}
		} else if r.Nontrivial {
			sum.DistinctNT[shortHash(cases[i].Name+"|"+r.Obs)] = true
		}
		for _, k := range r.Known {
			sum.KnownHits[k]++
		}
		if len(r.Viol) > 0 {
			sig := ""
			for _, v := range r.Viol {
				sig += v.Sig + ";"
			}
			if !reported[sig] {
				reported[sig] = true
				viol++
				c.ReportViolation(Replay{Scenario: p.Name, Input: cases[i], Findings: r.Viol, Trace: r.Obs})
			}
		}
		if len(sum.Samples) < 6 && i%(len(outs)/3+1) == 0 {
			sum.Samples = append(sum.Samples, map[string]interface{}{"enumeration": p.Name, "case": cases[i].Name, "observed": r.Obs})
		}
	}
	sum.Violations += viol
	fmt.Printf("  enumeration %-24s cases=%d evaluations=%d violations=%d\n", p.Name, len(cases), sum.Evaluations, viol)
}

func (s *EnumSummary) Coverage(rule string) map[string]interface{} {
	groups := map[string]int{}
	var gk []string
	for k, v := range s.ByGroup {
		groups[k] = v
		gk = append(gk, k)
	}
	sort.Strings(gk)
	if len(s.Samples) == 0 {
		s.Samples = []interface{}{"(no case)"}
	}
	return map[string]interface{}{
		"evaluations":         s.Evaluations,
		"distinct_nontrivial": len(s.DistinctNT),
		"rule":                rule,
		"samples":             s.Samples,
		"cases_per_group":     groups,
		"exhaustive":          true,
	}
}

// enumFuncs: optional scenario plans (full nodes, clusters) of checks registered with enumCheck.
var enumFuncs = map[string]func(q bool) *FuncPlan{}

// enumCheck registers a check made of enumeration plans (and optionally a schedule plan).
func enumCheck(id, level string, plans func(q bool) []*EnumPlan, sched func(q bool) *SchedPlan, rule string, assumptions []string) {
	Registry[id] = func(c *Ctx) int {
		ps := plans(c.Quick())
		var sp *SchedPlan
		if sched != nil {
			sp = sched(c.Quick())
		}
		var fp *FuncPlan
		if f := enumFuncs[id]; f != nil {
			fp = f(c.Quick())
		}
		if c.Worker >= 0 {
			if fp != nil && fp.find(c.Scen) != nil {
				return fp.Worker(c)
			}
			if sp != nil && sp.find(c.Scen) != nil {
				return sp.Worker(c)
			}
			for _, p := range ps {
				if p.Name == c.Scen {
					return p.Worker(c)
				}
			}
			return EngineError("unknown scenario %q", c.Scen)
		}
		if len(c.Args) == 2 && c.Args[0] == "--replay" && sp != nil {
			return sp.ReplayFile(c, c.Args[1])
		}
		sum := &EnumSummary{}
		for _, p := range ps {
			p.Master(c, sum)
			if sum.EngineErr != "" {
				return EngineError("%s", sum.EngineErr)
			}
		}
		cov := sum.Coverage(rule)
		viol := sum.Violations
		if sp != nil {
			sr := sp.Master(c)
			if sr.EngineErr != "" {
				return EngineError("%s", sr.EngineErr)
			}
			sc := sr.Coverage(rule, sp, c.Quick())
			cov["schedule_exploration"] = sc
			cov["evaluations"] = sum.Evaluations + int(sr.Total.Executions)
			cov["distinct_nontrivial"] = len(sum.DistinctNT) + sc["distinct_nontrivial"].(int)
			cov["samples"] = append(cov["samples"].([]interface{}), sc["samples"].([]interface{})...)
			cov["exhaustive"] = sc["exhaustive"]
			viol += sr.Violations
		}
		if fp != nil {
			fr := fp.Master(c)
			if fr.EngineErr != "" {
				return EngineError("%s", fr.EngineErr)
			}
			viol += fr.Violations
			cov["scenario_exploration"] = fp.Coverage(fr, "deviation-bounded schedule DFS of scenarios on real node copies", c.Quick())
			if n, ok := cov["evaluations"].(int); ok {
				cov["evaluations"] = n + int(fr.Total.Executions)
			}
		}
		c.ReportKnown(sum.KnownHits)
		c.WriteEvidence(level, cov, assumptions, viol)
		fmt.Printf("%s %s: %v evaluations, %v distinct non-trivial, %d violations\n", id, c.Tier, cov["evaluations"], cov["distinct_nontrivial"], viol)
		if viol > 0 {
			return 1
		}
		return 0
	}
}
