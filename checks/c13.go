package checks

import (
	"encoding/json"
	"fmt"
	"strings"

	"github.com/snower/slock/protocol"
	"verif/explore"
	"verif/hapi"
	"verif/vrt"
	"verif/wire"
)

// A stream is what one attacker connection sends, as a list of chunks (each chunk = one write, delivered
// and read by the server before the next one is written).
type c13Stream struct {
	Name     string   `json:"n"`
	Setup    [][]byte `json:"s,omitempty"` // sent first on a separate connection (builds key state)
	Chunks   [][]byte `json:"c"`
	RoleOnly bool     `json:"r,omitempty"`  // the stream legitimately changes the node's role: only "no crash" is judged
	Expect   int      `json:"e,omitempty"`  // >0: number of reply bytes the attacker connection must receive
	Follower bool     `json:"f,omitempty"`  // the stream (and the witness) go to a follower of a live leader: requests are forwarded
	HB       bool     `json:"hb,omitempty"` // track happens-before and report unordered map accesses (the pair the Go runtime kills the process for)
	Settle   int64    `json:"st,omitempty"` // >0: virtual ns to let pass after the stream (default 300 ms): sweepers and timers run meanwhile
	After    [][]byte `json:"a,omitempty"`  // sent after the stream, each on a connection of its own (readers of what the stream left behind)
}

func c13Cfg() hapi.Config { return hapi.Config{FastKeys: 4, Concurrent: 1} }

// runStream plays one stream against a fresh full node and reports a violation description or "".
func runStream(st *c13Stream) (viol *explore.Violation, obs string, engErr string) {
	var witnessMsg string
	rt := vrt.Run(vrt.Options{MaxPoints: 30_000_000, HB: true}, func() {
		addr := "127.0.0.1:5658"
		if st.Follower {
			cl, err := StartLeaderFollowers(1, nil)
			if err != nil {
				engErr = "cluster start: " + err.Error()
				return
			}
			addr = cl.Addrs[1]
		} else {
			node := hapi.Factories["n0"](c13Cfg())
			if err := node.Start(); err != nil {
				engErr = "node start: " + err.Error()
				return
			}
			vrt.AdvanceTo(1300 * ms)
		}
		if len(st.Setup) > 0 {
			sc, err := wire.Dial(addr)
			if err != nil {
				engErr = err.Error()
				return
			}
			for _, b := range st.Setup {
				_ = sc.Send(b)
			}
		}
		w, err := wire.Dial(addr)
		if err != nil {
			engErr = err.Error()
			return
		}
		// the witness proves it is a live binary connection before the attack
		_ = w.Send(wire.BinFrame(hapi.Cmd{Type: 1, Req: 101, Key: 200, Id: 200, Expried: 5}))
		if rs := w.TakeBin(); len(rs) != 1 || rs[0].Result != 0 {
			engErr = fmt.Sprintf("witness could not lock before the attack: %v", rs)
			return
		}
		a, err := wire.Dial(addr)
		if err != nil {
			engErr = err.Error()
			return
		}
		for _, ch := range st.Chunks {
			if len(ch) == 0 {
				continue
			}
			_ = a.Send(ch)
		}
		settle := int64(300 * ms)
		if st.Settle > 0 {
			settle = st.Settle
		}
		vrt.AdvanceTo(vrt.Elapsed() + settle)
		a.Pump()
		obs = fmt.Sprintf("attacker got %d bytes, closed=%v", len(a.In), a.Closed)
		for _, b := range st.After {
			rc, err := wire.Dial(addr)
			if err != nil {
				witnessMsg = "after the attack a new connection is refused: " + err.Error()
				return
			}
			_ = rc.Send(b)
			vrt.AdvanceTo(vrt.Elapsed() + 50*ms)
			rc.Pump()
			obs += fmt.Sprintf(" reader:%d", len(rc.In))
		}
		if st.RoleOnly {
			return
		}
		if st.Expect > 0 && len(a.In) != st.Expect {
			witnessMsg = fmt.Sprintf("the pipelined requests must be answered with %d bytes of replies, the connection received %d (closed=%v)", st.Expect, len(a.In), a.Closed)
			return
		}
		// the witness connection must be unaffected: nothing unsolicited, unlock + lock still answered
		w.Pump()
		if len(w.In) != 0 {
			witnessMsg = fmt.Sprintf("the witness connection received %d unsolicited bytes (%x...)", len(w.In), w.In[:min(len(w.In), 32)])
			return
		}
		_ = w.Send(wire.BinFrame(hapi.Cmd{Type: 2, Req: 102, Key: 200, Id: 200}))
		_ = w.Send(wire.BinFrame(hapi.Cmd{Type: 1, Req: 103, Key: 201, Id: 201, Expried: 5}))
		rs := w.TakeBin()
		if len(rs) != 2 || rs[0].Result != 0 || rs[1].Result != 0 || rs[0].Req[0] != 102 || rs[1].Req[0] != 103 {
			witnessMsg = fmt.Sprintf("after the attack the witness connection's unlock+lock were answered %s (closed=%v)", binStr(rs), w.Closed)
			return
		}
		// a client arriving afterwards must be able to announce itself and lock
		nw, err := wire.Dial(addr)
		if err != nil {
			witnessMsg = "after the attack a new connection is refused: " + err.Error()
			return
		}
		_ = nw.Send(frame(0, func(b []byte) { b[19], b[34] = 0x77, 0x77 }))
		_ = nw.Send(wire.BinFrame(hapi.Cmd{Type: 1, Req: 104, Key: 202, Id: 202, Expried: 5}))
		rs = nw.TakeBin()
		if len(rs) != 2 || rs[0].Type != 0 || rs[0].Result != 0 || rs[1].Result != 0 || rs[1].Req[0] != 104 {
			witnessMsg = fmt.Sprintf("after the attack a new connection's INIT + LOCK were answered %s (closed=%v)", binStr(rs), nw.Closed)
		}
	})
	if engErr != "" {
		return nil, obs, engErr
	}
	if rt.Diverged {
		return &explore.Violation{Sig: "C13:server-spins", Msg: "the node did not become quiescent (point budget exceeded): a connection handler loops"}, obs, ""
	}
	if rt.Crash != nil {
		where := crashSite(rt.Crash.Stack)
		return &explore.Violation{Sig: "C13:crash/" + where, Msg: fmt.Sprintf("server panics (%s) in %s: %s", rt.Crash.Value, rt.Crash.Thread, firstLines(rt.Crash.Stack, 16))}, obs, ""
	}
	if rt.Deadlock != "" {
		return &explore.Violation{Sig: "C13:deadlock", Msg: rt.Deadlock}, obs, ""
	}
	if mr := rt.MapRaceReport(); mr != "" {
		return &explore.Violation{Sig: "C13:concurrent-map-access", Msg: "two connections' handlers access a map without an ordering between them (a Go process dies with 'fatal error: concurrent map ...' when the two meet): " + mr}, obs, ""
	}
	if witnessMsg != "" {
		return &explore.Violation{Sig: "C13:other-connection-affected", Msg: witnessMsg}, obs, ""
	}
	return nil, obs, ""
}

func min(a, b int) int {
	if a < b {
		return a
	}
	return b
}

func binStr(rs []wire.BinReply) string {
	s := "["
	for _, r := range rs {
		s += fmt.Sprintf("r%d=%s ", r.Req[0], hapi.ResultName(r.Result))
	}
	return s + "]"
}

// crashSite: the first frame of the panic stack inside slock (function name), used as finding signature.
func crashSite(stack string) string {
	lines := strings.Split(stack, "\n")
	for i, l := range lines {
		if strings.HasPrefix(l, "panic(") {
			for _, m := range lines[i+1:] {
				if strings.Contains(m, "/server.") || strings.Contains(m, "/protocol.") {
					f := m
					if k := strings.LastIndex(f, "/"); k >= 0 {
						f = f[k+1:]
					}
					if k := strings.Index(f, "("); k > 0 && !strings.HasPrefix(f, "server.(") && !strings.HasPrefix(f, "protocol.(") {
						f = f[:k]
					}
					// strip argument list
					if k := strings.LastIndex(f, "("); k > 0 && strings.Contains(f[:k], ")") {
						f = f[:k]
					}
					return f
				}
			}
		}
	}
	return "unknown"
}

// ---- grammar

func frame(t uint8, f func(b []byte)) []byte {
	b := make([]byte, 64)
	b[0], b[1], b[2] = protocol.MAGIC, protocol.VERSION, t
	b[3] = 7 // request id
	if f != nil {
		f(b)
	}
	return b
}

func lockFrame(t uint8, flag, db uint8, timeout, tflag, expried, eflag, count uint16, rcount uint8) []byte {
	return frame(t, func(b []byte) {
		b[19], b[20] = flag, db
		b[36], b[52] = 1, 1 // lock id, key
		b[53], b[54], b[55], b[56] = byte(timeout), byte(timeout>>8), byte(tflag), byte(tflag>>8)
		b[57], b[58], b[59], b[60] = byte(expried), byte(expried>>8), byte(eflag), byte(eflag>>8)
		b[61], b[62], b[63] = byte(count), byte(count>>8), rcount
	})
}

func dataFrame(declared uint32, body []byte) []byte {
	return append([]byte{byte(declared), byte(declared >> 8), byte(declared >> 16), byte(declared >> 24)}, body...)
}

func whole(name string, parts ...[]byte) c13Stream {
	var all []byte
	for _, p := range parts {
		all = append(all, p...)
	}
	return c13Stream{Name: name, Chunks: [][]byte{all}}
}

func c13BinaryStreams(quick bool) []c13Stream {
	var out []c13Stream
	add := func(s c13Stream) { out = append(out, s) }
	flags := []uint8{0x00, 0x01, 0x02, 0x03, 0x08, 0x10, 0x18, 0x1f, 0xdf}
	tflags := []uint16{0, 0x0008, 0x0010, 0x0040, 0x0080, 0x0100, 0x0200, 0x0400, 0x0800, 0x1000, 0x2000, 0x4000, 0x8000, 0xffdf}
	eflags := []uint16{0, 0x0040, 0x0080, 0x0100, 0x0200, 0x0400, 0x1000, 0x2000, 0x4000, 0x8000, 0xffdf}
	vals := []uint16{0, 1, 0xffff}
	// every command type with patterned bodies
	for _, t := range []uint8{0, 1, 2, 3, 4, 5, 6, 7, 8, 9, 10, 11, 12, 13, 14, 64, 255} {
		for pi, pat := range []byte{0x00, 0xff, 0x01, 0x80} {
			if t == 7 && pat != 0 {
				continue // CALL with a huge content length is covered below
			}
			if (t == 1 || t == 2 || t == 8 || t == 9) && pat&0x20 != 0 {
				continue // data-carrying variants are enumerated separately
			}
			b := frame(t, func(b []byte) {
				for i := 19; i < 64; i++ {
					b[i] = pat
				}
			})
			add(whole(fmt.Sprintf("bin/type%d/pattern%d", t, pi), b))
		}
	}
	for _, mv := range [][2]byte{{0x00, 1}, {0x56, 0}, {0x56, 2}, {0xff, 0xff}} {
		b := frame(1, nil)
		b[0], b[1] = mv[0], mv[1]
		add(whole(fmt.Sprintf("bin/magic%x-version%x", mv[0], mv[1]), frame(5, nil), b))
	}
	// lock / unlock / will: single-field and pairwise flag variations, on a free key and on a held key
	held := [][]byte{lockFrame(1, 0, 0, 0, 0, 30, 0, 1, 2)}
	for _, t := range []uint8{1, 2, 8, 9} {
		for _, fl := range flags {
			for _, tf := range tflags {
				for _, te := range [][2]uint16{{0, 0}, {1, 1}, {0, 1}, {1, 0}} {
					add(whole(fmt.Sprintf("bin/t%d/flag%x/tflag%x/t%d-e%d", t, fl, tf, te[0], te[1]), lockFrame(t, fl, 0, te[0], tf, te[1], 0, 1, 1)))
				}
			}
			for _, ef := range eflags {
				s := whole(fmt.Sprintf("bin/t%d/flag%x/eflag%x/held", t, fl, ef), lockFrame(t, fl, 0, 1, 0, 1, ef, 1, 1))
				s.Setup = held
				add(s)
			}
		}
		if !quick {
			for _, tf := range tflags {
				for _, ef := range eflags {
					s := whole(fmt.Sprintf("bin/t%d/tflag%x/eflag%x/held", t, tf, ef), lockFrame(t, 0, 0, 1, tf, 2, ef, 1, 1))
					s.Setup = held
					add(s)
				}
			}
		}
		for _, db := range []uint8{0, 1, 254, 255} {
			for _, v := range vals {
				add(whole(fmt.Sprintf("bin/t%d/db%d/count%d", t, db, v), lockFrame(t, 0, db, v, 0, v, 0, v, uint8(v))))
			}
		}
	}
	// value frames: every declared length 0..64 with matching body, every op type / stage / flag byte
	setupVals := map[string][][]byte{
		"free":  nil,
		"bytes": {append(lockFrame(1, 0x20, 0, 0, 0, 30, 0, 5, 5), protocol.NewLockCommandDataSetString("abc").Data...)},
		"array": {append(lockFrame(1, 0x20, 0, 0, 0, 30, 0, 5, 5), protocol.NewLockCommandDataPushString("x").Data...)},
		"num":   {append(lockFrame(1, 0x20, 0, 0, 0, 30, 0, 5, 5), protocol.NewLockCommandDataIncrData(5).Data...)},
		// held by ANOTHER LockId whose hold is in the log already (persistence delay 0)
		"other-logged":       {func() []byte { b := lockFrame(1, 0, 0, 0, 0, 30, 0x0100, 5, 5); b[36] = 2; return b }()},
		"other-logged-bytes": {func() []byte { b := lockFrame(1, 0x20, 0, 0, 0, 30, 0x0100, 5, 5); b[36] = 2; return b }(), protocol.NewLockCommandDataSetString("abc").Data},
	}
	body := func(n int, typ, fl byte) []byte {
		b := make([]byte, n)
		if n > 0 {
			b[0] = typ
		}
		if n > 1 {
			b[1] = fl
		}
		for i := 2; i < n; i++ {
			b[i] = byte(i)
		}
		return b
	}
	lens := []int{0, 1, 2, 3, 4, 5, 6, 7, 8, 9, 10, 11, 12, 13, 14, 16, 18, 32, 62, 63, 64}
	for state, setup := range setupVals {
		for _, t := range []uint8{1, 2} {
			for _, typ := range []byte{0, 1, 2, 3, 4, 5, 6, 7, 8, 9, 63, 0x40, 0x85, 0xc6} {
				for _, fl := range []byte{0x00, 0x01, 0x02, 0x04, 0x10, 0x12, 0x20, 0x30, 0xff} {
					for _, n := range lens {
						if quick && n > 12 && n != 64 {
							continue
						}
						if quick && state != "free" && state != "bytes" && fl != 0 && fl != 0x10 {
							continue
						}
						s := whole(fmt.Sprintf("bin/data/%s/t%d/op%x/flag%x/len%d", state, t, typ, fl, n), lockFrame(t, 0x20, 0, 0, 0, 30, 0, 5, 5), dataFrame(uint32(n), body(n, typ, fl)))
						s.Setup = setup
						add(s)
					}
				}
			}
		}
	}
	// declared lengths beyond the body / beyond the cap
	for _, d := range []uint32{65, 4095, 4096, 4097, 1 << 20, 1<<20 + 1, 0x7fffffff, 0xffffffff} {
		add(whole(fmt.Sprintf("bin/data/declared%d-short-body", d), lockFrame(1, 0x20, 0, 0, 0, 30, 0, 5, 5), dataFrame(d, body(8, 0, 0))))
	}
	if !quick {
		big := make([]byte, 1<<20)
		big[0] = 0
		add(whole("bin/data/one-MiB-value", lockFrame(1, 0x20, 0, 0, 0, 30, 0, 5, 5), dataFrame(1<<20, big)))
	}
	// value operations with boundary arguments on every kind of existing value
	ops := map[string][]byte{
		"shift0": protocol.NewLockCommandDataShiftData(0).Data, "shift1": protocol.NewLockCommandDataShiftData(1).Data, "shift4": protocol.NewLockCommandDataShiftData(4).Data, "shift9": protocol.NewLockCommandDataShiftData(9).Data, "shiftmax": protocol.NewLockCommandDataShiftData(0xffffffff).Data,
		"pop0": protocol.NewLockCommandDataPopData(0).Data, "pop1": protocol.NewLockCommandDataPopData(1).Data, "pop9": protocol.NewLockCommandDataPopData(9).Data, "popmax": protocol.NewLockCommandDataPopData(0xffffffff).Data,
		"incr": protocol.NewLockCommandDataIncrData(-1).Data, "incr-short": {4, 0, 0, 0, 2, 1, 9, 9}, "incr-empty": {2, 0, 0, 0, 2, 1},
		"append": protocol.NewLockCommandDataAppendString("zz").Data, "append-empty": protocol.NewLockCommandDataAppendString("").Data,
		"push": protocol.NewLockCommandDataPushString("y").Data, "push-empty": protocol.NewLockCommandDataPushString("").Data,
		"unset": protocol.NewLockCommandDataUnsetData().Data, "set-empty": protocol.NewLockCommandDataSetString("").Data,
		"set-array":     protocol.NewLockCommandDataSetArray([][]byte{[]byte("a"), {}, []byte("b")}).Data,
		"prop-len-over": {8, 0, 0, 0, 0, 0x10, 0xff, 0xff, 1, 2}, "prop-len-exact": {8, 0, 0, 0, 0, 0x10, 2, 0, 1, 2}, "prop-only-header": {4, 0, 0, 0, 0, 0x10, 0, 0},
		"prop-incr-over": {12, 0, 0, 0, 2, 0x11, 0x20, 0, 1, 2, 3, 4, 5, 6, 7, 8},
	}
	// nested pipelines / executes, well-formed and truncated
	inner := protocol.NewLockCommandDataAppendString("q").Data
	ops["pipeline-ok"] = protocol.NewLockCommandDataPipelineData([]*protocol.LockCommandData{protocol.NewLockCommandDataAppendString("q"), protocol.NewLockCommandDataShiftData(1)}).Data
	ops["pipeline-empty"] = []byte{2, 0, 0, 0, 6, 0}
	ops["pipeline-sub-len0"] = append([]byte{6, 0, 0, 0, 6, 0}, 0, 0, 0, 0)
	ops["pipeline-sub-len1"] = append([]byte{7, 0, 0, 0, 6, 0}, 1, 0, 0, 0, 3)
	ops["pipeline-trailing3"] = append(append([]byte{byte(2 + len(inner) + 3), 0, 0, 0, 6, 0}, inner...), 9, 9, 9)
	ops["pipeline-sub-over"] = append([]byte{8, 0, 0, 0, 6, 0}, 0xff, 0, 0, 0, 3, 0)
	ops["pipeline-nested"] = protocol.NewLockCommandDataPipelineData([]*protocol.LockCommandData{protocol.NewLockCommandDataPipelineData([]*protocol.LockCommandData{protocol.NewLockCommandDataAppendString("n")})}).Data
	exec := &protocol.LockCommand{}
	exec.Magic, exec.Version, exec.CommandType = protocol.MAGIC, protocol.VERSION, 1
	exec.LockKey[15], exec.LockId[15], exec.Expried = 77, 77, 5
	for stage := uint8(0); stage < 4; stage++ {
		ops[fmt.Sprintf("execute-stage%d", stage)] = protocol.NewLockCommandDataExecuteData(exec, stage).Data
		ops[fmt.Sprintf("execute-stage%d-short", stage)] = []byte{10, 0, 0, 0, stage<<6 | 5, 0, 0x56, 1, 1, 0, 0, 0, 0, 0}
	}
	// EXECUTE frames whose embedded command itself claims to carry a value frame: every short / truncated form
	execD := &protocol.LockCommand{}
	execD.Magic, execD.Version, execD.CommandType, execD.Flag = protocol.MAGIC, protocol.VERSION, 1, 0x20
	execD.LockKey[15], execD.LockId[15], execD.Expried = 78, 78, 5
	eb := make([]byte, 64)
	_ = execD.Encode(eb)
	for stage := uint8(0); stage < 4; stage++ {
		nestedFrames := [][]byte{{}, {0}, {0, 0, 0, 0}, {1, 0, 0, 0}, {1, 0, 0, 0, 0}, {2, 0, 0, 0, 0}, {2, 0, 0, 0, 0, 0}, {3, 0, 0, 0, 0, 0x10, 9}, {8, 0, 0, 0, 0, 0}, {0xff, 0xff, 0xff, 0x7f, 0, 0}, {0xff, 0xff, 0xff, 0xff, 0, 0}, protocol.NewLockCommandDataSetString("v").Data}
		// embedded value frames that claim a property header they are too short for, for every operation type
		for opt := byte(0); opt < 8; opt++ {
			nestedFrames = append(nestedFrames, []byte{2, 0, 0, 0, opt, 0x10}, []byte{3, 0, 0, 0, opt, 0x10, 9}, []byte{4, 0, 0, 0, opt, 0x10, 0xff, 0xff}, []byte{7, 0, 0, 0, opt, 0x10, 3, 0, 1, 0xff, 0xff})
		}
		for vi, nested := range nestedFrames {
			body := append(append([]byte{}, eb...), nested...)
			n := 2 + len(body)
			ops[fmt.Sprintf("execute-stage%d-nested-data%d", stage, vi)] = append([]byte{byte(n), byte(n >> 8), 0, 0, stage<<6 | 5, 0}, body...)
		}
	}
	for name, d := range ops {
		for state, setup := range setupVals {
			for _, t := range []uint8{1, 2} {
				s := whole(fmt.Sprintf("bin/op/%s/on-%s/t%d", name, state, t), lockFrame(t, 0x20, 0, 0, 0, 30, 0, 5, 5), d)
				s.Setup = setup
				add(s)
				// also as an update of the existing hold and with the require-ack flag
				s2 := whole(fmt.Sprintf("bin/op/%s/on-%s/t%d/update", name, state, t), lockFrame(t, 0x22, 0, 0, 0, 30, 0, 5, 5), d)
				s2.Setup = setup
				add(s2)
				s3 := whole(fmt.Sprintf("bin/op/%s/on-%s/t%d/ack", name, state, t), lockFrame(t, 0x20, 0, 2, 0x1000, 30, 0, 5, 5), d)
				s3.Setup = setup
				add(s3)
				// ... and with the require-ack flag on a request that holds nothing (expiry 0: granted and over at once)
				s4 := whole(fmt.Sprintf("bin/op/%s/on-%s/t%d/ack-expiry0", name, state, t), lockFrame(t, 0x20, 0, 2, 0x1000, 0, 0, 5, 5), d)
				s4.Setup = setup
				add(s4)
			}
		}
	}
	// CALL frames: registered and unknown method names, content lengths
	for _, m := range []string{"", "LIST_LOCK", "LIST_LOCKED", "LIST_WAIT", "x", strings.Repeat("m", 38), strings.Repeat("m", 39)} {
		for _, content := range [][]byte{nil, {0}, {0x08, 0x00}, {0x08, 0x01, 0x12, 0x01, 0x61}, {0xff, 0xff, 0xff, 0xff}, {0x08, 0xff, 0x01}, {0x08, 0x80, 0x02}, {0x08, 0xac, 0x02, 0x12, 0x01, 0x61}, {0x08, 0xff, 0xff, 0xff, 0xff, 0x0f}} {
			cc := protocol.NewCallCommand(m, content)
			b := make([]byte, 64)
			_ = cc.Encode(b)
			add(whole(fmt.Sprintf("bin/call/%q/content%d", m, len(content)), b, content))
		}
	}
	for _, cl := range []uint32{1 << 20, 1<<20 + 1, 0xffffffff} {
		b := frame(7, func(b []byte) { b[20], b[21], b[22], b[23] = byte(cl), byte(cl>>8), byte(cl>>16), byte(cl>>24) })
		add(whole(fmt.Sprintf("bin/call/contentlen%d-no-body", cl), b))
	}
	// INIT then more, SUBSCRIBE variants
	add(whole("bin/init-twice", frame(0, func(b []byte) { b[19] = 9 }), frame(0, func(b []byte) { b[19] = 9 }), lockFrame(1, 0, 0, 0, 0, 5, 0, 0, 0)))
	return out
}

var textNames = []string{"SELECT", "TIMEOUT", "LOCK", "UNLOCK", "PUSH", "DEL", "SET", "APPEND", "GETSET", "SETEX", "PSETEX", "SETNX", "INCR", "INCRBY", "DECR", "DECRBY", "EXISTS", "EXPIRE", "PEXPIRE", "PEXPIREAT", "PERSIST", "GET", "STRLEN", "TYPE", "DUMP", "KEYS", "SCAN", "TTL", "PTTL",
	"BGREWRITEAOF", "REWRITEAOF", "ECHO", "PING", "QUIT", "INFO", "SHOW", "CONFIG", "CLIENT", "FLUSHDB", "FLUSHALL", "SLAVEOF", "REPLSET", "NOSUCH"}

func c13TextStreams(quick bool) []c13Stream {
	var out []c13Stream
	vals := []string{"", "0", "-1", "65536", "99999999999", "x", "k1", strings.Repeat("k", 16), strings.Repeat("a", 32), strings.Repeat("b", 33),
		"EX", "PX", "TX", "PTX", "NX", "XX", "ACK", "NAOF", "LOCK_ID", "FLAG", "TIMEOUT", "EXPRIED", "COUNT", "RCOUNT", "WILL", "MATCH", "*", "GET", "SET", "LIST", "KILL", "db", "lock", "wait", "config", "add", "remove", "127.0.0.1:1"}
	roleOnly := map[string]bool{"SLAVEOF": true, "REPLSET": true, "CONFIG": true, "CLIENT": true, "QUIT": true, "FLUSHDB": true, "FLUSHALL": true}
	add := func(name string, ro bool, args ...string) {
		out = append(out, c13Stream{Name: name, Chunks: [][]byte{wire.Resp(args...)}, RoleOnly: ro})
	}
	for _, n := range textNames {
		ro := roleOnly[n]
		add("text/"+n+"/0", ro, n)
		add("text/"+strings.ToLower(n)+"/0", ro, strings.ToLower(n))
		for _, a := range vals {
			add(fmt.Sprintf("text/%s/1/%q", n, a), ro, n, a)
			for _, b := range vals {
				if quick && len(b) > 16 {
					continue
				}
				add(fmt.Sprintf("text/%s/2/%q/%q", n, a, b), ro, n, a, b)
			}
		}
		// three to six arguments: a key, a value and option keywords with and without their argument
		for _, o1 := range vals {
			add(fmt.Sprintf("text/%s/3/k1/v/%q", n, o1), ro, n, "k1", "v", o1)
			for _, o2 := range []string{"", "0", "5", "-1", "x", "99999999999"} {
				add(fmt.Sprintf("text/%s/4/k1/v/%q/%q", n, o1, o2), ro, n, "k1", "v", o1, o2)
				if !quick {
					add(fmt.Sprintf("text/%s/4b/k1/%q/%q", n, o1, o2), ro, n, "k1", o1, o2)
					for _, o3 := range []string{"NX", "EX", "ACK", "LOCK_ID"} {
						add(fmt.Sprintf("text/%s/5/k1/v/%q/%q/%q", n, o1, o2, o3), ro, n, "k1", "v", o1, o2, o3)
						add(fmt.Sprintf("text/%s/6/k1/v/%q/%q/%q/1", n, o1, o2, o3), ro, n, "k1", "v", o1, o2, o3, "1")
					}
				}
			}
		}
	}
	// many holds of one connection outstanding at once, then all released (the connection's command pools fill up);
	// one chunk per command so that every command is processed before the next arrives
	for _, n := range []int{3, 15, 16, 17, 33, 63, 64, 65, 130} {
		var chunks [][]byte
		for i := 0; i < n; i++ {
			chunks = append(chunks, wire.Resp("LOCK", fmt.Sprintf("many%d", i), "LOCK_ID", fmt.Sprintf("m%d", i), "TIMEOUT", "0", "EXPRIED", "30"))
		}
		for i := 0; i < n; i++ {
			chunks = append(chunks, wire.Resp("UNLOCK", fmt.Sprintf("many%d", i), "LOCK_ID", fmt.Sprintf("m%d", i)))
		}
		out = append(out, c13Stream{Name: fmt.Sprintf("text/hold-%d-then-release", n), Chunks: chunks})
		var bin [][]byte
		bin = append(bin, frame(5, nil))
		for i := 0; i < n; i++ {
			bin = append(bin, wire.BinFrame(hapi.Cmd{Type: 1, Req: byte(i), DB: 2, Key: byte(i), Id: byte(i), Expried: 30}))
		}
		for i := 0; i < n; i++ {
			bin = append(bin, wire.BinFrame(hapi.Cmd{Type: 2, Req: byte(i), DB: 2, Key: byte(i), Id: byte(i)}))
		}
		out = append(out, c13Stream{Name: fmt.Sprintf("bin/hold-%d-then-release", n), Chunks: bin})
	}
	// text reads of a value that a binary client stored with a kind flag (array / key-value / property header) and
	// inner lengths of its own choosing
	for vi, val := range [][]byte{
		{0, 0x02, 0xff, 0xff, 0xff, 0x7f, 'a'},                // array, element length beyond the value
		{0, 0x02, 1, 0, 0, 0},                                 // array, element announced but missing
		{0, 0x02, 1, 0, 0},                                    // array, truncated length
		{0, 0x04, 0xff, 0, 0, 0, 'k'},                         // key-value, key length beyond the value
		{0, 0x04, 1, 0, 0, 0, 'k', 0xff, 0xff, 0, 0, 'v'},     // key-value, value length beyond the value
		{0, 0x04, 1, 0, 0, 0, 'k', 1, 0},                      // key-value, truncated value length
		{0, 0x10, 0xff, 0xff, 1, 2},                           // property header longer than the value
		{0, 0x12, 4, 0, 1, 1, 0, 'p', 0xff, 0xff, 0xff, 0x7f}, // property + array with a wild element length
		{0, 0x01, 1, 2, 3},                                    // number shorter than 8 bytes
		{0, 0x10, 3, 0, 1, 0xff, 0xff},                        // property area of the right size, property value length beyond it
		{0, 0x10, 4, 0, 1, 2, 0, 'p'},                         // property value one byte short
		{0, 0x10, 2, 0, 1, 9},                                 // property area ends inside a property header
		{0, 0x10, 6, 0, 2, 0, 0, 1, 0xff, 0x7f, 'v'},          // second property wild
	} {
		n := len(val)
		frameV := append([]byte{byte(n), byte(n >> 8), 0, 0}, val...)
		setup := wire.BinFrame(hapi.Cmd{Type: 1, Req: 1, Key: 'g', Id: 1, Expried: 60, Data: frameV})
		for _, cmd := range [][]string{{"GET", "g"}, {"STRLEN", "g"}, {"TYPE", "g"}, {"DUMP", "g"}, {"EXISTS", "g"}, {"KEYS", "*"}, {"SCAN", "0"}, {"TTL", "g"}, {"INCR", "g"}, {"APPEND", "g", "x"}, {"GETSET", "g", "y"}, {"LOCK", "g", "LOCK_ID", "z", "TIMEOUT", "0", "EXPRIED", "5"}, {"DEL", "g"}} {
			out = append(out, c13Stream{Name: fmt.Sprintf("text/read-of-binary-value%d/%s", vi, cmd[0]), Setup: [][]byte{setup}, Chunks: [][]byte{wire.Resp(cmd...)}})
		}
	}
	// malformed RESP
	for i, raw := range []string{"*\r\n", "*-1\r\n", "*0\r\n", "*1\r\n$-1\r\n", "*1\r\n$5\r\nab\r\n", "*2\r\n$3\r\nGET\r\n", "*99999999999\r\n", "$3\r\nGET\r\n", "GET k\r\n", "GET k\n", "\r\n", "*1\r\n$99999999999\r\n", "*1\r\n$3\rGET\r\n", "*1\n$3\nGET\n", "\x00\x00\x00\x00", "*1\r\n$4\r\nPING\r\n*1\r\n$4\r\nPING\r\n", "+OK\r\n", ":1\r\n", "-ERR x\r\n", strings.Repeat("A", 70), strings.Repeat("*1\r\n", 20)} {
		out = append(out, c13Stream{Name: fmt.Sprintf("text/raw/%d", i), Chunks: [][]byte{[]byte(raw)}})
	}
	return out
}

// splits: all chunkings for short streams, all 1- and 2-cut splits for representative longer ones.
func c13SplitStreams(quick bool) []c13Stream {
	var out []c13Stream
	allSplits := func(name string, b []byte) {
		n := len(b)
		for mask := 0; mask < 1<<(n-1); mask++ {
			var chunks [][]byte
			start := 0
			for i := 0; i < n-1; i++ {
				if mask&(1<<i) != 0 {
					chunks = append(chunks, b[start:i+1])
					start = i + 1
				}
			}
			chunks = append(chunks, b[start:])
			out = append(out, c13Stream{Name: fmt.Sprintf("%s/split%x", name, mask), Chunks: chunks})
		}
	}
	cuts := func(name string, b []byte, two bool, setup [][]byte) {
		n := len(b)
		for i := 1; i < n; i++ {
			out = append(out, c13Stream{Name: fmt.Sprintf("%s/cut%d", name, i), Chunks: [][]byte{b[:i], b[i:]}, Setup: setup})
			if two {
				for j := i + 1; j < n; j++ {
					if quick && (j-i)%7 != 1 && j != n-1 {
						continue
					}
					out = append(out, c13Stream{Name: fmt.Sprintf("%s/cut%d-%d", name, i, j), Chunks: [][]byte{b[:i], b[i:j], b[j:]}, Setup: setup})
				}
			}
		}
	}
	allSplits("split/text-ping", []byte("*1\r\n$4\r\nPING\r\n")[:12])
	allSplits("split/inline", []byte("GET k\r\nGET\r\n"))
	lockData := append(lockFrame(1, 0x20, 0, 0, 0, 30, 0, 5, 5), protocol.NewLockCommandDataSetString("v").Data...)
	// a binary connection is recognised by a 64-byte first read: the first frame is delivered whole, the
	// following ones under every split
	first := frame(5, nil)
	prefixed := func(b []byte) []byte { return b }
	_ = prefixed
	out2 := len(out)
	cuts("split/text-set", wire.Resp("SET", "k1", "v1", "EX", "5"), true, nil)
	cuts("split/text-lock", wire.Resp("LOCK", "k1", "TIMEOUT", "0", "EXPRIED", "5"), !quick, nil)
	_ = out2
	// binary: ping first (whole), then lock+value frame under 1- and 2-cut splits
	n := len(lockData)
	for i := 1; i < n; i++ {
		out = append(out, c13Stream{Name: fmt.Sprintf("split/bin-lock-data/cut%d", i), Chunks: [][]byte{first, lockData[:i], lockData[i:]}})
		for j := i + 1; j < n; j++ {
			if quick && (j-i)%9 != 1 {
				continue
			}
			out = append(out, c13Stream{Name: fmt.Sprintf("split/bin-lock-data/cut%d-%d", i, j), Chunks: [][]byte{first, lockData[:i], lockData[i:j], lockData[j:]}})
		}
	}
	// first read shorter than 64 bytes: the sniffer takes the binary stream for text
	for _, k := range []int{1, 2, 3, 10, 63} {
		out = append(out, c13Stream{Name: fmt.Sprintf("split/bin-first-read-%d", k), Chunks: [][]byte{lockData[:k], lockData[k:]}})
	}
	return out
}

type c13Arg struct {
	Group string `json:"g"`
	From  int    `json:"f"`
	To    int    `json:"t"`
}

// c13PipelineStreams: a batch of binary requests arriving in one read is answered through the connection's
// 4096-byte reply buffer. For EVERY value-frame length 6..1100 the key is given a value of that length and a
// batch of timeout-0 LOCKs (each answered TIMEOUT + the value) long enough to cross the buffer end is sent in one
// write; likewise for batches mixing replies with and without a value.
func c13PipelineStreams(quick bool) []c13Stream {
	var out []c13Stream
	for l := 0; l <= 1094; l++ {
		val := protocol.NewLockCommandDataSetString(strings.Repeat("v", l)).Data
		per := 64 + len(val)
		n := 4160/per + 3
		setup := wire.BinFrame(hapi.Cmd{Type: 1, Req: 1, Key: 50, Id: 1, Expried: 60, Data: val})
		var batch []byte
		for i := 0; i < n; i++ {
			batch = append(batch, wire.BinFrame(hapi.Cmd{Type: 1, Req: byte(10 + i), Key: 50, Id: byte(10 + i), Expried: 5})...)
		}
		out = append(out, c13Stream{Name: fmt.Sprintf("pipeline/value%d/x%d", len(val), n), Setup: [][]byte{setup}, Chunks: [][]byte{batch}, Expect: n * per})
		if l%7 == 0 {
			// every second request goes to a key without a value (64-byte reply)
			var mixed []byte
			exp := 0
			for i := 0; i < n+n/2; i++ {
				k := byte(50)
				exp += per
				if i%2 == 1 {
					k = 51 + byte(i)
					exp += 64 - per
				}
				mixed = append(mixed, wire.BinFrame(hapi.Cmd{Type: 1, Req: byte(10 + i), Key: k, Id: byte(10 + i), Expried: 5})...)
			}
			out = append(out, c13Stream{Name: fmt.Sprintf("pipeline-mixed/value%d/x%d", len(val), n+n/2), Setup: [][]byte{setup}, Chunks: [][]byte{mixed}, Expect: exp})
		}
	}
	return out
}

// c13KeyStateStreams: one lock-type frame with every pair of timeout-flag bits (and, thorough, expiry-flag
// bits), a LockId that is the holder's / older / newer, against every shape of key state a client can build
// beforehand: free, held, waiters but no holder (wait-when-unlocked), held with waiters, semaphore partly
// taken, holder being acknowledged. The branch taken inside LockDB.Lock / UnLock depends on exactly this
// triple, so each pair of flags meets each state.
func c13KeyStateStreams(quick bool) []c13Stream {
	var out []c13Stream
	idFrame := func(t uint8, flag uint8, id, ver byte, timeout, tflag, expried, eflag, count uint16, rcount uint8) []byte {
		b := lockFrame(t, flag, 0, timeout, tflag, expried, eflag, count, rcount)
		b[36], b[21] = id, ver
		return b
	}
	states := []struct {
		name  string
		setup [][]byte
	}{
		{"free", nil},
		{"held", [][]byte{idFrame(1, 0, 2, 5, 0, 0, 30, 0, 0, 0)}},
		{"waiters-no-holder", [][]byte{idFrame(1, 0, 2, 5, 5, 0x0200, 30, 0, 0, 0)}},
		{"held-and-waiter", [][]byte{idFrame(1, 0, 2, 5, 0, 0, 30, 0, 0, 0), idFrame(1, 0, 3, 5, 5, 0, 30, 0, 0, 0)}},
		{"semaphore-partly-taken", [][]byte{idFrame(1, 0, 2, 5, 0, 0, 30, 0, 2, 0), idFrame(1, 0, 3, 5, 0, 0, 30, 0, 2, 0)}},
		{"holder-awaiting-ack", [][]byte{idFrame(1, 0, 2, 5, 5, 0x1000, 30, 0, 0, 0)}},
		{"held-reentrant", [][]byte{idFrame(1, 0, 2, 5, 0, 0, 30, 0, 0, 3), idFrame(1, 0, 2, 5, 0, 0, 30, 0, 0, 3)}},
	}
	var pairs []uint16
	for i := 0; i < 16; i++ {
		pairs = append(pairs, 1<<i)
		for j := i + 1; j < 16; j++ {
			pairs = append(pairs, 1<<i|1<<j)
		}
	}
	pairs = append(pairs, 0)
	ids := [][2]byte{{2, 5}, {2, 1}, {1, 1}, {1, 5}, {1, 9}}
	for _, st := range states {
		for _, t := range []uint8{1, 2} {
			for _, id := range ids {
				for _, tf := range pairs {
					for _, tc := range [][2]uint16{{1, 0}, {1, 2}, {0, 0}, {0, 2}} {
						if quick && tc[0] == 0 && tf&0x4200 == 0 {
							continue
						}
						s := whole(fmt.Sprintf("bin/keystate/%s/t%d/id%d.%d/tflag%04x/timeout%d-count%d", st.name, t, id[0], id[1], tf, tc[0], tc[1]), idFrame(t, 0, id[0], id[1], tc[0], tf, 2, 0, tc[1], 0))
						s.Setup = st.setup
						out = append(out, s)
					}
				}
				if quick {
					continue
				}
				for _, ef := range pairs {
					s := whole(fmt.Sprintf("bin/keystate/%s/t%d/id%d.%d/eflag%04x", st.name, t, id[0], id[1], ef), idFrame(t, 0, id[0], id[1], 1, 0, 2, ef, 0, 0))
					s.Setup = st.setup
					out = append(out, s)
				}
			}
		}
	}
	return out
}

// c13HandoverStreams: a request that waits behind a holder (every single timeout-flag bit x every single
// expiry-flag bit x Count 0/1 x expiry 0/10), then the holder's unlock, the waiter's unlock and a fresh lock of the
// key: the hand-over from holder to waiter goes through different code for acknowledged / never-persisted /
// millisecond / priority requests, and what it leaves behind is exercised by the requests that follow.
func c13HandoverStreams(quick bool) []c13Stream {
	var out []c13Stream
	idFrame := func(t uint8, flag uint8, id byte, timeout, tflag, expried, eflag, count uint16, rcount uint8) []byte {
		b := lockFrame(t, flag, 0, timeout, tflag, expried, eflag, count, rcount)
		b[36] = id
		return b
	}
	bits := []uint16{0}
	for i := 0; i < 16; i++ {
		bits = append(bits, 1<<i)
	}
	for _, tf := range bits {
		for _, ef := range bits {
			for _, cnt := range []uint16{0, 1} {
				for _, ex := range []uint16{0, 10} {
					if quick && tf != 0x1000 && ef != 0x0200 && (cnt != 1 || ex != 10) {
						continue
					}
					s := whole(fmt.Sprintf("bin/handover/tflag%04x/eflag%04x/count%d/expiry%d", tf, ef, cnt, ex),
						idFrame(1, 0, 3, 5, tf, ex, ef, cnt, 0), // waits behind the holder (LockId 2)
						idFrame(2, 0, 2, 0, 0, 0, 0, 0, 0),      // the holder's unlock: hand-over
						idFrame(2, 0, 3, 0, 0, 0, 0, 0, 0),      // the waiter's unlock
						idFrame(1, 0, 4, 0, 0, 10, 0, 0, 0),     // a fresh lock of the key
						idFrame(2, 0, 4, 0, 0, 0, 0, 0, 0))
					s.Setup = [][]byte{idFrame(1, 0, 2, 0, 0, 30, 0, 0, 0)}
					out = append(out, s)
				}
			}
		}
	}
	return out
}

// c13InputEdgeStreams: more than one reader buffer (4096 bytes) of pipelined well-formed requests in ONE write, with a
// value frame early in the burst so that the frame boundaries fall on every residue of the buffer size, and with a
// value frame placed across the end of the buffer. Every request must be answered.
func c13InputEdgeStreams(quick bool) []c13Stream {
	var out []c13Stream
	ping := frame(5, nil)
	valLock := func(n int) []byte {
		body := make([]byte, n)
		if n > 1 {
			body[0], body[1] = 0, 0
		}
		return append(lockFrame(1, 0x20, 0, 0, 0, 5, 0, 5, 5), dataFrame(uint32(n), body)...)
	}
	for L := 2; L <= 70; L++ {
		all := valLock(L)
		for i := 0; i < 70; i++ {
			all = append(all, ping...)
		}
		out = append(out, c13Stream{Name: fmt.Sprintf("bin/input-edge/value%d-then-70-pings", L), Chunks: [][]byte{all}, Expect: 71 * 64})
	}
	for n := 58; n <= 64; n++ {
		for _, vl := range []int{2, 40, 64, 200, 300, 1000} {
			var all []byte
			for i := 0; i < n; i++ {
				all = append(all, ping...)
			}
			all = append(all, valLock(vl)...)
			all = append(all, ping...)
			all = append(all, ping...)
			out = append(out, c13Stream{Name: fmt.Sprintf("bin/input-edge/%d-pings-value%d", n, vl), Chunks: [][]byte{all}, Expect: (n + 3) * 64})
		}
	}
	return out
}

// c13FollowerStreams: text requests sent to a FOLLOWER, which re-encodes them as binary frames for the leader:
// LOCK / UNLOCK with every value of the FLAG option (any byte goes into the request's flag field, also the
// "a value frame follows" bit with no value option), as the first command of the connection and after a PING,
// and the value-carrying options next to an explicit FLAG
func c13FollowerStreams(quick bool) []c13Stream {
	var out []c13Stream
	flags := []int{0, 1, 2, 4, 8, 16, 32, 64, 128, 33, 34, 36, 40, 48, 96, 160, 255}
	if !quick {
		flags = nil
		for f := 0; f < 256; f++ {
			flags = append(flags, f)
		}
	}
	for _, cmd := range []string{"LOCK", "UNLOCK"} {
		for _, f := range flags {
			for _, ping := range []bool{false, true} {
				for _, opt := range []string{"", " SET v", " INCR 2"} {
					if opt != "" && (f&0x20 == 0 || cmd == "UNLOCK") && quick {
						continue
					}
					args := []string{cmd, fmt.Sprintf("fk%d", f), "LOCK_ID", "fid", "FLAG", fmt.Sprint(f), "TIMEOUT", "0", "EXPRIED", "5"}
					if opt != "" {
						args = append(args, strings.Fields(opt)...)
					}
					var chunks [][]byte
					if ping {
						chunks = append(chunks, wire.Resp("PING"))
					}
					chunks = append(chunks, wire.Resp(args...))
					out = append(out, c13Stream{Name: fmt.Sprintf("follower/text/%s-flag%d-ping=%v%s", cmd, f, ping, strings.ReplaceAll(opt, " ", "-")), Chunks: chunks, Follower: true})
				}
			}
		}
	}
	return out
}

// c13SyncHandshakeStreams: any client may claim to be a follower: CALL SYNC, the "sync started" marker, and from
// then on the leader reads 64-byte acknowledgement frames, each optionally followed by a value frame. Every
// acknowledgement flag byte with the "value follows" bit x every short / inconsistent value frame.
func c13SyncHandshakeStreams(quick bool) []c13Stream {
	var out []c13Stream
	cc := protocol.NewCallCommand("SYNC", nil)
	call := make([]byte, 64)
	_ = cc.Encode(call)
	started := frame(0, func(b []byte) {
		for i := 3; i < 19; i++ {
			b[i] = 0xff
		}
	})
	frames := [][]byte{{0, 0, 0, 0}, {1, 0, 0, 0, 0}, {2, 0, 0, 0, 0, 0}, {2, 0, 0, 0, 0, 0x10}, {3, 0, 0, 0, 0, 0x10, 9}, {4, 0, 0, 0, 0, 0x10, 0xff, 0xff}, {6, 0, 0, 0, 0, 0x10, 1, 0, 9, 9}, {8, 0, 0, 0, 2, 1, 1, 2, 3, 4, 5, 6}, protocol.NewLockCommandDataSetString("v").Data}
	for _, t := range []uint8{1, 2, 0, 9} {
		for _, fl := range []byte{0x20, 0x21, 0xff} {
			for vi, vf := range frames {
				for _, handshake := range []string{"full", "no-started-marker"} {
					ack := frame(t, func(b []byte) { b[20], b[36], b[52] = fl, 1, 1 })
					parts := [][]byte{call}
					if handshake == "full" {
						parts = append(parts, started)
					}
					parts = append(parts, ack, vf)
					st := whole(fmt.Sprintf("bin/sync-handshake/%s/ack-type%d/flag%02x/value%d", handshake, t, fl, vi), parts...)
					out = append(out, st)
				}
			}
		}
	}
	return out
}

// c13AckBesideLogHolderStreams: a hold that claims to come from the log (flag 0x04, with and without the never-log
// flag), then two acknowledgement-required requests of other LockIds for the same key with every combination of
// show / update flag, expiry 0 / 3 s and the never-log flag; five seconds pass (wait timeouts, expiries, sweepers).
func c13AckBesideLogHolderStreams(quick bool) []c13Stream {
	var out []c13Stream
	fr := func(seq, flag, id byte, timeout, tflag, expried, eflag uint16) []byte {
		b := lockFrame(1, flag, 0, timeout, tflag, expried, eflag, 0, 0)
		b[3], b[36], b[52] = seq, id, 0x32
		return b
	}
	type v struct {
		flag    byte
		expried uint16
		eflag   uint16
	}
	var vs []v
	for _, fl := range []byte{0x03, 0x02, 0x01, 0x00} {
		for _, e := range []uint16{0, 3} {
			for _, ef := range []uint16{0, 0x0200} {
				vs = append(vs, v{fl, e, ef})
			}
		}
	}
	for _, ef1 := range []uint16{0x0200, 0} {
		for i, a := range vs {
			for j, b := range vs {
				if quick && a.flag != 0x03 && b.flag != 0x03 {
					continue
				}
				st := whole(fmt.Sprintf("bin/ack-beside-log-holder/first-eflag%04x/second%d/third%d", ef1, i, j),
					fr(1, 0x04, 0x31, 0, 0, 2, ef1), fr(2, a.flag, 1, 1, 0x1000, a.expried, a.eflag), fr(3, b.flag, 2, 1, 0x1000, b.expried, b.eflag))
				st.Settle = 5 * sec
				out = append(out, st)
			}
		}
	}
	return out
}

// c13ListingVsWritersStreams: keys 1, 5, 9 share a fast slot (4 slots), so 5 and 9 live in the slow-key map. One
// connection has taken them; the attacker connection then runs a listing / inspection command (text and binary
// forms); afterwards other connections release key 5 and take key 13 (a delete from and an insert into that map)
// and take a key of another database. The run tracks happens-before: a listing that reads a shared map without
// being ordered before the later writes is reported, whatever the timing.
func c13ListingVsWritersStreams(quick bool) []c13Stream {
	var out []c13Stream
	kf := func(t uint8, key, id byte) []byte {
		b := lockFrame(t, 0, 0, 0, 0, 60, 0, 0, 0)
		b[36], b[52] = id, key
		return b
	}
	setup := [][]byte{kf(1, 1, 1), kf(1, 5, 1), kf(1, 9, 1)}
	after := [][]byte{kf(2, 5, 1), kf(1, 13, 2), func() []byte { b := kf(1, 5, 3); b[20] = 2; return b }(), wire.Resp("SET", "lv", "x"), wire.Resp("DEL", "lv")}
	var cmds [][]byte
	for _, t := range [][]string{{"KEYS", "*"}, {"KEYS", "nokey*"}, {"SCAN", "0"}, {"SCAN", "0", "MATCH", "*", "COUNT", "10"}, {"SHOW", "DBS"}, {"SHOW", "LOCKS"}, {"SHOW", "LOCK", "a"}, {"SHOW", "WAIT", "a"}, {"SHOW", "CLIENTS"}, {"INFO"}, {"CLIENT", "LIST"}, {"TYPE", "a"}, {"EXISTS", "a"}, {"DUMP", "a"}, {"TTL", "a"}, {"CONFIG", "GET", "*"}} {
		cmds = append(cmds, wire.Resp(t...))
	}
	for _, m := range []string{"LIST_LOCK", "LIST_LOCKED", "LIST_WAIT"} {
		for _, content := range [][]byte{nil, {0x08, 0x00}, {0x08, 0x00, 0x12, 0x10, 0, 0, 0, 0, 0, 0, 0, 0, 0, 0, 0, 0, 0, 0, 0, 5}} {
			cc := protocol.NewCallCommand(m, content)
			b := make([]byte, 64)
			_ = cc.Encode(b)
			cmds = append(cmds, append(b, content...))
		}
	}
	for i, cmd := range cmds {
		st := c13Stream{Name: fmt.Sprintf("listing-vs-writers/%d", i), Setup: setup, Chunks: [][]byte{cmd}, After: after, HB: true}
		out = append(out, st)
	}
	return out
}

// c13NestedValueStreams: an EXECUTE operation whose embedded LOCK carries a value frame of its own. Three lengths
// meet: the outer frame's, the embedded frame's and the property block's inside it. Every combination of embedded
// length x property length (inside / at the end of / beyond the embedded frame, beyond the outer frame) x padding
// behind the embedded frame x operation type is sent, for the stage that runs at once and the one that runs at
// the unlock; afterwards other connections read and reshape the inner key's value in every way the protocols offer
// (text GET / STRLEN / GETSET, binary SHIFT / POP / INCR / APPEND), because a value that slipped through with
// inconsistent lengths hurts its readers, not its writer.
func c13NestedValueStreams(quick bool) []c13Stream {
	var out []c13Stream
	emb := &protocol.LockCommand{}
	emb.Magic, emb.Version, emb.CommandType, emb.Flag = protocol.MAGIC, protocol.VERSION, 1, 0x20
	emb.LockKey[15], emb.LockId[15], emb.Expried, emb.Count = 'N', 78, 20, 5
	eb := make([]byte, 64)
	_ = emb.Encode(eb)
	reader := func(id byte, d []byte) []byte {
		return wire.BinFrame(hapi.Cmd{Type: 1, Req: id, Key: 'N', Id: id, Expried: 5, Count: 5, Data: d})
	}
	after := [][]byte{
		wire.Resp("GET", "N"), wire.Resp("STRLEN", "N"),
		reader(81, protocol.NewLockCommandDataShiftData(1).Data), reader(82, protocol.NewLockCommandDataPopData(1).Data),
		reader(83, []byte{4, 0, 0, 0, 2, 0, 9, 9}), reader(84, protocol.NewLockCommandDataAppendString("z").Data),
		wire.Resp("GETSET", "N", "w"), wire.Resp("GET", "N"),
	}
	stages := []uint8{0, 1}
	opts := []byte{0, 2, 3, 4, 7, 8}
	pads := []int{0, 1, 4, 24, 64}
	if quick {
		stages, opts, pads = []uint8{0}, []byte{0, 3, 7}, []int{0, 4, 24}
	}
	for _, stage := range stages {
		for _, opt := range opts {
			for _, d := range []int{4, 5, 8, 12} {
				for _, pl := range []int{0, 1, d - 4, d - 3, d, d + 3, d + 16, 60, 0xffff} {
					if pl < 0 || (quick && d == 12) {
						continue
					}
					for _, pad := range pads {
						nested := make([]byte, 4+d)
						nested[0], nested[4], nested[5], nested[6], nested[7] = byte(d), opt, 0x10, byte(pl), byte(pl>>8)
						for i := 8; i < len(nested); i++ {
							nested[i] = byte('a' + i)
						}
						body := append(append(append([]byte{}, eb...), nested...), make([]byte, pad)...)
						n := 2 + len(body)
						outer := append([]byte{byte(n), byte(n >> 8), 0, 0, stage<<6 | 5, 0}, body...)
						parts := [][]byte{lockFrame(1, 0x20, 0, 0, 0, 30, 0, 5, 5), outer}
						if stage == 1 {
							parts = append(parts, lockFrame(2, 0, 0, 0, 0, 0, 0, 0, 0))
						}
						st := whole(fmt.Sprintf("bin/nested-value/stage%d/op%d/len%d/prop%d/pad%d", stage, opt, d, pl, pad), parts...)
						st.After = after
						out = append(out, st)
					}
				}
			}
		}
	}
	return out
}

func c13Group(name string, quick bool) []c13Stream {
	switch name {
	case "nested-value":
		return c13NestedValueStreams(quick)
	case "sync-handshake":
		return c13SyncHandshakeStreams(quick)
	case "ack-beside-log-holder":
		return c13AckBesideLogHolderStreams(quick)
	case "listing-vs-writers":
		return c13ListingVsWritersStreams(quick)
	case "handover":
		return c13HandoverStreams(quick)
	case "input-edge":
		return c13InputEdgeStreams(quick)
	case "pipeline":
		return c13PipelineStreams(quick)
	case "binary":
		return c13BinaryStreams(quick)
	case "text":
		return c13TextStreams(quick)
	case "keystate":
		return c13KeyStateStreams(quick)
	case "follower":
		return c13FollowerStreams(quick)
	}
	return c13SplitStreams(quick)
}

func c13Cases(quick bool) []EnumCase {
	var out []EnumCase
	for _, g := range []string{"binary", "text", "split", "pipeline", "keystate", "handover", "input-edge", "follower", "nested-value", "sync-handshake", "ack-beside-log-holder", "listing-vs-writers"} {
		n := len(c13Group(g, quick))
		chunk := 60
		for f := 0; f < n; f += chunk {
			t := f + chunk
			if t > n {
				t = n
			}
			out = append(out, mkCase(fmt.Sprintf("%s/%d-%d", g, f, t-1), c13Arg{g, f, t}))
		}
	}
	return out
}

var c13Cache = map[string][]c13Stream{}

func evalC13(c *Ctx, cs EnumCase) EnumResult {
	var a c13Arg
	if err := json.Unmarshal(cs.Arg, &a); err != nil {
		return EnumResult{Err: err.Error()}
	}
	key := fmt.Sprintf("%s/%v", a.Group, c.Quick())
	streams, ok := c13Cache[key]
	if !ok {
		streams = c13Group(a.Group, c.Quick())
		c13Cache[key] = streams
	}
	res := EnumResult{}
	distinct := map[string]bool{}
	var vs []explore.Violation
	seen := map[string]bool{}
	for i := a.From; i < a.To && i < len(streams); i++ {
		st := &streams[i]
		v, obs, eerr := runStream(st)
		if eerr != "" {
			return EnumResult{Err: fmt.Sprintf("stream %s: %s", st.Name, eerr)}
		}
		res.Sub++
		distinct[obs] = true
		if v != nil && !seen[v.Sig] {
			seen[v.Sig] = true
			v.Msg = fmt.Sprintf("stream %s (chunks %s): %s", st.Name, chunkStr(st), v.Msg)
			vs = append(vs, *v)
		}
		res.Obs = st.Name + ": " + obs
	}
	res.Viol = vs
	res.SubNT = res.Sub
	res.Nontrivial = true
	return res
}

func chunkStr(st *c13Stream) string {
	s := ""
	for _, b := range st.Setup {
		s += fmt.Sprintf("setup:%x ", trunc(b, 96))
	}
	for _, b := range st.Chunks {
		if isPrintable(b) {
			s += fmt.Sprintf("%q ", trunc(b, 96))
		} else {
			s += fmt.Sprintf("%x ", trunc(b, 96))
		}
	}
	return s
}

func trunc(b []byte, n int) []byte {
	if len(b) > n {
		return b[:n]
	}
	return b
}

func isPrintable(b []byte) bool {
	for _, c := range b {
		if (c < 32 && c != '\r' && c != '\n') || c > 126 {
			return false
		}
	}
	return true
}

func init() {
	enumCheck("C13", "exploration",
		func(q bool) []*EnumPlan {
			return []*EnumPlan{{Name: "byte-streams", Cases: c13Cases, Eval: evalC13}}
		}, nil,
		"bounded grammar of client byte streams, enumerated completely, each played against a fresh full node (real accept loop, protocol sniffing, Server.handle, binary/text protocol handlers) over the in-memory network next to a witness connection: binary frames of every command type x patterned bodies, lock/unlock/will frames x flag / timeout-flag / expiry-flag products on free and held keys, value frames of every declared length 0..64 x operation type x stage x flag byte on keys without value / with bytes / array / number value, boundary value operations (shift/pop beyond length, short INCR, property headers beyond the frame, truncated and nested pipelines, executes of every stage), CALL frames, declared lengths up to the 1 MiB cap; every registered text command x 0..6 arguments from a keyword/boundary set, malformed RESP; every chunking of short streams and all 1-/2-cut splits of representative frames. A panic in any server thread is a crash; afterwards the witness connection must have received nothing unsolicited and still get correct replies. Every stream is a distinct case.",
		[]string{"no random or mutated streams: the claim is exhaustive over the stated grammar only", "administrative streams that legitimately affect the whole node (SLAVEOF, REPLSET, CONFIG, CLIENT, QUIT, FLUSHDB, FLUSHALL) are judged for crashes only", "SHUTDOWN is excluded (intended stop)"})
}
