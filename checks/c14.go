package checks

import (
	"crypto/md5"
	"encoding/hex"
	"fmt"
	"strings"

	"github.com/snower/slock/protocol"
	"verif/explore"
	"verif/hapi"
	"verif/vrt"
	"verif/wire"
)

// normKey is the documented normalisation of text keys / ids, computed independently of the converter:
// at most 16 bytes left-padded with zeros, 32 hex characters decoded, anything else MD5.
func normKey(s string) [16]byte {
	var k [16]byte
	switch {
	case len(s) <= 16:
		copy(k[16-len(s):], s)
	case len(s) == 32:
		if b, err := hex.DecodeString(s); err == nil {
			copy(k[:], b)
			return k
		}
		k = md5.Sum([]byte(s))
	default:
		k = md5.Sum([]byte(s))
	}
	return k
}

// textVsBinary: a LOCK / UNLOCK written in text form has the same effect and result fields as the
// equivalent binary command, for key / id strings of every length 0..64.
func c14TextVsBinary(quick bool) C14Group {
	g := C14Group{Name: "text-vs-binary"}
	var keys []string
	for n := 1; n <= 64; n++ {
		keys = append(keys, strings.Repeat("k", n-1)+"z")
		if n == 32 {
			keys = append(keys, "00112233445566778899aabbccddeeff", strings.Repeat("g", 32))
		}
	}
	distinct := map[string]bool{}
	for _, ks := range keys {
		for _, ids := range []string{"i", ks} {
			g.Evaluations++
			var msg, obs string
			rt := vrt.Run(vrt.Options{MaxPoints: 50_000_000}, func() {
				node := hapi.Factories["n0"](hapi.Config{FastKeys: 4, Concurrent: 1})
				if err := node.Start(); err != nil {
					msg = "engine: " + err.Error()
					return
				}
				vrt.AdvanceTo(1300 * ms)
				tc, _ := wire.Dial(nodeAddr(0))
				_ = tc.Send(wire.Resp("LOCK", ks, "LOCK_ID", ids, "TIMEOUT", "0", "EXPRIED", "50", "COUNT", "2", "RCOUNT", "3"))
				r1 := tc.TakeText()
				snap := node.Snapshot()
				want := normKey(ks)
				wid := normKey(ids)
				ksn := snap.Key(0, want)
				if ksn == nil || len(ksn.Holds) != 1 {
					msg = fmt.Sprintf("text LOCK %q: no hold on the documented key %x (reply %v; keys present: %s)", ks, want, r1, snap.UserString())
					return
				}
				h := ksn.Holds[0]
				if h.LockId != wid || h.Count != 1 || h.Rcount != 2 { // text COUNT / RCOUNT are maximum numbers, the binary fields are one less
					msg = fmt.Sprintf("text LOCK %q LOCK_ID %q: hold has id %x Count %d Rcount %d, documented id %x Count 1 Rcount 2 (text COUNT 2, RCOUNT 3)", ks, ids, h.LockId, h.Count, h.Rcount, wid)
					return
				}
				// the same hold is re-entered by the binary form and released by the text form
				bc, _ := wire.Dial(nodeAddr(0))
				_ = bc.Send(make64(5))
				bc.TakeBin()
				var kb, ib hapi.Cmd
				_ = kb
				_ = ib
				frame := make([]byte, 64)
				frame[0], frame[1], frame[2], frame[3] = 0x56, 1, 1, 9
				copy(frame[21:37], wid[:])
				copy(frame[37:53], want[:])
				frame[57] = 50
				frame[61], frame[63] = 1, 2
				_ = bc.Send(frame)
				rb := bc.TakeBin()
				if len(rb) != 1 || rb[0].Result != 0 || rb[0].Lock == nil || rb[0].Lock.Lrcount != 2 || rb[0].Lock.Lcount != 2 {
					msg = fmt.Sprintf("binary LOCK on the key/id taken by text LOCK %q was answered %v instead of re-entering it (depth 2)", ks, binStr(rb))
					return
				}
				_ = tc.Send(wire.Resp("UNLOCK", ks, "LOCK_ID", ids, "RCOUNT", "0"))
				r2 := tc.TakeText()
				if node.Snapshot().Key(0, want) != nil && len(node.Snapshot().Key(0, want).Holds) != 0 {
					msg = fmt.Sprintf("text UNLOCK %q did not release the hold (reply %v)", ks, r2)
					return
				}
				obs = fmt.Sprintf("%v | %v", r1, r2)
				if len(r1) != 1 || !strings.Contains(r1[0], "LCOUNT $1") || !strings.Contains(r1[0], "LRCOUNT $1") || !strings.Contains(r1[0], "$0 $OK") {
					msg = fmt.Sprintf("text LOCK %q reply %v does not carry result 0 / LCOUNT 1 / LRCOUNT 1 like the binary result", ks, r1)
				}
			})
			if rt.Crash != nil {
				msg = "crash: " + rt.Crash.Value
			}
			if strings.HasPrefix(msg, "engine:") {
				g.Violations = append(g.Violations, explore.Violation{Sig: "engine", Msg: msg})
				return g
			}
			distinct[fmt.Sprintf("%d|%d|%s", len(ks), len(ids), obs)] = true
			if msg != "" && len(g.Violations) < 4 {
				g.Violations = append(g.Violations, explore.Violation{Sig: "C14:text-vs-binary", Msg: msg})
			}
			if len(g.Samples) < 2 {
				g.Samples = append(g.Samples, fmt.Sprintf("LOCK %q LOCK_ID %q => %s", ks, ids, obs))
			}
		}
	}
	g.Distinct = len(distinct)
	return g
}

// c14TextReuse: the normalisation must not depend on what the connection did before. For every ordered pair
// of key lengths (l1, l2): one text connection locks and unlocks a key of length l1 (id of length l1), then
// locks a key of length l2; the hold must sit on the documented key / id, and the KV commands (SET/GET) must
// address the documented key as well.
func c14TextReuse(quick bool) C14Group {
	g := C14Group{Name: "text-normalisation-after-other-commands"}
	lens := []int{}
	for n := 1; n <= 40; n++ {
		lens = append(lens, n)
	}
	if !quick {
		for n := 41; n <= 64; n++ {
			lens = append(lens, n)
		}
	}
	mk := func(ch byte, n int) string {
		if n == 32 {
			return strings.Repeat(string([]byte{ch, 'f'}), 16)[:32] // stays hex for ch in a..f, not hex otherwise
		}
		return strings.Repeat(string([]byte{ch}), n)
	}
	distinct := map[string]bool{}
	for _, l1 := range lens {
		var msg string
		rt := vrt.Run(vrt.Options{MaxPoints: 200_000_000}, func() {
			node := hapi.Factories["n0"](hapi.Config{FastKeys: 4, Concurrent: 1})
			if err := node.Start(); err != nil {
				msg = "engine: " + err.Error()
				return
			}
			vrt.AdvanceTo(1300 * ms)
			tc, _ := wire.Dial(nodeAddr(0))
			for _, l2 := range lens {
				g.Evaluations++
				k1, k2 := mk('A', l1), mk('b', l2)
				_ = tc.Send(wire.Resp("LOCK", k1, "LOCK_ID", k1, "TIMEOUT", "0", "EXPRIED", "50"))
				_ = tc.Send(wire.Resp("UNLOCK", k1, "LOCK_ID", k1))
				tc.TakeText()
				_ = tc.Send(wire.Resp("LOCK", k2, "LOCK_ID", k2, "TIMEOUT", "0", "EXPRIED", "50"))
				r := tc.TakeText()
				snap := node.Snapshot()
				want := normKey(k2)
				ks := snap.Key(0, want)
				if ks == nil || len(ks.Holds) != 1 || ks.Holds[0].LockId != want {
					if msg == "" {
						msg = fmt.Sprintf("after LOCK/UNLOCK of a %d-byte key on the same connection, text LOCK %q LOCK_ID %q does not hold the documented key/id %x (reply %v; holds: %s)", l1, k2, k2, want, r, snap.UserString())
					}
				}
				_ = tc.Send(wire.Resp("UNLOCK", k2, "LOCK_ID", k2))
				tc.TakeText()
				// KV form: SET k2 then the value must sit on the documented key
				_ = tc.Send(wire.Resp("SET", k1, "x"))
				_ = tc.Send(wire.Resp("DEL", k1))
				_ = tc.Send(wire.Resp("SET", k2, "y"))
				tc.TakeText()
				ks = node.Snapshot().Key(0, want)
				if ks == nil || len(ks.Holds) != 1 {
					if msg == "" {
						msg = fmt.Sprintf("after SET/DEL of a %d-byte key on the same connection, text SET %q does not create the documented key %x (keys: %s)", l1, k2, want, node.Snapshot().UserString())
					}
				}
				_ = tc.Send(wire.Resp("DEL", k2))
				tc.TakeText()
				distinct[fmt.Sprintf("%d>%d", l1, l2)] = true
			}
		})
		if rt.Crash != nil {
			msg = "crash: " + rt.Crash.Value
		}
		if strings.HasPrefix(msg, "engine:") {
			g.Violations = append(g.Violations, explore.Violation{Sig: "engine", Msg: msg})
			return g
		}
		if msg != "" && len(g.Violations) < 3 {
			g.Violations = append(g.Violations, explore.Violation{Sig: "C14:text-normalisation-depends-on-history", Msg: msg})
		}
	}
	g.Samples = append(g.Samples, fmt.Sprintf("%d ordered pairs of key lengths on one connection each", len(distinct)))
	g.Distinct = len(distinct)
	return g
}

// c14TextHexCase: "32 hex characters decoded" holds for every spelling of a hex digit. One text connection; on a
// base of thirty-two '0' every position in turn carries a digit, a lower-case hex letter, an upper-case hex letter
// and two letters that are not hex digits - once in the key (fixed short id), once in the LOCK_ID (fixed short key) -
// plus all-upper / all-lower / alternating spellings. The hold must sit on the documented key under the documented id.
func c14TextHexCase(quick bool) C14Group {
	g := C14Group{Name: "text-32-character-keys-every-spelling"}
	var words []string
	for pos := 0; pos < 32; pos++ {
		for _, ch := range []byte{'7', 'c', 'C', 'g', 'G'} {
			b := []byte(strings.Repeat("0", 32))
			b[pos] = ch
			words = append(words, string(b))
		}
	}
	words = append(words, "00112233445566778899AABBCCDDEEFF", "00112233445566778899aabbccddeeff", "aAbBcCdDeEfF00112233445566778899", "FFFFFFFFFFFFFFFFFFFFFFFFFFFFFFFF", "ABCDEFABCDEFABCDEFABCDEFABCDEFAG")
	distinct := map[string]bool{}
	var msg string
	rt := vrt.Run(vrt.Options{MaxPoints: 200_000_000}, func() {
		node := hapi.Factories["n0"](hapi.Config{FastKeys: 4, Concurrent: 1})
		if err := node.Start(); err != nil {
			msg = "engine: " + err.Error()
			return
		}
		vrt.AdvanceTo(1300 * ms)
		tc, _ := wire.Dial(nodeAddr(0))
		for _, w := range words {
			for _, inKey := range []bool{true, false} {
				g.Evaluations++
				key, id := w, "i"
				if !inKey {
					key, id = "k", w
				}
				_ = tc.Send(wire.Resp("LOCK", key, "LOCK_ID", id, "TIMEOUT", "0", "EXPRIED", "50"))
				r := tc.TakeText()
				snap := node.Snapshot()
				wk, wi := normKey(key), normKey(id)
				ks := snap.Key(0, wk)
				if ks == nil || len(ks.Holds) != 1 || ks.Holds[0].LockId != wi {
					if msg == "" {
						msg = fmt.Sprintf("text LOCK %q LOCK_ID %q does not hold the documented key %x under the documented id %x (reply %v; holds: %s)", key, id, wk, wi, r, snap.UserString())
					}
				}
				_ = tc.Send(wire.Resp("UNLOCK", key, "LOCK_ID", id))
				tc.TakeText()
				distinct[fmt.Sprintf("%x/%x", wk, wi)] = true
			}
		}
	})
	if rt.Crash != nil {
		msg = "crash: " + rt.Crash.Value
	}
	if strings.HasPrefix(msg, "engine:") {
		g.Violations = append(g.Violations, explore.Violation{Sig: "engine", Msg: msg})
		return g
	}
	if msg != "" {
		g.Violations = append(g.Violations, explore.Violation{Sig: "C14:text-key-not-normalised-as-documented", Msg: msg})
	}
	g.Samples = append(g.Samples, fmt.Sprintf("%d spellings of 32-character keys / ids, %d distinct documented (key, id) pairs", 2*len(words), len(distinct)))
	g.Distinct = len(distinct)
	return g
}

// c14TextRememberedId: "UNLOCK key" without LOCK_ID uses the id of the connection's last LOCK (README). Between the
// LOCK (id given / generated) and the id-less UNLOCK every key-value command form runs on the same connection (on a
// new key, on an existing key, on a missing key; one or two of them): the UNLOCK must release the lock all the same,
// as the binary UNLOCK with that id does.
func c14TextRememberedId(quick bool) C14Group {
	g := C14Group{Name: "text-unlock-without-lock-id"}
	kvs := [][]string{nil, {"SET", "n1", "v"}, {"SET", "e", "w"}, {"DEL", "e"}, {"DEL", "missing"}, {"INCR", "c1"}, {"INCR", "ec"}, {"APPEND", "p1", "x"}, {"SETNX", "q1", "v"},
		{"GET", "e"}, {"EXISTS", "e"}, {"STRLEN", "e"}, {"EXPIRE", "e", "100"}, {"PERSIST", "e"}, {"GETSET", "e", "u"}, {"DECR", "c2"}, {"SETEX", "s1", "50", "v"}, {"PING"}}
	distinct := map[string]bool{}
	for _, withId := range []bool{true, false} {
		for i, kv1 := range kvs {
			for j, kv2 := range kvs {
				if j != 0 && (quick && i%3 != 0 || i == 0) {
					continue
				}
				g.Evaluations++
				var msg string
				rt := vrt.Run(vrt.Options{MaxPoints: 200_000_000}, func() {
					node := hapi.Factories["n0"](hapi.Config{FastKeys: 4, Concurrent: 1})
					if err := node.Start(); err != nil {
						msg = "engine: " + err.Error()
						return
					}
					vrt.AdvanceTo(1300 * ms)
					tc, _ := wire.Dial(nodeAddr(0))
					_ = tc.Send(wire.Resp("SET", "e", "old"))
					_ = tc.Send(wire.Resp("INCR", "ec"))
					tc.TakeText()
					lock := []string{"LOCK", "a", "TIMEOUT", "0", "EXPRIED", "50"}
					if withId {
						lock = append(lock, "LOCK_ID", "ida")
					}
					_ = tc.Send(wire.Resp(lock...))
					r0 := tc.TakeText()
					ka := normKey("a")
					if ks := node.Snapshot().Key(0, ka); ks == nil || len(ks.Holds) != 1 {
						msg = fmt.Sprintf("engine: text %v did not take the key (reply %v)", lock, r0)
						return
					}
					// a command may take a while to be answered (SETNX on an existing key waits for the connection's default
					// timeout of 15 s): the next one is only sent after its reply
					await := func() []string {
						r := tc.TakeText()
						for w := 0; len(r) == 0 && w < 200; w++ {
							vrt.AdvanceTo(vrt.Elapsed() + 100*ms)
							tc.Pump()
							r = tc.TakeText()
						}
						return r
					}
					for _, kv := range [][]string{kv1, kv2} {
						if kv != nil {
							_ = tc.Send(wire.Resp(kv...))
							if len(await()) == 0 {
								msg = fmt.Sprintf("engine: %v was not answered within 20 s", kv)
								return
							}
						}
					}
					_ = tc.Send(wire.Resp("UNLOCK", "a"))
					r := await()
					if ks := node.Snapshot().Key(0, ka); ks != nil && len(ks.Holds) != 0 {
						msg = fmt.Sprintf("connection history %v, %v, %v, UNLOCK a (no LOCK_ID): the lock taken by this connection's last LOCK is still held (reply %v); the binary UNLOCK with that id releases it", lock, kv1, kv2, r)
					}
					distinct[fmt.Sprint(r)] = true
				})
				if rt.Crash != nil {
					msg = "crash: " + rt.Crash.Value
				}
				if strings.HasPrefix(msg, "engine:") {
					g.Violations = append(g.Violations, explore.Violation{Sig: "engine", Msg: msg})
					return g
				}
				if msg != "" && len(g.Violations) < 3 {
					g.Violations = append(g.Violations, explore.Violation{Sig: "C14:text-unlock-without-id-misses-the-last-lock", Msg: msg})
				}
			}
		}
	}
	g.Samples = append(g.Samples, fmt.Sprintf("%d histories LOCK / key-value command(s) / UNLOCK without LOCK_ID", g.Evaluations))
	g.Distinct = len(distinct)
	return g
}

// c14TextOptionWords: the text options TIMEOUT and EXPRIED carry a 4-byte unsigned value: flag word in the high
// 16 bits, time in the low 16 bits. For every single flag bit (and a few combinations, and the extreme values)
// of either option the text LOCK must be answered like, and leave the same hold terms as, the binary LOCK with
// those fields.
func c14TextOptionWords(quick bool) C14Group {
	g := C14Group{Name: "text-option-flag-words"}
	type tc struct {
		name   string
		tf, ef uint16
		t, e   uint16
	}
	var cases []tc
	for b := 0; b < 16; b++ {
		cases = append(cases, tc{fmt.Sprintf("timeout-flag-bit-%d", b), 1 << b, 0, 0, 30}, tc{fmt.Sprintf("expried-flag-bit-%d", b), 0, 1 << b, 0, 30})
	}
	cases = append(cases, tc{"all-timeout-bits", 0xffff, 0, 0xffff, 30}, tc{"all-expried-bits", 0, 0xffff, 0, 0xffff}, tc{"both-top-bits", 0x8000, 0x8000, 5, 30}, tc{"no-flags-max-times", 0, 0, 0xffff, 0xffff})
	distinct := map[string]bool{}
	for _, k := range cases {
		g.Evaluations++
		run := func(text bool) (string, string) {
			var reply, state, err string
			rt := vrt.Run(vrt.Options{MaxPoints: 50_000_000}, func() {
				node := hapi.Factories["n0"](hapi.Config{FastKeys: 4, Concurrent: 1})
				if e := node.Start(); e != nil {
					err = "engine: " + e.Error()
					return
				}
				vrt.AdvanceTo(1300 * ms)
				conn, _ := wire.Dial(nodeAddr(0))
				// a holder, so that requests with a wait time queue instead of being granted
				_ = conn.Send(wire.BinFrame(hapi.Cmd{Type: 1, Req: 9, Key: 7, Id: 9, Expried: 600}))
				conn.TakeBin()
				if text {
					tcn, _ := wire.Dial(nodeAddr(0))
					tv, ev := uint32(k.tf)<<16|uint32(k.t), uint32(k.ef)<<16|uint32(k.e)
					_ = tcn.Send(wire.Resp("LOCK", "\x00\x00\x00\x00\x00\x00\x00\x00\x00\x00\x00\x00\x00\x00\x00\x08", "LOCK_ID", "\x00\x00\x00\x00\x00\x00\x00\x00\x00\x00\x00\x00\x00\x00\x00\x01", "TIMEOUT", fmt.Sprint(tv), "EXPRIED", fmt.Sprint(ev)))
					vrt.AdvanceTo(vrt.Elapsed() + 50*ms)
					tcn.Pump()
					r := tcn.TakeText()
					reply = strings.Join(r, "|")
					if i := strings.Index(reply, " "); len(r) == 1 && strings.HasPrefix(reply, "*[$") && i > 0 {
						reply = reply[3:i] // result code
					}
				} else {
					_ = conn.Send(wire.BinFrame(hapi.Cmd{Type: 1, Req: 1, Key: 8, Id: 1, Timeout: k.t, TimeoutFlag: k.tf, Expried: k.e, ExpriedFlag: k.ef}))
					vrt.AdvanceTo(vrt.Elapsed() + 50*ms)
					conn.Pump()
					for _, r := range conn.TakeBin() {
						if r.Req[0] == 1 && reply == "" {
							reply = fmt.Sprint(r.Result) // the answer, not a later expiry notice
						}
					}
				}
				var k8 [16]byte
				k8[15] = 8
				if ks := node.Snapshot().Key(0, k8); ks != nil {
					for _, h := range ks.Holds {
						state += fmt.Sprintf("H(id%x tf%x ef%x e%d)", h.LockId[15], h.TimeoutFlag, h.ExpriedFlag, h.Expried)
					}
					for _, w := range ks.Waiters {
						state += fmt.Sprintf("W(id%x t%d tf%x e%d ef%x)", w.LockId[15], w.Timeout, w.TimeoutFlag, w.Expried, w.ExpriedFlag)
					}
				}
			})
			if rt.Crash != nil {
				err = "crash: " + rt.Crash.Value
			}
			if err != "" {
				return err, ""
			}
			return reply, state
		}
		br, bs := run(false)
		tr, ts := run(true)
		if strings.HasPrefix(br, "engine:") || strings.HasPrefix(tr, "engine:") {
			g.Violations = append(g.Violations, explore.Violation{Sig: "engine", Msg: br + tr})
			return g
		}
		distinct[k.name+"|"+br+"|"+bs] = true
		if (br != tr || bs != ts) && len(g.Violations) < 4 {
			g.Violations = append(g.Violations, explore.Violation{Sig: "C14:text-option-word-differs-from-binary", Msg: fmt.Sprintf("%s (TIMEOUT %d, EXPRIED %d): the binary LOCK is answered %q and leaves [%s]; the text LOCK with the same 4-byte option values is answered %q and leaves [%s]", k.name, uint32(k.tf)<<16|uint32(k.t), uint32(k.ef)<<16|uint32(k.e), br, bs, tr, ts)})
		}
	}
	g.Samples = append(g.Samples, fmt.Sprintf("%d option words, each as binary fields and as text option values", len(cases)))
	g.Distinct = len(distinct)
	return g
}

// c14BinaryChunking: a binary frame (with and without a value frame behind it) that reaches the server in two
// reads, cut at every byte position, as the first frame of a connection and as a later one, must be answered like
// the same frame delivered whole.
func c14BinaryChunking(quick bool) C14Group {
	g := C14Group{Name: "binary-chunking"}
	distinct := map[string]bool{}
	frames := map[string][]byte{
		"lock":       wire.BinFrame(hapi.Cmd{Type: 1, Req: 3, Key: 4, Id: 5, Expried: 50, Count: 2, Rcount: 3}),
		"lock+value": wire.BinFrame(hapi.Cmd{Type: 1, Req: 3, Key: 4, Id: 5, Flag: 0x20, Expried: 50, Data: protocol.NewLockCommandDataSetString("hello").Data}),
	}
	for name, fr := range frames {
		for _, first := range []bool{true, false} {
			var whole string
			for cut := 0; cut < len(fr); cut++ {
				g.Evaluations++
				var got, msg string
				rt := vrt.Run(vrt.Options{MaxPoints: 50_000_000}, func() {
					node := hapi.Factories["n0"](hapi.Config{FastKeys: 4, Concurrent: 1})
					if err := node.Start(); err != nil {
						msg = "engine: " + err.Error()
						return
					}
					vrt.AdvanceTo(1300 * ms)
					c, _ := wire.Dial(nodeAddr(0))
					if !first {
						_ = c.Send(make64(5))
						c.TakeBin()
					}
					if cut > 0 {
						_ = c.Send(fr[:cut])
					}
					_ = c.Send(fr[cut:])
					vrt.AdvanceTo(vrt.Elapsed() + 100*ms)
					c.Pump()
					got = fmt.Sprintf("%s closed=%v raw=%d", binStr(c.TakeBin()), c.Closed, len(c.In))
				})
				if rt.Crash != nil {
					msg = "crash: " + rt.Crash.Value
				}
				if strings.HasPrefix(msg, "engine:") {
					g.Violations = append(g.Violations, explore.Violation{Sig: "engine", Msg: msg})
					return g
				}
				if cut == 0 {
					whole = got
				}
				distinct[name+fmt.Sprint(first)+got] = true
				if (msg != "" || got != whole) && len(g.Violations) < 4 {
					sig := "C14:binary-frame-depends-on-chunking"
					if first {
						sig += "/first-frame-of-a-connection"
					}
					g.Violations = append(g.Violations, explore.Violation{Sig: sig, Msg: fmt.Sprintf("frame %s (%d bytes), first frame of its connection: %v, delivered as %d + %d bytes: answered [%s] %s; delivered whole it is answered [%s]", name, len(fr), first, cut, len(fr)-cut, got, msg, whole)})
				}
			}
		}
	}
	g.Samples = append(g.Samples, "a LOCK frame and a LOCK frame followed by a value frame, every two-read split, as first and as later frame of a connection")
	g.Distinct = len(distinct)
	return g
}

// c14TextHistoryPlan: LOCK / UNLOCK histories through text connections vs the same histories in memory.
func c14TextHistoryPlan(quick bool) *SeqPlan {
	cfg := hapi.Config{FastKeys: 1, Concurrent: 1}
	f := func(c hapi.Cmd, fl uint8) hapi.Cmd { c.Flag = fl; return c }
	a := []SeqOp{
		op(0, L(0, 1, 1, 0, 60, 0, 0)), op(0, L(0, 1, 1, 0, 60, 1, 2)), op(1, L(0, 1, 2, 0, 60, 1, 0)), op(1, L(0, 1, 3, 0, 60, 0xffff, 1)),
		op(0, L(0, 2, 1, 0, 60, 0, 1)), op(1, f(L(0, 1, 1, 0, 50, 1, 2), 0x01)), op(0, f(L(0, 1, 1, 0, 90, 1, 2), 0x02)), op(1, L(0, 1, 4, 0, 0, 1, 0)),
		op(0, U(0, 1, 1)), op(0, hapi.Cmd{Type: 2, Key: 1, Id: 1, Rcount: 1}), op(1, U(0, 1, 2)), op(1, hapi.Cmd{Type: 2, Key: 1, Id: 9, Flag: 0x01}),
		op(0, hapi.Cmd{Type: 2, Key: 1, Id: 3, Flag: 0x02}), op(0, U(0, 2, 1)), op(1, U(0, 1, 3)),
		// a hold that ends by time while its connection is idle, then more requests on that connection
		op(0, L(0, 3, 5, 0, 1, 0, 0)), tick(3 * sec),
	}
	d := 3
	if !quick {
		d = 4
	}
	return &SeqPlan{Specs: []*SeqSpec{{Name: "text-vs-in-memory-histories", Cfg: cfg, Alphabet: a, Depth: d, Full: true, Text: true, NoDedupe: true, MaxStates: 600000}},
		Oracles: []SeqOracle{OracleFullVsMem("C14")}}
}

// c14TextCounts: the text options COUNT and RCOUNT are maximum numbers (binary field + 1); every boundary value
// must produce the hold the equivalent binary command produces and be echoed unchanged in the reply.
func c14TextCounts(quick bool) C14Group {
	g := C14Group{Name: "text-count-words"}
	distinct := map[string]bool{}
	for _, n := range []int{1, 2, 3, 255, 256, 257, 65535, 65536} {
		for _, r := range []int{1, 2, 3, 255, 256} {
			g.Evaluations++
			var msg string
			rt := vrt.Run(vrt.Options{MaxPoints: 50_000_000}, func() {
				node := hapi.Factories["n0"](hapi.Config{FastKeys: 4, Concurrent: 1})
				if err := node.Start(); err != nil {
					msg = "engine: " + err.Error()
					return
				}
				vrt.AdvanceTo(1300 * ms)
				tc, _ := wire.Dial(nodeAddr(0))
				_ = tc.Send(wire.Resp("LOCK", "cnt", "LOCK_ID", "i", "TIMEOUT", "0", "EXPRIED", "50", "COUNT", fmt.Sprint(n), "RCOUNT", fmt.Sprint(r)))
				rep := strings.Join(tc.TakeText(), "|")
				ks := node.Snapshot().Key(0, normKey("cnt"))
				if ks == nil || len(ks.Holds) != 1 {
					msg = fmt.Sprintf("text LOCK COUNT %d RCOUNT %d: no hold (reply %s)", n, r, rep)
					return
				}
				h := ks.Holds[0]
				if int(h.Count) != n-1 || int(h.Rcount) != r-1 {
					msg = fmt.Sprintf("text LOCK COUNT %d RCOUNT %d: the hold has Count %d Rcount %d, the equivalent binary command carries Count %d Rcount %d", n, r, h.Count, h.Rcount, n-1, r-1)
					return
				}
				if !strings.Contains(rep, fmt.Sprintf("$COUNT $%d ", n)) || !strings.Contains(rep, fmt.Sprintf("$RCOUNT $%d", r)) || !strings.Contains(rep, "$LCOUNT $1 ") || !strings.Contains(rep, "$LRCOUNT $1 ") {
					msg = fmt.Sprintf("text LOCK COUNT %d RCOUNT %d is answered %s: the reply must echo COUNT %d and RCOUNT %d (binary result fields Count %d, Rcount %d) with LCOUNT 1 / LRCOUNT 1", n, r, rep, n, r, n-1, r-1)
				}
				distinct[rep] = true
			})
			if rt.Crash != nil {
				msg = "crash: " + rt.Crash.Value
			}
			if strings.HasPrefix(msg, "engine:") {
				g.Violations = append(g.Violations, explore.Violation{Sig: "engine", Msg: msg})
				return g
			}
			if msg != "" && len(g.Violations) < 4 {
				g.Violations = append(g.Violations, explore.Violation{Sig: "C14:text-count-word-differs-from-binary", Msg: msg})
			}
		}
	}
	g.Samples = append(g.Samples, "COUNT in {1,2,3,255,256,257,65535,65536} x RCOUNT in {1,2,3,255,256}")
	g.Distinct = len(distinct)
	return g
}

func init() {
	Registry["C14"] = func(c *Ctx) int {
		cp := c14ConnPlan(c.Quick())
		tp := c14TextHistoryPlan(c.Quick())
		if c.Worker >= 0 {
			if tp.find(c.Scen) != nil {
				return tp.Worker(c)
			}
			return cp.Worker(c)
		}
		if len(c.Args) == 2 && c.Args[0] == "--replay" {
			return cp.ReplayFile(c, c.Args[1])
		}
		groups := RunC14Codec(c.Quick())
		groups = append(groups, c14TextVsBinary(c.Quick()), c14TextReuse(c.Quick()), c14TextHexCase(c.Quick()), c14TextRememberedId(c.Quick()), c14TextOptionWords(c.Quick()), c14TextCounts(c.Quick()), c14BinaryChunking(c.Quick()), c14ValueFrames(c.Quick()))
		evals, distinct, viol := 0, 0, 0
		var samples []interface{}
		per := map[string]interface{}{}
		known := map[string]int{}
		for _, g := range groups {
			evals += g.Evaluations
			distinct += g.Distinct
			per[g.Name] = map[string]int{"evaluations": g.Evaluations, "distinct": g.Distinct}
			for _, s := range g.Samples {
				if len(samples) < 12 {
					samples = append(samples, map[string]string{"group": g.Name, "case": s})
				}
			}
			vs, kn := c.SplitKnown(g.Violations)
			for _, k := range kn {
				known[k]++
			}
			reported := map[string]bool{}
			for _, v := range vs {
				if v.Sig == "engine" {
					return EngineError("%s", v.Msg)
				}
				if reported[v.Sig] {
					continue
				}
				reported[v.Sig] = true
				viol++
				c.ReportViolation(Replay{Scenario: g.Name, Findings: []explore.Violation{v}, Trace: v.Msg})
			}
			fmt.Printf("  group %-24s evaluations=%d distinct=%d violations=%d\n", g.Name, g.Evaluations, g.Distinct, len(vs))
		}
		c.ReportKnown(known)
		sres := cp.Master(c)
		if sres.EngineErr != "" {
			return EngineError("%s", sres.EngineErr)
		}
		viol += sres.Violations
		evals += int(sres.Total.Executions)
		ts := tp.Master(c)
		if ts.EngineErr != "" {
			return EngineError("%s", ts.EngineErr)
		}
		viol += ts.Violations
		evals += ts.Trans
		per["text-histories"] = ts.Coverage(tp, "every history up to the depth of LOCK / UNLOCK requests that are answered at once (Counts 0/1/0xffff, Rcounts 0/1/2, show and update flags, unlock-first, cancel flag, two clients, two keys) executed through TEXT connections of a full node and through in-memory protocol objects: result code, LCOUNT, LRCOUNT and LOCK_ID of every reply and the holders after every step must agree")
		per["schedules"] = cp.Coverage(sres, "deviation-bounded schedule DFS (fine mode: every mutex operation of the server is a choice point) of two server threads delivering results to one binary connection of a full node; the frames the client receives must be exactly the results produced for it", c.Quick())
		if len(samples) == 0 {
			samples = append(samples, "none")
		}
		c.WriteEvidence("exploration", map[string]interface{}{
			"evaluations": evals, "distinct_nontrivial": distinct, "samples": samples, "groups": per, "exhaustive": true,
			"rule": "nested-loop enumerations on the plain protocol package: encode->decode identity of all 20 command/result types over products of per-field boundary sets; README byte offsets of the lock command and result; decode->encode identity on every defined byte for all single-byte and in-field two-byte variations of base frames; BuildRequest/BuildResponse output parsed back under every chunking of short encodings and all 1-/2-(3-)cut splits of longer ones; a text rendering for every result code; plus text LOCK/UNLOCK vs the binary form on a full node for key/id strings of every length 1..64 (documented normalisation computed independently). distinct = distinct frames / distinct (args, chunking) pairs / distinct replies",
		}, []string{"per-field independence of the fixed-layout codecs (single- and two-byte variations are complete under it)", "long encodings: cut positions restricted to the first/last 40 bytes and around CRLF boundaries", "key/id normalisation as documented: <=16 bytes left-padded, 32 hex decoded, else MD5"}, viol)
		fmt.Printf("C14 %s: %d evaluations, %d distinct, %d violations\n", c.Tier, evals, distinct, viol)
		if viol > 0 {
			return 1
		}
		return 0
	}
}
