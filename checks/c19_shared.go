package checks

import (
	"encoding/json"
	"fmt"
	"strings"

	"verif/explore"
	cl "verif/gen/n0/client"
	"verif/hapi"
	"verif/vrt"
)

// Shared primitive objects over time: ONE client.RWLock object is used by several readers whose read
// sections overlap (the object keeps a list of the read locks it holds and RUnlock picks one of them), while
// virtual time passes and a writer on another connection try-locks.
//
// Every history over the alphabet below is played against a full node through the real client:
//
//	E   a new reader enters: rw.RLock() on the shared object
//	L/N/M the oldest / newest / middle reader inside leaves: rw.RUnlock() (the same call; which reader it
//	    is only matters for how long the others may still stay)
//	T   virtual time advances by c19Tick
//	W   a writer on a second connection try-locks (timeout 0) its own RWLock object on the key and, when
//	    admitted, unlocks again at once
//
// Only histories a correct user can produce are enumerated: no reader stays inside longer than two ticks
// (3.4 s), which is below the minimum lifetime of a read lock (expiry 5 s, second-granular: at least 4 s).
// Oracle: every RLock/RUnlock succeeds, and the writer is admitted exactly when no reader is inside.
const c19Tick = 1700 * ms
const c19Expiry = 5

type c19SharedArg struct {
	Seqs []string `json:"s"`
}

// c19SharedHistories enumerates all legitimate histories up to length n with at most maxIn readers inside
// and at most maxT ticks; quick: a history ends with its only W, thorough: W anywhere.
func c19SharedHistories(n, maxIn, maxT int, wAnywhere bool) []string {
	var out []string
	var rec func(h string, ages []int, ticks int)
	rec = func(h string, ages []int, ticks int) {
		if len(h) > 0 && h[len(h)-1] == 'W' {
			out = append(out, h)
			if !wAnywhere {
				return
			}
		}
		if len(h) == n {
			return
		}
		// W
		if len(h) > 0 && h[len(h)-1] != 'W' {
			rec(h+"W", ages, ticks)
		}
		if len(h) == n-1 {
			return // the last event of a useful history is the observation
		}
		if len(ages) < maxIn {
			rec(h+"E", append(append([]int{}, ages...), 0), ticks)
		}
		if len(ages) > 0 {
			rec(h+"L", append([]int{}, ages[1:]...), ticks) // the oldest reader leaves
		}
		if len(ages) > 1 {
			rec(h+"N", append([]int{}, ages[:len(ages)-1]...), ticks) // the newest reader leaves
		}
		if len(ages) > 2 {
			rec(h+"M", append(append([]int{}, ages[:1]...), ages[2:]...), ticks) // the one in the middle leaves
		}
		if ticks < maxT {
			ok := true
			na := make([]int, len(ages))
			for i, a := range ages {
				na[i] = a + 1
				if na[i] > 2 {
					ok = false
				}
			}
			if ok {
				rec(h+"T", na, ticks+1)
			}
		}
	}
	rec("", nil, 0)
	return out
}

func c19SharedCases(quick bool) []EnumCase {
	var hs []string
	if quick {
		hs = c19SharedHistories(8, 2, 4, false)
	} else {
		hs = c19SharedHistories(10, 3, 6, true)
	}
	var out []EnumCase
	chunk := 40
	for f := 0; f < len(hs); f += chunk {
		t := f + chunk
		if t > len(hs) {
			t = len(hs)
		}
		out = append(out, mkCase(fmt.Sprintf("rwlock-shared-object/%d-%d", f, t-1), c19SharedArg{hs[f:t]}))
	}
	return out
}

func evalC19Shared(c *Ctx, cs EnumCase) EnumResult {
	var a c19SharedArg
	if err := json.Unmarshal(cs.Arg, &a); err != nil {
		return EnumResult{Err: err.Error()}
	}
	res := EnumResult{Nontrivial: true}
	distinct := map[string]bool{}
	for _, h := range a.Seqs {
		res.Sub++
		var engErr string
		var log []string
		var viol *explore.Violation
		rt := vrt.Run(vrt.Options{MaxPoints: 100_000_000}, func() {
			node := hapi.Factories["n0"](hapi.Config{FastKeys: 4, Concurrent: 1})
			if err := node.Start(); err != nil {
				engErr = err.Error()
				return
			}
			vrt.AdvanceTo(1300 * ms)
			var cs []*cl.Client
			for i := 0; i < 2; i++ {
				k := cl.NewClient("127.0.0.1", 5658)
				if err := k.Open(); err != nil {
					engErr = "client open: " + err.Error()
					return
				}
				cs = append(cs, k)
			}
			vrt.Quiesce()
			rw := cs[0].RWLock(ckey(21), 0, c19Expiry)
			inside := 0
			for i, ev := range h {
				switch ev {
				case 'E':
					if _, err := rw.RLock(); err != nil {
						viol = &explore.Violation{Sig: "C19:rwlock-shared-object-reader-refused", Msg: fmt.Sprintf("history %s: RLock at step %d failed with %d reader(s) inside and no writer: %v", h, i, inside, err)}
						return
					}
					inside++
					log = append(log, "E")
				case 'L', 'N', 'M':
					if _, err := rw.RUnlock(); err != nil {
						viol = &explore.Violation{Sig: "C19:rwlock-shared-object-runlock-error", Msg: fmt.Sprintf("history %s: RUnlock at step %d failed with %d reader(s) inside (each within its expiry): %v", h, i, inside, err)}
						return
					}
					inside--
					log = append(log, string(ev))
				case 'T':
					vrt.AdvanceTo(vrt.Elapsed() + c19Tick)
					log = append(log, "T")
				case 'W':
					w := cs[1].RWLock(ckey(21), 0, c19Expiry)
					_, err := w.Lock()
					admitted := err == nil
					if admitted {
						if _, err := w.Unlock(); err != nil {
							viol = &explore.Violation{Sig: "C19:rwlock-shared-object-writer-unlock-error", Msg: fmt.Sprintf("history %s: writer unlock at step %d: %v", h, i, err)}
							return
						}
					}
					log = append(log, fmt.Sprintf("W=%v", admitted))
					if admitted != (inside == 0) {
						viol = &explore.Violation{Sig: "C19:rwlock-shared-object-writer-with-readers", Msg: fmt.Sprintf("history %s (tick 1.7 s, read-lock expiry %d s, no reader inside longer than two ticks): at step %d the writer's try-lock was admitted=%v while %d reader(s) of the shared RWLock object are inside", h, c19Expiry, i, admitted, inside)}
						return
					}
				}
			}
			for ; inside > 0; inside-- {
				_, _ = rw.RUnlock()
			}
		})
		if engErr != "" {
			return EnumResult{Err: engErr}
		}
		if rt.Diverged {
			return EnumResult{Err: "point budget exceeded in history " + h}
		}
		if rt.Crash != nil {
			res.Viol = append(res.Viol, explore.Violation{Sig: "C19:crash", Msg: fmt.Sprintf("history %s: %s\n%s", h, rt.Crash.Value, firstLines(rt.Crash.Stack, 12))})
			continue
		}
		if rt.Deadlock != "" {
			res.Viol = append(res.Viol, explore.Violation{Sig: "C19:deadlock", Msg: fmt.Sprintf("history %s: %s", h, rt.Deadlock)})
			continue
		}
		if viol != nil {
			res.Viol = append(res.Viol, *viol)
			continue
		}
		distinct[strings.Join(log, "")] = true
	}
	res.SubNT = len(distinct)
	res.Obs = fmt.Sprintf("%d histories", len(a.Seqs))
	return res
}

func c19SharedPlan() *EnumPlan {
	return &EnumPlan{Name: "rwlock-shared-object-histories", Cases: c19SharedCases, Eval: evalC19Shared}
}
