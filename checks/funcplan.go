package checks

import (
	"encoding/json"
	"fmt"
	"os"
	"sort"

	"verif/explore"
	"verif/vrt"
)

// FuncScenario is a named explorable scenario that is not an engine spec.
type FuncScenario struct {
	Name  string
	Desc  []string
	Sc    explore.Scenario
	Bound func(quick bool) int
	Fine  bool
}

type FuncPlan struct {
	Scens   []*FuncScenario
	MaxExec func(quick bool) int64
}

func (p *FuncPlan) find(n string) *FuncScenario {
	for _, s := range p.Scens {
		if s.Name == n {
			return s
		}
	}
	return nil
}

func (p *FuncPlan) Worker(c *Ctx) int {
	s := p.find(c.Scen)
	if s == nil {
		return EngineError("unknown scenario %q", c.Scen)
	}
	d := &explore.DFS{Sc: s.Sc, Base: vrt.Options{Fine: s.Fine}, Bound: s.Bound(c.Quick()), Worker: c.Worker, NWorkers: c.NWorker, SplitDepth: 1}
	if p.MaxExec != nil {
		d.MaxExec = p.MaxExec(c.Quick())
	}
	if d.Bound >= 2 {
		d.SplitDepth = 2
	}
	st := d.Run()
	b, _ := json.Marshal(st)
	os.Stdout.Write(b)
	return 0
}

func (p *FuncPlan) Master(c *Ctx) *SchedResult {
	res := &SchedResult{Total: explore.NewStats(), PerScen: map[string]*explore.Stats{}}
	for _, s := range p.Scens {
		base := vrt.Options{Fine: s.Fine}
		x1 := explore.RunPrefix(s.Sc, base, nil)
		x2 := explore.RunPrefix(s.Sc, base, nil)
		if x1.Out.EngineErr != "" {
			res.EngineErr = fmt.Sprintf("scenario %s: %s", s.Name, x1.Out.EngineErr)
			return res
		}
		if x1.Out.Trace != x2.Out.Trace || len(x1.Choices) != len(x2.Choices) {
			res.EngineErr = fmt.Sprintf("scenario %s: two default executions differ:\n%s\n%s", s.Name, x1.Out.Trace, x2.Out.Trace)
			return res
		}
		st, err := c.RunWorkers(s.Name, c.NProc)
		if err != nil {
			res.EngineErr = err.Error()
			return res
		}
		if len(st.EngineErrs) > 0 {
			res.EngineErr = fmt.Sprintf("scenario %s: %v", s.Name, st.EngineErrs)
			return res
		}
		res.PerScen[s.Name] = st
		res.Total.Merge(st)
		fmt.Printf("  scenario %-30s bound=%d executions=%d distinct-traces=%d choice-points<=%d violations=%d%s\n", s.Name, s.Bound(c.Quick()), st.Executions, len(st.Traces), st.MaxChoices, len(st.Violations), capNote(st))
		sort.Slice(st.Violations, func(i, j int) bool { return len(st.Violations[i].Prefix) < len(st.Violations[j].Prefix) })
		reported := map[string]bool{}
		for _, f := range st.Violations {
			sig := ""
			for _, m := range f.Msgs {
				sig += m.Sig + ";"
			}
			if reported[sig] {
				continue
			}
			if unlisted, known := c.SplitKnown(f.Msgs); len(unlisted) == 0 && len(known) > 0 {
				// a listed finding (scenario functions have no access to the list themselves)
				reported[sig] = true
				for _, k := range known {
					res.Total.KnownHits[k]++
				}
				continue
			}
			ok, why := Confirm(s.Sc, base, f)
			if !ok {
				res.EngineErr = fmt.Sprintf("scenario %s: violation not reproducible: %s (choices %v)", s.Name, why, f.Prefix)
				return res
			}
			reported[sig] = true
			res.Violations++
			c.ReportViolation(Replay{Scenario: s.Name, Choices: f.Prefix, Findings: f.Msgs, Trace: f.Trace})
		}
	}
	c.ReportKnown(res.Total.KnownHits)
	return res
}

func (p *FuncPlan) Coverage(r *SchedResult, rule string, quick bool) map[string]interface{} {
	nontrivial := 0
	for h := range r.Total.Traces {
		if r.Total.Nontrivial[h] {
			nontrivial++
		}
	}
	var samples []interface{}
	per := map[string]interface{}{}
	for _, s := range p.Scens {
		st := r.PerScen[s.Name]
		if st == nil {
			continue
		}
		per[s.Name] = map[string]interface{}{"bound": s.Bound(quick), "executions": st.Executions, "distinct_traces": len(st.Traces), "max_choice_points": st.MaxChoices, "cap_hit": st.CapHit}
		var hs []string
		for h := range st.TraceSample {
			hs = append(hs, h)
		}
		sort.Strings(hs)
		for i, h := range hs {
			if i >= 2 {
				break
			}
			samples = append(samples, map[string]interface{}{"scenario": s.Name, "threads": s.Desc, "observed": st.TraceSample[h]})
		}
	}
	return map[string]interface{}{"evaluations": r.Total.Executions, "distinct_nontrivial": nontrivial, "distinct_traces": len(r.Total.Traces), "rule": rule, "samples": samples, "scenarios": per, "exhaustive": !r.Total.CapHit}
}

func (p *FuncPlan) ReplayFile(c *Ctx, path string) int {
	b, err := os.ReadFile(path)
	if err != nil {
		return EngineError("%v", err)
	}
	var r Replay
	if err := json.Unmarshal(b, &r); err != nil {
		return EngineError("%v", err)
	}
	s := p.find(r.Scenario)
	if s == nil {
		return EngineError("unknown scenario %q", r.Scenario)
	}
	x := explore.RunPrefix(s.Sc, vrt.Options{Fine: s.Fine}, r.Choices)
	fmt.Println("trace:", x.Out.Trace)
	if x.Out.EngineErr != "" {
		return EngineError("%s", x.Out.EngineErr)
	}
	if len(x.Out.Violations) > 0 {
		for _, f := range x.Out.Violations {
			fmt.Printf("  finding[%s]: %s\n", f.Sig, f.Msg)
		}
		fmt.Printf("VIOLATION property=%s replay=%s\n", c.ID, path)
		return 1
	}
	return 0
}
