package checks

import (
	"fmt"

	"verif/explore"
	"verif/hapi"
)

func op(client int, c hapi.Cmd) SeqOp { return SeqOp{Cmd: &c, Client: client} }
func tick(d int64) SeqOp              { return SeqOp{Tick: d} }

// c02Alphabet: locks and unlocks over 2 LockIds (+ one never used) on one key, mixed Count / Rcount /
// timeouts, unlock flags, and clock advances that let timeouts and expiries fire in between.
func c02Alphabet(quick bool) []SeqOp {
	var a []SeqOp
	for _, id := range []byte{1, 2} {
		cl := int(id - 1)
		a = append(a,
			op(cl, L(0, 1, id, 0, 5, 0, 0)),
			op(cl, L(0, 1, id, 3, 5, 0, 2)),
			op(cl, L(0, 1, id, 3, 5, 1, 0)),
			op(cl, L(0, 1, id, 0, 5, 1, 2)),
		)
		a = append(a,
			op(cl, U(0, 1, id)),
			op(cl, hapi.Cmd{Type: 2, Key: 1, Id: id, Rcount: 1}),
			op(cl, hapi.Cmd{Type: 2, Key: 1, Id: id, Flag: 0x02}),
		)
	}
	a = append(a,
		op(0, U(0, 1, 3)),
		op(0, hapi.Cmd{Type: 2, Key: 1, Id: 3, Flag: 0x01}),
		op(1, hapi.Cmd{Type: 2, Key: 1, Id: 3, Flag: 0x01, Rcount: 1}),
		op(0, hapi.Cmd{Type: 2, Key: 1, Id: 3, Flag: 0x03}), // unlock-first AND cancel-wait by a stranger: unlock-first decides
		op(1, hapi.Cmd{Type: 2, Key: 1, Id: 2, Flag: 0x03}), // ... bearing a LockId that may be queued
		op(0, L(0, 1, 1, 0, 0, 0, 2)),                       // expiry 0: success without a hold
		op(1, withTF(L(0, 1, 2, 3, 5, 0, 7), 0x10)),         // priority-flagged: Rcount is the priority, never re-entrant
		op(1, L(0, 1, 1, 0, 5, 0, 2)),                       // another connection re-locks LockId 1: it then sets the hold's terms
		tick(1*sec), tick(4*sec),
	)
	if !quick {
		a = append(a,
			op(0, L(0, 2, 1, 0, 5, 0, 0)), // a second key sharing the fast slot
			op(1, U(0, 2, 1)),
			op(1, hapi.Cmd{Type: 2, Key: 1, Id: 1, Rcount: 1}), // another connection releases one level
		)
	}
	return a
}

func rampHolders(n int) []SeqOp {
	var r []SeqOp
	for i := 1; i <= n; i++ {
		r = append(r, op(0, L(0, 1, byte(10+i), 0, 50, 0xffff, 0)))
	}
	return r
}

func rampAlphabet(n int) []SeqOp {
	head, mid, tail := byte(11), byte(10+(n+1)/2), byte(10+n)
	var a []SeqOp
	for _, id := range []byte{head, mid, tail} {
		a = append(a, op(0, U(0, 1, id)), op(1, L(0, 1, id, 0, 50, 0xffff, 1)), op(1, hapi.Cmd{Type: 2, Key: 1, Id: id, Rcount: 1}))
	}
	a = append(a,
		op(1, hapi.Cmd{Type: 2, Key: 1, Id: 250, Flag: 0x01}),
		op(1, L(0, 1, 251, 0, 50, 0xffff, 0)),
		op(1, L(0, 1, 252, 2, 50, 0, 0)),
		op(1, U(0, 1, 251)),
		tick(3*sec))
	return a
}

func c02Specs(quick bool) []*SeqSpec {
	cfg := hapi.Config{FastKeys: 1, Concurrent: 1}
	d := 5
	if !quick {
		d = 6
	}
	specs := []*SeqSpec{{Name: "ownership", Cfg: cfg, Alphabet: c02Alphabet(quick), Depth: d, MaxStates: 400000}}
	ramps := []int{5, 6, 7}
	rd := 4
	if !quick {
		ramps = []int{5, 6, 7, 127, 128, 129, 130}
		rd = 5
	}
	for _, n := range ramps {
		specs = append(specs, &SeqSpec{Name: fmt.Sprintf("ramp-%d-holders", n), Cfg: cfg, Ramp: rampHolders(n), Alphabet: rampAlphabet(n), Depth: rd})
	}
	specs = append(specs, depthCeilingSpec("depth-ceiling", cfg, rd, false))
	// two keys that share one slot of the key table (FastKeys 1: every key collides): the second key's manager lives
	// in the overflow map; what happens to it when the slot's resident is released and recycled (a clock step later)
	specs = append(specs, &SeqSpec{Name: "two-keys-one-slot", Cfg: cfg, Depth: d + 1, MaxStates: 400000, Alphabet: []SeqOp{
		op(0, L(0, 1, 1, 0, 60, 0, 0)), op(0, U(0, 1, 1)),
		op(1, L(0, 2, 2, 0, 60, 0, 2)), op(1, hapi.Cmd{Type: 2, Key: 2, Id: 2, Rcount: 1}), op(1, U(0, 2, 2)), op(0, U(0, 2, 3)),
		op(0, L(0, 3, 3, 0, 60, 0, 0)), op(0, U(0, 3, 3)),
		tick(3 * sec),
	}})
	// the ownership histories once more over REAL binary connections of a full node (pure tree), compared reply
	// by reply and state by state with the in-memory execution (which the reference model judges above)
	specs = append(specs, &SeqSpec{Name: "ownership-over-connections", Cfg: cfg, Alphabet: c02Alphabet(quick), Depth: d - 2, Full: true, NoDedupe: true, MaxStates: 400000})
	return specs
}

// depthCeilingSpec: one LockId is ramped to re-entrant depth 253 (Rcount 255), then every history around the
// ceiling 0xff is explored.
func depthCeilingSpec(name string, cfg hapi.Config, depth int, drain bool) *SeqSpec {
	var deep []SeqOp
	for i := 0; i < 253; i++ {
		deep = append(deep, op(0, L(0, 1, 1, 0, 50, 0, 255)))
	}
	return &SeqSpec{Name: name, Cfg: cfg, Ramp: deep, Depth: depth, Drain: drain, DrainFor: 70 * sec, Alphabet: []SeqOp{
		op(0, L(0, 1, 1, 0, 50, 0, 255)), op(0, L(0, 1, 1, 0, 50, 0, 254)), op(0, hapi.Cmd{Type: 2, Key: 1, Id: 1, Rcount: 1}), op(0, U(0, 1, 1)), op(1, L(0, 1, 2, 0, 50, 0, 0)), tick(1 * sec)}}
}

func seqCheck(id string, level string, plan func(quick bool) *SeqPlan, note string, assumptions []string) {
	Registry[id] = func(c *Ctx) int {
		p := plan(c.Quick())
		if c.Worker >= 0 {
			return p.Worker(c)
		}
		sum := p.Master(c)
		if sum.EngineErr != "" {
			return EngineError("%s", sum.EngineErr)
		}
		c.WriteEvidence(level, sum.Coverage(p, note), assumptions, sum.Violations)
		fmt.Printf("%s %s: %d states, %d transitions, %d violations\n", id, c.Tier, sum.States, sum.Trans, sum.Violations)
		if sum.Violations > 0 {
			return 1
		}
		return 0
	}
}

// c02SchedSpecs: two requests about the same LockId / key issued concurrently; judged by linearizability against
// the reference model (every outcome must be the outcome of some sequential order).
func c02SchedSpecs(quick bool) []*EngSpec {
	cfg := hapi.Config{FastKeys: 1, Concurrent: 1}
	cancel := func(req, id byte) Step { return C(hapi.Cmd{Type: 2, Req: req, Key: 1, Id: id, Flag: 0x02}) }
	specs := []*EngSpec{
		{Name: "unlock-vs-cancel-wait", Cfg: cfg, Fine: true, Setup: []Step{C(L(9, 1, 1, 0, 10, 0, 0)), C(L(8, 1, 2, 5, 10, 0, 0))},
			Threads: [][]Step{{C(U(1, 1, 1))}, {cancel(2, 2)}}},
		{Name: "unlock-vs-relock", Cfg: cfg, Fine: true, Setup: []Step{C(L(9, 1, 1, 0, 10, 0, 2))},
			Threads: [][]Step{{C(U(1, 1, 1))}, {C(L(2, 1, 1, 0, 10, 0, 2))}}},
		{Name: "double-unlock", Cfg: cfg, Fine: true, Setup: []Step{C(L(9, 1, 1, 0, 10, 0, 0)), C(L(8, 1, 2, 5, 10, 0, 0))},
			Threads: [][]Step{{C(U(1, 1, 1))}, {C(U(2, 1, 1))}}},
		{Name: "unlock-first-vs-unlock", Cfg: cfg, Fine: true, Setup: []Step{C(L(9, 1, 1, 0, 10, 1, 0)), C(L(8, 1, 2, 0, 10, 1, 0))},
			Threads: [][]Step{{C(hapi.Cmd{Type: 2, Req: 1, Key: 1, Id: 7, Flag: 0x01})}, {C(U(2, 1, 1))}}},
		{Name: "cancel-vs-cancel", Cfg: cfg, Fine: true, Setup: []Step{C(L(9, 1, 1, 0, 10, 0, 0)), C(L(8, 1, 2, 5, 10, 0, 0))},
			Threads: [][]Step{{cancel(1, 2)}, {cancel(2, 2)}}},
	}
	// an UNLOCK for key 1 races the recycling of key 1's manager: the other thread releases key 1's only hold and
	// then takes eight fresh keys with the same LockId, so that the pooled manager object is handed out again
	// (persist-immediately holds with expiry > 5 s sit in the long expiry table: their unlock frees the lock object
	// and pools the key's manager at once instead of leaving a tombstone for the wheel)
	recycle := []Step{C(U(2, 1, 5))}
	for k := byte(2); k <= 12; k++ {
		recycle = append(recycle, C(withEF(L(10+k, k, 6, 0, 30, 0, 0), efZeroAof)))
	}
	specs = append(specs, &EngSpec{Name: "unlock-vs-key-manager-recycling", Cfg: cfg, Fine: true, Setup: []Step{C(withEF(L(9, 1, 5, 0, 30, 0, 0), efZeroAof))},
		Threads: [][]Step{{C(U(1, 1, 6))}, recycle}})
	// a short-lived key (expiry 0: granted and freed at once) takes and leaves the key slot while the holder of a key
	// in the slow key table unlocks (and, in the second scenario, while another holder of that key unlocks too);
	// key 2 owned the slot when key 1 was created and has expired and been reclaimed since
	specs = append(specs,
		&EngSpec{Name: "slot-taken-and-freed-vs-slow-unlock", Cfg: cfg, Fine: true, Setup: []Step{C(L(9, 2, 3, 0, 1, 0, 0)), C(L(8, 1, 1, 0, 20, 0, 0))}, T0: 4000 * ms,
			Threads: [][]Step{{C(L(1, 2, 3, 0, 0, 0, 0))}, {C(U(2, 1, 1))}}},
		&EngSpec{Name: "slot-taken-and-freed-vs-two-slow-unlocks", Cfg: cfg, Fine: true, Setup: []Step{C(L(9, 2, 3, 0, 1, 0, 0)), C(L(8, 1, 1, 0, 20, 1, 0)), C(L(7, 1, 2, 0, 20, 1, 0))}, T0: 4000 * ms,
			Threads: [][]Step{{C(L(1, 2, 3, 0, 0, 0, 0))}, {C(U(2, 1, 1))}, {C(U(3, 1, 2))}}})
	if !quick {
		specs = append(specs,
			&EngSpec{Name: "unlock-cancel-newcomer", Cfg: cfg, Fine: true, Setup: []Step{C(L(9, 1, 1, 0, 10, 0, 0)), C(L(8, 1, 2, 5, 10, 0, 0))},
				Threads: [][]Step{{C(U(1, 1, 1))}, {cancel(2, 2)}, {C(L(3, 1, 3, 0, 10, 0, 0))}}},
			&EngSpec{Name: "partial-unlock-vs-unlock-all", Cfg: cfg, Fine: true, Setup: []Step{C(L(9, 1, 1, 0, 10, 0, 2)), C(L(8, 1, 1, 0, 10, 0, 2))},
				Threads: [][]Step{{C(hapi.Cmd{Type: 2, Req: 1, Key: 1, Id: 1, Rcount: 1})}, {C(U(2, 1, 1))}}})
	}
	return specs
}

// SeqOracleC02OneHold: a LockId has at most ONE hold on a key (re-entry adds depth to it, an unlock with
// Rcount 0 ends it): after every step no key lists the same LockId in two holds.
func SeqOracleC02OneHold(r *SeqRun) []explore.Violation {
	var vs []explore.Violation
	for si, st := range r.Steps {
		if st.Snap == nil {
			continue
		}
		for _, k := range st.Snap.Keys {
			seen := map[[16]byte]int{}
			for _, h := range k.Holds {
				seen[h.LockId]++
			}
			for id, n := range seen {
				if n > 1 {
					how := "granted-at-once"
					if st.Op.Cmd == nil || st.Op.Cmd.Type != 1 || st.Op.Cmd.Id != id[15] {
						how = "granted-from-the-queue"
					}
					vs = append(vs, explore.Violation{Sig: "C02:lockid-holds-twice/" + how, Msg: fmt.Sprintf("step %d (%s): LockId %d owns %d separate holds of key %x (%s); an unlock with Rcount 0 ends only one of them", si+1, st.Op, id[15], n, k.Key[15], holdsStr(k))})
					return vs
				}
			}
		}
	}
	return vs
}

func init() {
	comboCheck(comboDef{id: "C02", level: "model_checking",
		enum: func(q bool) []*EnumPlan {
			return []*EnumPlan{{Name: "crowded-key", Cases: c02CrowdCases, Eval: evalC02Crowd}}
		},
		sched: func(q bool) *SchedPlan {
			return &SchedPlan{Specs: c02SchedSpecs(q), Oracles: []Oracle{OracleLinearizable("C02")}, Bound: func(s *EngSpec, q bool) int {
				if s.Name == "unlock-vs-key-manager-recycling" {
					return schedBound(s, q) - 1 // one long thread: the window needs a single preemption
				}
				return schedBound(s, q)
			}, MaxExec: schedCap(4000)}
		},
		seq: func(q bool) *SeqPlan {
			return &SeqPlan{Specs: c02Specs(q), Oracles: []SeqOracle{OracleRefMem(RefOpts{Results: true, State: true, Counts: true, Prefix: "C02"}), OracleFullVsMem("C02"), SeqOracleC02OneHold}}
		},
		rule: "schedule DFS (<=2/3 deviations) of two or three concurrent requests about one LockId (unlock vs cancel-wait, unlock vs re-lock, double unlock, unlock-first vs unlock, two cancels): replies and the holders / queue at quiescence must equal the outcome of SOME sequential order of the requests on the reference model (all orders enumerated); non-trivial = at least two client threads answered",
		note: "histories: explicit-state breadth-first search over operation histories; every transition is an execution of the real engine (fresh instance, history replayed under the default schedule, virtual time); states are deduplicated by a canonical key of the engine state (holders with their owning connection, waiters, values, re-check counters, wheel placement, relative deadlines; request ids dropped); each step is compared with the RefLockDB reference (result codes, LCount/LRCount, holder depths, queue order)",
		assumptions: []string{"reference model is timing-agnostic: observed TIMEOUT/EXPRIED events are fed into it (timing is C05/C06)",
			"alphabet: 2-3 LockIds, Count in {0,1,0xffff}, Rcount in {0,1,2,254,255}, unlock flags first/cancel, priority flag; states merged by canonical key",
			"runtime is sequentially consistent; data races are outside this check"}})
}
