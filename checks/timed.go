package checks

import (
	"encoding/json"
	"fmt"
	"sort"
	"strings"

	"verif/explore"
	"verif/hapi"
	"verif/vrt"
)

// TStep is a request issued at an absolute virtual instant.
type TStep struct {
	At     int64    `json:"at"`
	Client int      `json:"cl"`
	Cmd    hapi.Cmd `json:"cmd"`
	// AfterReply: issue this step AfterDelay ns after the first reply to request AfterReply was seen
	AfterReply byte  `json:"ar,omitempty"`
	AfterDelay int64 `json:"ad,omitempty"`
	// Stall > 0: not a request: at At the whole process is not scheduled for this long (the clock moves on)
	Stall int64 `json:"stall,omitempty"`
}

// Expect describes what must happen to one request.
type Expect struct {
	Req     byte    `json:"req"`
	Kind    string  `json:"kind"` // timeout | granted | expried | cancelled | never-expires | no-grant
	Lo, Hi  int64   // allowed window of the reply relative to From (ns); Hi < 0: only eventual
	From    int64   `json:"from"`              // reference instant (enqueue / grant / update)
	FromReq byte    `json:"fromreq,omitempty"` // take From from the SUCCED reply time of this request
	Alt     *Expect `json:"alt,omitempty"`     // alternative allowed outcome (the property leaves both open)
}

type TimedCase struct {
	Cfg     hapi.Config `json:"cfg"`
	Steps   []TStep     `json:"steps"`
	Horizon int64       `json:"horizon"`
	Expect  []Expect    `json:"expect"`
	Clients int         `json:"clients"`
	// ZeroWait: WaitCount must be 0 at the end
	ZeroWait bool `json:"zw,omitempty"`
	// SigSuffix is appended to the signature of every violation of this case (case families with listed findings)
	SigSuffix string `json:"sfx,omitempty"`
}

type TimedRun struct {
	Events []hapi.Event
	SentAt map[byte]int64
	Final  *hapi.Snapshot
	Mid    []*hapi.Snapshot // state just before each scripted step (short scripts only)
	RT     *vrt.RT
}

// ExecTimed runs the script on a fresh engine under the default schedule with slock's own sweepers on
// virtual time.
func ExecTimed(tc *TimedCase) (*TimedRun, string) {
	run := &TimedRun{SentAt: map[byte]int64{}}
	var engErr string
	rt := vrt.Run(vrt.Options{MaxPoints: 2_000_000_000}, func() {
		node := hapi.Factories["n0"](tc.Cfg)
		if err := node.StartEngine(); err != nil {
			engErr = err.Error()
			return
		}
		nc := tc.Clients
		if nc == 0 {
			nc = 3
		}
		clients := make([]hapi.Client, nc)
		for i := range clients {
			clients[i] = node.NewMemClient(clientName(i))
		}
		steps := append([]TStep{}, tc.Steps...)
		sort.SliceStable(steps, func(i, j int) bool { return steps[i].At < steps[j].At })
		var deferred []TStep
		for _, st := range steps {
			if st.AfterReply != 0 {
				deferred = append(deferred, st)
			}
		}
		firstReply := func(req byte) int64 {
			for _, e := range node.Events() {
				if e.Req == req {
					return e.T
				}
			}
			return -1
		}
		issue := func(st TStep) {
			run.SentAt[st.Cmd.Req] = vrt.Elapsed()
			clients[st.Client].Do(st.Cmd.Build())
			vrt.Quiesce()
		}
		for _, st := range steps {
			if st.AfterReply != 0 {
				continue
			}
			vrt.AdvanceTo(st.At)
			if len(steps) <= 10 {
				run.Mid = append(run.Mid, node.Snapshot())
			}
			if st.Stall > 0 {
				vrt.Stall(st.Stall)
				continue
			}
			issue(st)
		}
		// deferred steps: poll once per 100 virtual ms
		for len(deferred) > 0 && vrt.Elapsed() < tc.Horizon {
			var rest []TStep
			for _, st := range deferred {
				if t := firstReply(st.AfterReply); t >= 0 && vrt.Elapsed() >= t+st.AfterDelay {
					issue(st)
				} else {
					rest = append(rest, st)
				}
			}
			deferred = rest
			if len(deferred) > 0 {
				vrt.AdvanceTo(vrt.Elapsed() + 100*ms)
			}
		}
		vrt.AdvanceTo(tc.Horizon)
		run.Final = node.Snapshot()
		run.Events = append([]hapi.Event{}, node.Events()...)
	})
	run.RT = rt
	if engErr == "" && rt.Diverged {
		engErr = "point budget exceeded"
	}
	return run, engErr
}

func judgeTimed(prefix string, tc *TimedCase, run *TimedRun) []explore.Violation {
	var vs []explore.Violation
	if run.RT.Crash != nil {
		return []explore.Violation{{Sig: "crash", Msg: run.RT.Crash.Value + "\n" + firstLines(run.RT.Crash.Stack, 20)}}
	}
	for i, sn := range append(append([]*hapi.Snapshot{}, run.Mid...), run.Final) {
		if sn == nil {
			continue
		}
		for _, d := range sn.DBs {
			if d.Misfiled > 0 {
				when := "at the end"
				if i < len(run.Mid) {
					when = fmt.Sprintf("just before scripted step %d", i+1)
				}
				vs = append(vs, explore.Violation{Sig: prefix + ":timer-table-corrupt", Msg: fmt.Sprintf("%s the timer tables of db%d are inconsistent:%s", when, d.DB, d.MisfiledDetail)})
				break
			}
		}
		if len(vs) > 0 {
			break
		}
	}
	byReq := map[byte][]hapi.Event{}
	for _, e := range run.Events {
		byReq[e.Req] = append(byReq[e.Req], e)
	}
	find := func(req byte, result uint8) (hapi.Event, bool) {
		for _, e := range byReq[req] {
			if e.Result == result {
				return e, true
			}
		}
		return hapi.Event{}, false
	}
	var check func(x Expect) string
	check = func(x Expect) string {
		from := x.From
		if x.FromReq != 0 {
			e, ok := find(x.FromReq, 0)
			if !ok {
				e, ok = find(x.FromReq, 5) // successful update answers LOCKED_ERROR
			}
			if !ok {
				return fmt.Sprintf("reference request %d was never answered SUCCED", x.FromReq)
			}
			from = e.T
		} else if from == 0 {
			from = run.SentAt[x.Req]
		}
		within := func(e hapi.Event, what string) string {
			d := e.T - from
			if d < x.Lo {
				return fmt.Sprintf("%s after %d ms, earlier than the %d ms it was given", what, d/ms, x.Lo/ms)
			}
			if x.Hi >= 0 && d > x.Hi {
				return fmt.Sprintf("%s after %d ms, later than the allowed %d ms", what, d/ms, x.Hi/ms)
			}
			return ""
		}
		switch x.Kind {
		case "timeout":
			e, ok := find(x.Req, 8)
			if !ok {
				return fmt.Sprintf("request %d was never answered TIMEOUT (replies: %s)", x.Req, evStr(byReq[x.Req]))
			}
			if _, g := find(x.Req, 0); g {
				return fmt.Sprintf("request %d was answered both TIMEOUT and SUCCED", x.Req)
			}
			return within(e, fmt.Sprintf("request %d answered TIMEOUT", x.Req))
		case "granted":
			e, ok := find(x.Req, 0)
			if !ok {
				return fmt.Sprintf("request %d was never granted (replies: %s)", x.Req, evStr(byReq[x.Req]))
			}
			if _, t := find(x.Req, 8); t {
				return fmt.Sprintf("request %d was granted and also answered TIMEOUT", x.Req)
			}
			return within(e, fmt.Sprintf("request %d granted", x.Req))
		case "cancelled":
			if _, ok := find(x.Req, 6); !ok {
				return fmt.Sprintf("cancelled request %d was not answered UNLOCK_ERROR (replies: %s)", x.Req, evStr(byReq[x.Req]))
			}
			if _, t := find(x.Req, 8); t {
				return fmt.Sprintf("cancelled request %d was later answered TIMEOUT", x.Req)
			}
		case "no-grant":
			if _, g := find(x.Req, 0); g {
				return fmt.Sprintf("request %d was granted although it had already timed out", x.Req)
			}
		case "expried":
			e, ok := find(x.Req, 9)
			if !ok {
				return fmt.Sprintf("hold of request %d was never ended by EXPRIED (replies: %s)", x.Req, evStr(byReq[x.Req]))
			}
			n := 0
			for _, y := range byReq[x.Req] {
				if y.Result == 9 {
					n++
				}
			}
			if n > 1 {
				return fmt.Sprintf("request %d drew %d EXPRIED notices", x.Req, n)
			}
			return within(e, fmt.Sprintf("hold of request %d ended by EXPRIED", x.Req))
		case "never-expires":
			if _, ok := find(x.Req, 9); ok {
				return fmt.Sprintf("hold of request %d was ended by EXPRIED although it must not be ended by time", x.Req)
			}
		}
		return ""
	}
	for _, x := range tc.Expect {
		msg := check(x)
		if msg != "" && x.Alt != nil {
			if check(*x.Alt) == "" {
				msg = ""
			}
		}
		if msg != "" {
			vs = append(vs, explore.Violation{Sig: prefix + ":" + x.Kind, Msg: msg})
		}
	}
	if tc.ZeroWait {
		for _, d := range run.Final.DBs {
			if d.WaitCount != 0 || d.CensusWait != 0 {
				vs = append(vs, explore.Violation{Sig: prefix + ":left-queued", Msg: fmt.Sprintf("WaitCount=%d, %d live queued requests at the end", d.WaitCount, d.CensusWait)})
			}
		}
	}
	return dedupe(vs)
}

func timedObs(run *TimedRun) string {
	var b strings.Builder
	for _, e := range run.Events {
		fmt.Fprintf(&b, "%s:r%d=%s@%dms ", e.Client, e.Req, hapi.ResultName(e.Result), e.T/ms)
	}
	return b.String()
}

func evalTimed(prefix string) func(c *Ctx, cs EnumCase) EnumResult {
	return func(c *Ctx, cs EnumCase) EnumResult {
		var tc TimedCase
		if err := json.Unmarshal(cs.Arg, &tc); err != nil {
			return EnumResult{Err: err.Error()}
		}
		run, err := ExecTimed(&tc)
		if err != "" {
			return EnumResult{Err: err}
		}
		vs := judgeTimed(prefix, &tc, run)
		for i := range vs {
			vs[i].Sig += tc.SigSuffix
		}
		return EnumResult{Viol: vs, Obs: timedObs(run), Nontrivial: len(run.Events) >= 2}
	}
}
