package checks

import (
	"fmt"
	"sort"
	"strings"

	"verif/explore"
	"verif/hapi"
	"verif/vrt"
	"verif/wire"
)

// Result frames of one binary connection can be produced by several server threads at once: the
// connection's own handler (answering the request it just read), another connection's handler (whose UNLOCK
// grants a request this connection has queued) and the timer sweepers (TIMEOUT / EXPRIED notices). Every frame
// that reaches the client must still decode to the field values of exactly one of those results, and each
// result must arrive exactly once. Deviation-bounded schedule exploration at the granularity of every mutex
// operation inside the server (fine mode) of a full node with real connections.
func c14ConnScenario(kind string) explore.Scenario { return connScenario("C14", kind) }

func connScenario(prop, kind string) explore.Scenario {
	return func(opt vrt.Options) (*vrt.RT, explore.Outcome) {
		var engErr string
		var got []string
		opt.MaxPoints = 50_000_000
		rt := vrt.Run(opt, func() {
			node := hapi.Factories["n0"](hapi.Config{FastKeys: 4, Concurrent: 1})
			if err := node.Start(); err != nil {
				engErr = err.Error()
				return
			}
			vrt.AdvanceTo(1300 * ms)
			a, err := wire.Dial(nodeAddr(0))
			if err != nil {
				engErr = err.Error()
				return
			}
			b, _ := wire.Dial(nodeAddr(0))
			_ = b.Send(wire.BinFrame(hapi.Cmd{Type: 1, Req: 1, Key: 1, Id: 1, Expried: 30}))
			b.TakeBin()
			_ = a.Send(wire.BinFrame(hapi.Cmd{Type: 1, Req: 10, Key: 1, Id: 2, Timeout: 20, Expried: 30, Count: 0, Rcount: 3}))
			if kind == "two-grants" {
				_ = b.Send(wire.BinFrame(hapi.Cmd{Type: 1, Req: 2, Key: 3, Id: 1, Expried: 30}))
				b.TakeBin()
				_ = a.Send(wire.BinFrame(hapi.Cmd{Type: 1, Req: 13, Key: 3, Id: 4, Timeout: 20, Expried: 30, Count: 0, Rcount: 1}))
			}
			a.TakeBin()
			running := 0
			spawn := func(name string, f func()) {
				running++
				vrt.GoN(name, func() {
					f()
					running--
				})
			}
			switch kind {
			case "own-answer-vs-foreign-grant":
				// a's own handler answers request 11 while b's handler grants a's queued request 10
				spawn("a-writes", func() {
					_, _ = a.C.Write(wire.BinFrame(hapi.Cmd{Type: 1, Req: 11, Key: 2, Id: 3, Expried: 30, Count: 7, Rcount: 5}))
				})
				spawn("b-unlocks", func() { _, _ = b.C.Write(wire.BinFrame(hapi.Cmd{Type: 2, Req: 12, Key: 1, Id: 1})) })
			case "two-grants":
				// two other connections' handlers grant two requests a has queued on different keys
				c, _ := wire.Dial(nodeAddr(0))
				_ = c.Send(make64(5))
				spawn("b-unlocks-k1", func() { _, _ = b.C.Write(wire.BinFrame(hapi.Cmd{Type: 2, Req: 12, Key: 1, Id: 1})) })
				spawn("b-unlocks-k3", func() {
					// through a third connection, so that two handler threads deliver to a
					_, _ = c.C.Write(wire.BinFrame(hapi.Cmd{Type: 2, Req: 14, Key: 3, Id: 1}))
				})
			}
			vrt.SetExplore(true)
			vrt.R.Block(func() bool { return running == 0 })
			vrt.Quiesce()
			vrt.SetExplore(false)
			a.Pump()
			raw := len(a.In)
			for _, r := range a.TakeBin() {
				if r.Lock == nil {
					got = append(got, fmt.Sprintf("type%d?", r.Type))
					continue
				}
				got = append(got, fmt.Sprintf("req%d=%d key%d id%d lc%d c%d lrc%d rc%d", r.Req[0], r.Result, r.Lock.LockKey[15], r.Lock.LockId[15], r.Lock.Lcount, r.Lock.Count, r.Lock.Lrcount, r.Lock.Rcount))
			}
			if raw%64 != 0 {
				got = append(got, fmt.Sprintf("+%d stray bytes", raw%64))
			}
		})
		sort.Strings(got)
		out := explore.Outcome{Trace: strings.Join(got, " | "), Nontrivial: len(got) >= 2}
		if engErr != "" {
			out.EngineErr = engErr
			return rt, out
		}
		if rt.Diverged {
			out.EngineErr = "point budget exceeded"
			return rt, out
		}
		if rt.Crash != nil {
			out.Violations = []explore.Violation{{Sig: prop + ":crash", Msg: rt.Crash.Value + "\n" + firstLines(rt.Crash.Stack, 14)}}
			return rt, out
		}
		if rt.Deadlock != "" {
			out.Violations = []explore.Violation{{Sig: prop + ":deadlock", Msg: rt.Deadlock}}
			return rt, out
		}
		want := map[string][]string{
			"own-answer-vs-foreign-grant": {"req10=0 key1 id2 lc1 c0 lrc1 rc3", "req11=0 key2 id3 lc1 c7 lrc1 rc5"},
			"two-grants":                  {"req10=0 key1 id2 lc1 c0 lrc1 rc3", "req13=0 key3 id4 lc1 c0 lrc1 rc1"},
		}[kind]
		if strings.Join(got, " | ") != strings.Join(want, " | ") {
			out.Violations = []explore.Violation{{Sig: prop + ":result-frames-mixed-up", Msg: fmt.Sprintf("scenario %s: the connection received the result frames [%s]; the results produced for it are [%s]", kind, strings.Join(got, " | "), strings.Join(want, " | "))}}
		}
		return rt, out
	}
}

func c14ConnPlan(quick bool) *FuncPlan { return c14ConnPlanFor("C14", quick) }

func c14ConnPlanFor(prop string, quick bool) *FuncPlan {
	bound := func(q bool) int {
		if q {
			return 2
		}
		return 3
	}
	return &FuncPlan{Scens: []*FuncScenario{
		{Name: "own-answer-vs-foreign-grant", Fine: true, Bound: bound, Sc: connScenario(prop, "own-answer-vs-foreign-grant"),
			Desc: []string{"connection a has request 10 queued behind b's hold; thread 1: a sends LOCK key 2 (answered by a's handler); thread 2: b sends UNLOCK key 1 (b's handler grants request 10 and writes the result to a)"}},
		{Name: "two-grants", Fine: true, Bound: bound, Sc: connScenario(prop, "two-grants"),
			Desc: []string{"connection a has two requests queued on keys 1 and 3; two other connections unlock them at the same time: two handler threads write results to a"}},
	}, MaxExec: func(q bool) int64 {
		if q {
			return 20000
		}
		return 150000
	}}
}
