// Package wire is a byte-level client for nodes under the runtime: it talks to the real accept loop,
// protocol sniffing and reply batching over the in-memory network.
package wire

import (
	"fmt"
	"net"
	"strconv"

	"github.com/snower/slock/protocol"
	"verif/hapi"
	"verif/vrt"
	"verif/vrt/vnet"
)

type Conn struct {
	C      net.Conn
	In     []byte // everything received so far and not yet consumed
	Closed bool
}

func Dial(addr string) (*Conn, error) {
	c, err := vnet.Dial("tcp", addr)
	if err != nil {
		return nil, err
	}
	return &Conn{C: c}, nil
}

// Send writes b and lets the system run to quiescence at the current instant.
func (c *Conn) Send(b []byte) error {
	_, err := c.C.Write(b)
	vrt.Quiesce()
	c.Pump()
	return err
}

// Pump moves everything readable into c.In.
func (c *Conn) Pump() {
	d, closed := vnet.Avail(c.C)
	c.In = append(c.In, d...)
	if closed {
		c.Closed = true
	}
}

func (c *Conn) Close() { _ = c.C.Close(); vrt.Quiesce() }

// BinFrame encodes a lock/unlock command (64 bytes + value frame).
func BinFrame(cmd hapi.Cmd) []byte {
	l := cmd.Build()
	buf := make([]byte, 64)
	_ = l.Encode(buf)
	if cmd.Data != nil {
		buf = append(buf, cmd.Data...)
	}
	return buf
}

// BinReply is one decoded binary result frame.
type BinReply struct {
	Raw     []byte
	Type    uint8
	Req     [16]byte
	Result  uint8
	Lock    *protocol.LockResultCommand
	Data    []byte
}

// TakeBin consumes complete binary result frames from c.In.
func (c *Conn) TakeBin() []BinReply {
	var out []BinReply
	for len(c.In) >= 64 {
		f := c.In[:64]
		r := BinReply{Raw: append([]byte{}, f...), Type: f[2], Result: f[19]}
		copy(r.Req[:], f[3:19])
		n := 64
		if f[2] == protocol.COMMAND_LOCK || f[2] == protocol.COMMAND_UNLOCK {
			lr := &protocol.LockResultCommand{}
			if err := lr.Decode(f); err == nil {
				r.Lock = lr
				if lr.Flag&protocol.LOCK_FLAG_CONTAINS_DATA != 0 {
					if len(c.In) < 68 {
						return out
					}
					dl := int(uint32(c.In[64]) | uint32(c.In[65])<<8 | uint32(c.In[66])<<16 | uint32(c.In[67])<<24)
					if len(c.In) < 68+dl {
						return out
					}
					r.Data = append([]byte{}, c.In[64:68+dl]...)
					n = 68 + dl
				}
			}
		} else if f[2] == protocol.COMMAND_CALL {
			// call results carry a content length at bytes 20..23
			cl := int(uint32(f[20]) | uint32(f[21])<<8 | uint32(f[22])<<16 | uint32(f[23])<<24)
			if cl > 0 && cl < 1<<24 {
				if len(c.In) < 64+cl {
					return out
				}
				r.Data = append([]byte{}, c.In[64:64+cl]...)
				n = 64 + cl
			}
		}
		c.In = c.In[n:]
		out = append(out, r)
	}
	return out
}

// Resp encodes a RESP array of bulk strings.
func Resp(args ...string) []byte {
	s := "*" + strconv.Itoa(len(args)) + "\r\n"
	for _, a := range args {
		s += "$" + strconv.Itoa(len(a)) + "\r\n" + a + "\r\n"
	}
	return []byte(s)
}

// TakeText consumes complete RESP replies from c.In and renders each as a string.
func (c *Conn) TakeText() []string {
	var out []string
	for {
		s, n := parseResp(c.In)
		if n == 0 {
			return out
		}
		c.In = c.In[n:]
		out = append(out, s)
	}
}

func line(b []byte) (string, int) {
	for i := 0; i+1 < len(b); i++ {
		if b[i] == '\r' && b[i+1] == '\n' {
			return string(b[:i]), i + 2
		}
	}
	return "", 0
}

func parseResp(b []byte) (string, int) {
	if len(b) == 0 {
		return "", 0
	}
	l, n := line(b)
	if n == 0 {
		return "", 0
	}
	switch b[0] {
	case '+', '-', ':':
		return l, n
	case '$':
		k, err := strconv.Atoi(l[1:])
		if err != nil {
			return "?" + l, n
		}
		if k < 0 {
			return "$nil", n
		}
		if len(b) < n+k+2 {
			return "", 0
		}
		return "$" + string(b[n:n+k]), n + k + 2
	case '*':
		k, err := strconv.Atoi(l[1:])
		if err != nil {
			return "?" + l, n
		}
		s := "*["
		used := n
		for i := 0; i < k; i++ {
			e, m := parseResp(b[used:])
			if m == 0 {
				return "", 0
			}
			if i > 0 {
				s += " "
			}
			s += e
			used += m
		}
		return s + "]", used
	}
	return fmt.Sprintf("?%q", l), n
}
