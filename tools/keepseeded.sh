#!/bin/bash
# keepseeded.sh <worktree> <seeded-name> [pkgdir]: confirm a candidate and, if confirmed, copy its mutant/ folder to seeded/<name>/
set -u
W="$1"; N="$2"; PKG="${3:-server}"
out=$(/verif/tools/confirmseeded.sh "$W" "$PKG" 2>&1); echo "$out"
if echo "$out" | grep -q "build(with): ok" && echo "$out" | grep -q "repo tests(with): pass" && echo "$out" | grep -q "fails as wanted" && echo "$out" | grep -q "passes as wanted"; then
  mkdir -p /verif/seeded/$N && cp -r "$W"/mutant/* /verif/seeded/$N/ && echo "KEPT seeded/$N"
else
  echo "NOT CONFIRMED $N"
fi
