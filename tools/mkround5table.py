#!/usr/bin/env python3
"""Prints the fifth-round table for seeded/RESULTS.md from the metas and a sweep log (tools/runseeded.sh output with '## <name>' headers)."""
import json, re, sys, os
log = open(sys.argv[1]).read() if len(sys.argv) > 1 else ""
first = {"C07e": "caught", "C15e": "caught", "C20e": "caught"}
strength = {
 "C01e": "reply-level oracle; scenario first use of a database under three racing requests",
 "C02e": "spec `two-keys-one-slot`; ownership histories over real connections",
 "C03e": "schedule exploration of several server threads answering one binary connection",
 "C04e": "requests of equal priority (5 and 0) next to a queued exclusive request",
 "C05e": "pattern `process-stalled` (`vrt.Stall`: the clock jumps while nothing runs)",
 "C06e": "pattern `co-holder-stays` (a hold expires while another holder of the counting key stays and a request is queued)",
 "C08e": "history 6: a value-carrying record rotates the append file; complete log anchored to the live state",
 "C09e": "enumeration `two-followers` (one behind a slow connection, `vnet` back-pressure)",
 "C10e": "concurrent-check requests in the alphabets",
 "C11e": "fates `negative` / `disk-error`; schedule exploration `follower-disk-fails` over both nodes",
 "C12e": "configurations with weight-0 members and positions the voters have not been told yet",
 "C13e": "group `input-edge` (a value frame after N pings filling the read buffer)",
 "C14e": "text histories on one connection compared with the in-memory execution",
 "C16e": "graceful shutdown injected at every file-system call of a compaction",
 "C17e": "instrumenter splits plain read-modify-write of atomically updated fields; scenarios `short-lived-keys-*`",
 "C18e": "wills registered in the admin text mode of a binary connection; text wills 0..7",
 "C19e": "enumeration `expiry-boundary` through the client primitives",
}
caught = {}
for m in re.finditer(r"## (\S+)\n(.*?)(?=\n## |\Z)", log, re.S):
    name, body = m.group(1), m.group(2)
    f = re.search(r"(C\d\d) rc=1 .*?finding\[([^\]]+)\]", body)
    if f:
        caught[name] = f"{f.group(1)} `{f.group(2).split(':',1)[1]}`"
    elif "rc=0" in body:
        caught[name] = "NOT CAUGHT"
print("| change | what it breaks, what it needs | first run | after strengthening | caught by (quick tier) |")
print("|---|---|---|---|---|")
for i in range(1, 21):
    n = f"C{i:02d}e"
    meta = json.load(open(os.path.join("/verif/seeded", n, "meta.json")))
    s = (meta.get("summary") or "").replace("|", "/").replace("\n", " ")
    s = s[:330].rsplit(" ", 1)[0] + " ..."
    fr = first.get(n, "missed")
    st = strength.get(n, "-")
    print(f"| {n} | {s} | {fr} | {st} | {caught.get(n, '?')} |")
