#!/bin/bash
# reconfirm_all.sh: re-confirms every kept change on the CURRENT /repo head in a scratch worktree
# (build + repository tests with the change; demonstration fails with it and passes without it).
set -u
W=/tmp/wt/reconfirm
mkdir -p /tmp/wt
git -C /repo worktree remove --force $W 2>/dev/null
git -C /repo worktree add -q $W HEAD || exit 2
for d in /verif/seeded/*/; do
  n=$(basename $d); [ -f $d/patch.diff ] || continue
  rm -rf $W/mutant; mkdir $W/mutant; cp $d/* $W/mutant/ 2>/dev/null
  pkg=server; grep -l "^package protocol" $W/mutant/zz_demo*_test.go >/dev/null 2>&1 && pkg=protocol
  grep -l "^package client" $W/mutant/zz_demo*_test.go >/dev/null 2>&1 && pkg=client
  out=$(/verif/tools/confirmseeded.sh $W $pkg 2>&1)
  if echo "$out" | grep -q "build(with): ok" && echo "$out" | grep -q "repo tests(with): pass" && echo "$out" | grep -q "fails as wanted" && echo "$out" | grep -q "passes as wanted"; then echo "$n confirmed"; else echo "$n NOT-CONFIRMED: $(echo "$out" | grep -E "FAIL|PASS  <--|does not apply" | tr '\n' ' ' | cut -c1-300)"; fi
done
git -C /repo worktree remove --force $W
