#!/bin/bash
# sweep.sh [log]: applies every kept change in turn to /repo (restored after each), runs the repository's pinned tests
# and the quick tier of the property's check; one line per change. Each change is applied to /repo and undone again (SEEDED_SCRATCH=1 in runseeded.sh would use a scratch worktree instead, but checks that import the protocol package directly then still see /repo). Nothing else may run meanwhile.
cd /verif
LOG="${1:-/verif/seeded/sweep_latest.log}"
: > "$LOG"
for d in seeded/*/; do
  n=$(basename $d); [ -f $d/patch.diff ] || continue
  out=$(tools/runseeded.sh $d 2>&1 | tr '\n' ' ' | cut -c1-400)
  echo "$n: $out" >> "$LOG"
done
git -C /repo status --short >> "$LOG"
echo "DONE $(date -u +%H:%M)" >> "$LOG"
