#!/bin/bash
# confirmseeded.sh <worktree> [pkgdir]: re-confirms a candidate change in its own scratch worktree:
# build + repository tests with the change, demonstration fails with it and passes without it.
# The worktree keeps its mutant/ folder; production files are restored to HEAD at the end.
set -u
W="$1"; PKG="${2:-server}"
export GOFLAGS=-mod=mod GOPROXY=off GOSUMDB=off GOTOOLCHAIN=local
cd "$W" || exit 2
git checkout -- . >/dev/null 2>&1
rm -f $PKG/zz_demo*_test.go server/append.aof.* 
git apply mutant/patch.diff || { echo "patch does not apply in $W"; exit 2; }
go build ./... && echo "build(with): ok" || echo "build(with): FAIL"
go test -vet=off -count=1 ./server/ ./protocol/ >/tmp/confirm_base.log 2>&1 && echo "repo tests(with): pass" || { echo "repo tests(with): FAIL"; tail -5 /tmp/confirm_base.log; }
cp mutant/zz_demo*_test.go $PKG/
go test -vet=off -count=1 -run 'TestZZDemo|TestDemoC|TestC[0-9][0-9]' ./$PKG/ >/tmp/confirm_with.log 2>&1 && echo "demo(with): PASS  <-- not a demonstration" || echo "demo(with): fails as wanted: $(grep -m2 -E '^\s+.*_test.go:[0-9]+:|--- FAIL' /tmp/confirm_with.log | tr '\n' ' ' | cut -c1-260)"
git apply -R mutant/patch.diff
go test -vet=off -count=1 -run 'TestZZDemo|TestDemoC|TestC[0-9][0-9]' ./$PKG/ >/tmp/confirm_without.log 2>&1 && echo "demo(without): passes as wanted" || { echo "demo(without): FAIL <-- not a demonstration"; tail -5 /tmp/confirm_without.log; }
rm -f $PKG/zz_demo*_test.go server/append.aof.* server/*.aof* 2>/dev/null
git checkout -- . >/dev/null 2>&1
git status --short | grep -v mutant | head
