#!/usr/bin/env python3
"""Prints the sixth-round table for seeded/RESULTS.md from the metas and a sweep log of tools/sweep.sh ('<name>: ... Cxx rc=N ... finding[sig]')."""
import json, re, sys, os
log = open(sys.argv[1]).read() if len(sys.argv) > 1 else ""
first = {n: "caught" for n in ["C02f", "C05f", "C08f", "C09f", "C11f", "C15f", "C16f", "C18f", "C19f", "C20f"]}
strength = {
 "C01f": "enumeration `count-boundary`: 65534 / 65535 / 65536 holds on one key, probes with Count 5 / 0xfffe / 0xffff",
 "C03f": "spec `ack-required-waiters-on-semaphore` (acknowledgement-required requests granted out of the queue of a counting key)",
 "C04f": "ramp of 146 waiters with a differing priority in the quick tier (145-147 thorough)",
 "C06f": "scenario `millisecond-grant-vs-slot-sweep` (a millisecond hold granted in the millisecond in which its slot is swept)",
 "C07f": "spec `restart-inherited-value` (a holder that joined later inherits the key's value)",
 "C10f": "scenario `first-use-of-database-vs-step-down` with the per-database role oracle",
 "C12f": "configurations with a running leader and freshly restarted members; invariant: whoever the leader itself has answered refuses proposals",
 "C13f": "group `nested-value`: embedded-frame length x property length x padding x operation, followed by every reader of the inner key",
 "C14f": "sequences of different reply forms on ONE parser object",
 "C17f": "tick-race specs: unlock / cancel of the key's last record on its sweep tick, with the drained-counters oracle",
}
caught = {}
for line in log.splitlines():
    m = re.match(r"(C\d\d[a-z]?): (.*)", line)
    if not m:
        continue
    name, body = m.group(1), m.group(2)
    f = re.search(r"(C\d\d) rc=1 .*?finding\[([^\]]+)\]", body)
    if f:
        caught[name] = f"{f.group(1)} `{f.group(2).split(':',1)[1]}`"
    elif "rc=0" in body:
        caught[name] = "NOT CAUGHT"
    elif "rc=" in body:
        caught[name] = "engine error"
print("| change | what it breaks, what it needs | first run | after strengthening | caught by (quick tier) |")
print("|---|---|---|---|---|")
for i in range(1, 21):
    n = f"C{i:02d}f"
    meta = json.load(open(os.path.join("/verif/seeded", n, "meta.json")))
    s = (meta.get("summary") or "").replace("|", "/").replace("\n", " ")
    s = s[:330].rsplit(" ", 1)[0] + " ..."
    print(f"| {n} | {s} | {first.get(n, 'missed')} | {strength.get(n, '-')} | {caught.get(n, '?')} |")
