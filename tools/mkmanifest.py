#!/usr/bin/env python3
"""Regenerates MANIFEST.json from the table below (kept in one place so it is always schema-valid)."""
import json, os
ROOT = os.path.dirname(os.path.dirname(os.path.abspath(__file__)))
props = [json.loads(l) for l in open(os.path.join(ROOT, "properties.jsonl"))]
ids = [p["id"] for p in props]

CHECKS = {
 "C01": dict(level="exploration", design="4/C01",
   text="Deviation-bounded exhaustive exploration of thread schedules of the real lock engine (instrumented copy under a deterministic runtime): 2-3 client threads on one key / two keys colliding in one fast slot, sweepers included; a transition monitor evaluates the grant rule keyed by (db,key) at every shard-mutex release. Exhaustive for <=2 (quick) / <=3 (thorough) scheduling deviations per scenario; not a proof for unbounded schedules. Plus explicit-state BFS over semaphore histories (keys filled to Count 1-3, mixed Counts from the empty key) with the same monitor inside every step. Plus complete enumeration of pairs of text-connection histories (semaphore / re-entrant use that leaves state in the connections' pooled command objects) followed by try-locks of one key, judged by the Counts the clients sent. Scenarios also cover the first use of a database and keys that live for one request only (all-zero key, a key in the slow key table, a key owning its slot) under three racing requests; a reply-level oracle flags a SUCCED while holds nobody asked to release exceed the Counts as sent.",
   note="Trusted: the instrumenter (syntactic rewrite of sync/atomic/chan/time/net/os onto the vrt runtime, gated by the repo's own 68 server tests passing on the rewritten copy), sequentially consistent memory, the scenario alphabet (schedules: Count 0/1, Rcount 0/1; histories: Count 0..3, up to 6 LockIds; short timeouts/expiries).",
   technique="stateless model checking of the implementation: deviation-bounded schedule DFS under a controlled scheduler, plus explicit-state BFS over operation histories by replay"),
 "C02": dict(level="model_checking", design="4/C02",
   text="Explicit-state breadth-first search over all operation histories up to a depth (from the empty state and from ramped states with 5-7/127-130 holders and depth 253), each transition executed on the real engine and compared with a sequential reference model of ownership and re-entrant depth. Exhaustive within alphabet and depth. Plus deviation-bounded schedule exploration of concurrent request pairs about one LockId judged by linearizability (all sequential orders on the reference), and a complete sweep of crowded keys: every number of simultaneous holders 1..248 x 7 probe histories against the reference. An invariant 'one hold per LockId and key' is checked after every step; concurrent groups include a slot being taken and freed by a short-lived key while holders of a slow-table key unlock.",
   note="Trusted: instrumenter+runtime (see C01), the RefLockDB reference (written from the documented semantics; disagreements on the unchanged tree were triaged by hand), the canonical state key used for merging (cross-checked against an unmerged tree at smaller depth).",
   technique="explicit-state model checking of the implementation: BFS over operation histories by replay, canonical-state deduplication, reference-model oracle"),
 "C03": dict(level="exploration", design="4/C03",
   text="Deviation-bounded exhaustive schedule exploration of client threads racing the timeout/expiry sweepers and wake-ups on the real engine, plus exhaustive operation histories to a depth, each drained; the reply multiset per connection is judged (exactly one terminal reply per request, at most one EXPRIED per grant, no foreign RequestId). Plus the same kind of history search on a FULL node over real binary connections (pure tree), compared reply by reply and state by state with the in-memory execution, and every sequence of text requests on one text connection. Histories also cover acknowledgement-required requests (first, re-entrant, update, expiry 0) on a node whose own log write is the only acknowledgement and on a node whose databases wait for a follower acknowledgement that never comes.",
   note="Trusted: instrumenter+runtime (see C01). Real binary and text connections only in the two enumerations named above; bounds: <=2/3 deviations, history depth 4/5.",
   technique="stateless model checking (deviation-bounded schedule DFS) + explicit-state BFS over histories, reply-multiset oracle"),
 "C04": dict(level="exploration", design="4/C04",
   text="Schedule exploration of unlockers / newcomers / cancellers / timeout sweeper (quiescent invariant: live head waiter never admissible; every waiter answered) plus exhaustive queueing histories from empty and ramped queues (7-9, 127-130 waiters, priority switch), with zero-expiry waiters and wait-when-unlocked waiters, against the reference grant order. A further spec has the holder itself make room (its Count raised by an update or a re-entrant lock) while requests are queued.",
   note="Trusted: instrumenter+runtime, RefLockDB's stable-priority-queue order (the model includes wait-when-unlocked requests on a free key).",
   technique="stateless model checking (deviation-bounded schedule DFS) + explicit-state BFS over histories with reference-model oracle"),
 "C17": dict(level="model_checking", design="4/C17",
   text="Explicit-state BFS over histories: after every step the reported counts (LCount, LRCount, STATE counters) equal a census of the engine's live structures and the reference model; every state is drained and must be empty. The same census/drain oracle runs on all concurrent scenarios of C01/C03/C04 under deviation-bounded schedule exploration. Schedules include one slow-table key taken twice for one request each on two shards.",
   note="Trusted: instrumenter+runtime, the census walker (in-package harness), RefLockDB for LCount/LRCount.",
   technique="explicit-state model checking by replay (canonical-state BFS) + deviation-bounded schedule DFS, census oracle"),
 "C05": dict(level="exploration", design="4/C05",
   text="Exhaustive enumeration of timeout classes (unit x T in 0..40 + boundaries x enqueue phase x interference) each executed on the real engine with its own sweepers on virtual time, bounds checked on virtual timestamps; the deadline recorded for a queued request is checked for EVERY value 1..65535 of the Timeout field in all three units; plus deviation-bounded schedule exploration of unlock/cancel racing the sweeper on the deadline tick.",
   note="Trusted: instrumenter+runtime; virtual time (zero-cost computation). Firing is executed for every class the re-check ladder / long-wait table / millisecond wheel distinguishes; for all 65535 values the recorded deadline (census of the live structures) is compared with enqueue time + value.",
   technique="bounded exhaustive enumeration of input classes on the implementation under virtual time + deviation-bounded schedule DFS"),
 "C06": dict(level="exploration", design="4/C06",
   text="As C05 for expiries: every E in 1..40 + boundaries in three units, grant phases, and interference patterns (queued request served at expiry, hold granted out of the wait queue, unlock before deadline, re-lock, updates, unlimited, 200 holds on one deadline); the recorded deadline of a hold is checked for EVERY value 1..65535 of the Expried field in all three units, granted at once and granted out of the queue; plus schedule exploration of unlock racing the expiry sweeper. Seconds-unit holds re-entered or updated with a millisecond-unit period, or updated to unlimited, are among the patterns.",
   note="Trusted: instrumenter+runtime; virtual time. Leader only (follower behaviour is C10).",
   technique="bounded exhaustive enumeration of input classes on the implementation under virtual time + deviation-bounded schedule DFS"),
 "C15": dict(level="model_checking", design="4/C15",
   text="Explicit-state BFS over histories of value operations carried on lock / re-lock / update / unlock / refused requests by several LockIds of one key; every transition executes the real engine; replies and the key's value are compared with a sequential interpreter written independently of ProcessLockData; a key that was completely free starts without a value. Plus every sequence of the Redis-style text commands to a depth over three keys on a full node, compared with a plain key-value store with expiry. A pure-tree spec covers acknowledgement-required value operations that are REFUSED (acknowledgements never come): the register must be what the other LockIds' successful operations alone compute, byte-identical when nothing else touched it; frames are decoded after every step; the reference store is strict about number / string mixes and knows EX and PX.",
   note="Trusted: instrumenter+runtime, RefValue (byte-level register semantics), RefLockDB for which requests take effect; cross-kind operations left open; text part: replies inside [deadline, deadline+2s] left open.",
   technique="explicit-state model checking by replay (canonical-state BFS) with a sequential reference interpreter as oracle + bounded exhaustive enumeration of text command sequences against a reference key-value store"),
 "C20": dict(level="model_checking", design="4/C20",
   text="Explicit-state BFS over operation sequences on every internal queue type and constructor parameter set (from empty and from ramped states crossing the representation switches), each compared step by step with a plain slice deque / stable priority queue; plus fill-and-drain sweeps for every fill level 1..700 (2100 thorough) of the per-key queues and 1..160 of the node queues with length, head and full iteration compared after every pop. Searches also start from ramps that leave a node allocated beyond the tail (PopRight retreat) and include Shrink in searches of its own.",
   note="Trusted: the in-package queue driver (harness file), the operation contracts listed in evidence; Shrink (no call site in slock) is exercised separately; what it breaks is a listed finding.",
   technique="explicit-state model checking by replay of operation sequences with a reference deque as oracle"),
 "C07": dict(level="model_checking", design="4/C07",
   text="Explicit-state BFS over operation histories on a leader with its real append-only log; at every reached state the queue is drained, the node killed and a fresh node started on the same (in-memory) directory; recovered holds are compared with the persisted live holds before the stop (identity, depth, Count, Rcount, value, deadline tolerance), for several buffer sizes and a rotation threshold that spreads histories over several files. Narrow specs add terms shortened by updates before release or expiry, unlocks carrying the priority flag, millisecond / unlimited flag combinations, values written by zero-expiry requests and by unlocks of young co-holders, and persistence delays of 4 s and 50 s.",
   note="Trusted: instrumenter+runtime, vos in-memory file system (completed write = durable), classification of 'persisted' from the statement (flag / age >= delay+2s).",
   technique="explicit-state model checking by replay with stop/restart at every state, differential oracle before/after restart"),
 "C08": dict(level="fault_enumeration", design="4/C08",
   text="For each workload history every truncation length of the newest append file and of its value file, and the directory image after every file-system call, is recovered by a fresh node: start must succeed, the recovered state must be that of a clean record prefix not longer than the complete records present, and a second restart must recover what was persisted after the first; every cut image is also started as a follower; the complete log is anchored to the node's live state at the stop (incl. an outage that outlives a value-carrying hold). Plus a deviation-bounded schedule exploration over the threads of a restart (loader, one persistence channel per shard, start-up compaction) followed by a clean stop and a second restart: every persisted hold must still be there.",
   note="Trusted: instrumenter+runtime, vos in-memory file system and its FS-point numbering, the implementation's loader on record-boundary cuts as reference for prefix states (anchored once per history to the live state).",
   technique="exhaustive crash-point / torn-write enumeration on the implementation with differential recovery oracle"),
 "C16": dict(level="fault_enumeration", design="4/C16",
   text="For workload histories spread over several append files plus a rewrite file, the directory image after every file-system mutation of every compaction is recovered TWICE (with use in between) and compared with the recovery of the pre-compaction image; completed compactions are compared with the same history logged without compaction; histories include update-flag records several seconds old at compaction time. Histories include values written by holders that have left, holds whose Rcount is a priority, and unlimited holds taken with the update flag; graceful shutdowns are injected at every file-system call of a compaction.",
   note="Trusted: instrumenter+runtime, vos FS-point numbering, the loader as differential reference. Concurrent appends: at every file-system call of every compaction of two histories a burst of requests is logged (rotating the file again) before the call returns.",
   technique="exhaustive crash-point enumeration over the compaction's file-system mutations with differential recovery oracle"),
 "C13": dict(level="exploration", design="4/C13",
   text="Complete enumeration of a bounded grammar of client byte streams (binary frames of all command types, flag products, value frames of every length/op/stage/flag on four kinds of existing values, boundary value operations, nested/truncated pipelines and executes with nested value frames, CALL frames with every DbId class, lock/unlock frames with every pair of timeout-flag bits x LockId relation on seven prepared key states, text reads of binary-stored typed values, every registered text command with 0..6 arguments, malformed RESP, all chunkings of short streams and 1-/2-cut splits of representative frames, pipelined batches answered with a value frame of EVERY length 6..1100 crossing the 4096-byte reply buffer), each played against a fresh full node next to a witness connection; any panic in a server thread is a crash. A further group sends text requests of every FLAG value (first command and after a PING, with and without value options) to a FOLLOWER of a live leader, witness included.",
   note="Trusted: instrumenter+runtime+vnet; the grammar bounds (no random/mutated streams claimed).",
   technique="bounded exhaustive input enumeration against the implementation under the deterministic runtime (panic = crash, witness-connection oracle)"),
 "C10": dict(level="model_checking", design="4/C10",
   text="All client request sequences to a depth, in binary and text protocol, are executed on twin two-node clusters of real node copies (leader + synced follower): directly against the leader and through the follower's port; replies and resulting states must agree; with the replication stream held the follower's own state must not change; forced non-leader states without a leader must refuse everything. Plus deviation-bounded schedule exploration of client requests in flight while a second thread runs the real role change (SLock.updateState), with a monitor at every shard-mutex release: no LockId becomes a holder while the db is not in leader state unless it comes from the log. The text alphabet includes requests carrying flag bits 4 and 5 (the mark of a request replayed from the log).",
   note="Trusted: instrumenter+runtime+vnet, one copy of package server per node (own globals). Default schedule inside handlers for the sequence part.",
   technique="bounded exhaustive enumeration of request sequences on multi-node instances of the implementation (differential oracle leader vs follower port) + deviation-bounded schedule DFS of requests vs role change"),
 "C09": dict(level="fault_enumeration", design="4/C09",
   text="For several workloads on a real leader+follower pair the leader->follower replication stream is cut after every byte offset (file-transfer and live phases, rotation, tiny ring buffer, values larger than the sender's batch buffer pipelined behind small records), with the follower's own reconnect logic running on virtual time, plus double cuts on a grid; at leader quiescence the follower's holds must equal the leader's. Plus deviation-bounded schedule exploration of two concurrent appenders (one per key shard) on a leader with its real log: the order of the replication ring must be the order of the log, without gaps. Workloads include a leader restarted before the join with the follower's 'started' frame held back while more records are committed than the ring holds, and rotations before the join; every uncut run stops the follower and restarts it on the directory its own synchronisation produced.",
   note="Trusted: instrumenter+runtime+vnet cut semantics (bytes beyond the cut dropped, both ends see the break), default schedule inside handlers.",
   technique="exhaustive fault-position enumeration (connection cut at every stream offset) on multi-node instances of the implementation, convergence oracle + deviation-bounded schedule DFS of concurrent appenders"),
 "C11": dict(level="fault_enumeration", design="4/C11",
   text="Exhaustive enumeration of acknowledgement fates (delivered / held / late / cut per follower) x follower count x ack mode x interference (duplicate request, unlock, queued request, demotion, leaving the leader role in QuitLeader's order) incl. follower refusals x value operation x grant path on real leader+follower clusters; SUCCED only with log write + quorum, otherwise error, hold removed, value restored, queue served. A further enumeration covers requests that carry the require-ack flag without creating a hold of their own (re-entrant lock, update, expiry 0), with the acknowledgements coming or not.",
   note="Trusted: instrumenter+runtime+vnet hold/cut semantics; default schedule inside handlers.",
   technique="exhaustive fault-sequence enumeration on multi-node instances of the implementation"),
 "C14": dict(level="exploration", design="4/C14",
   text="Exhaustive nested-loop enumerations on the plain protocol package (encode/decode identity over boundary products for all 20 command/result types, README offsets, decode/encode identity on defined bytes under all single- and in-field two-byte variations, text parser under every chunking of its own output, text rendering of every result code) plus text-vs-binary LOCK/UNLOCK equivalence on a full node for key/id strings of every length, every ordered pair of key lengths 1..40 on one reused connection, COUNT / RCOUNT boundary words, value-frame constructors read back through the accessors, binary frames in every two-read split (first and later frame of a connection), and deviation-bounded fine-mode schedule exploration of two server threads writing result frames to one connection. The constructor group builds value frames with property headers of 0..300 bytes and around the 16-bit length limit.",
   note="Trusted: the layout table of defined bytes (self-checked against Decode), per-field independence assumption, the independently computed key normalisation.",
   technique="bounded exhaustive input enumeration (all field-boundary products, all byte variations, all chunkings) on the implementation + deviation-bounded schedule DFS of concurrent result writers"),
 "C18": dict(level="exploration", design="4/C18",
   text="Exhaustive product of connection lifetimes (binary / text / admin text mode, INIT, 0..3 wills (text: 0..7), a will that can do nothing registered first, close cause, close instant relative to the queued request's timeout, reconnect before the close / before / after the late reply) on a full node with an observer connection; wills exactly once in order and not before the close, holds stay, queued request ends, nothing misrouted, node drains to zero. Cases include the WILL option given twice, a stranger announcing the all-zero client id after a connection that never announced one has gone, and connections made while the node was a follower that end after its promotion (leader killed, follower promoted by the real path).",
   note="Trusted: instrumenter+runtime+vnet; default schedule in handlers; three close instants.",
   technique="bounded exhaustive enumeration of fault/lifetime sequences on the implementation under the deterministic runtime"),
 "C19": dict(level="exploration", design="4/C19",
   text="Deviation-bounded exhaustive schedule exploration of 2-3 goroutines using the real Go client (instrumented copy) over the in-memory network against a full node, for Lock, RLock, Semaphore(n), MaxConcurrentFlow(n), RWLock, PriorityLock (two waiters, and three waiters in every arrival order) and Event, and of 4-20 goroutines sharing one connection; oracle on definitely-held intervals. Plus complete enumeration of call histories of every primitive (non-blocking calls on 2-3 objects over 1-2 connections plus clock ticks, to the leader and through a follower's forwarding port) compared call by call with the textbook primitive, and of every legitimate enter/leave/tick/writer history of ONE shared RWLock object over virtual time.",
   note="Trusted: instrumenter+runtime+vnet; coarse scheduling (handlers atomic between network operations); schedules: n in {1,2}, <=3 goroutines; histories: n in 1..3, depth 4-5 quick / 6-7 thorough; reconnects not covered.",
   technique="stateless model checking: deviation-bounded schedule DFS of client goroutines against the implementation + bounded exhaustive enumeration of call histories against a reference model of each primitive"),
 "C12": dict(level="exploration", design="4/C12",
   text="Explicit-state BFS at message granularity over the election protocol on real ArbiterManager objects (3-5 members incl. weight-0 members and arbiters, log positions across the wrap-around, permanently down links): 2-3 simultaneous candidates run the real DoVote/DoProposal/DoCommit, every vote / proposal / commit request is an event with fate delivered / lost / reply lost (bounded number of losses), a non-candidate member may be killed and restarted from its saved metadata between two events (real ArbiterStore.Save/Load), acceptors are the real handlers; invariants after every event: accepted and committed numbers never decrease, at most one candidacy gathers a commit majority, the member proposed is the newest eligible one among those that answered, a member with a newer log refuses. Plus deviation-bounded schedule exploration of the real election (vote / proposal / commit / announcement) between the two survivors of a 3-member replica set of real node copies after the leader was killed, with equal and unequal log positions, a majority-acknowledged lock, and a member kill-and-restart from saved metadata; invariants sampled every 20 virtual ms (numbers never decrease, never two leaders) and at the end (one leader, newest log, acknowledged lock survives). Log positions are encoded as the log writer makes them (file index, offset falling at a rotation); configurations with a dead leader and arbiters carry the invariant that every winner holds the acknowledged record.",
   note="Trusted: instrumenter+runtime+vnet, one package copy per member; coarse scheduling for the full-node part (3 members); message-level part: a candidate's own acceptance happens when its phase starts, no member restart.",
   technique="explicit-state model checking of the election protocol (BFS over message fates and delivery orders by replay on the real acceptor/candidate code) + deviation-bounded DFS over delivery orders of multi-node instances"),
}
# sub-checks added in the sixth seeded round, appended to the texts above
ROUND6 = {
 "C01": "An enumeration drives one key to 65534 / 65535 / 65536 holds and probes it with Count 5 / 0xfffe / 0xffff against the reference admission rule.",
 "C03": "The text alphabet includes a PUSH that queues behind the connection's own hold and is woken by its own UNLOCK; acknowledgement-required requests are also granted out of the queue of a counting key.",
 "C04": "Ramps of 145-147 waiters with a differing priority cross the boundary of the ring representation (146 in the quick tier).",
 "C06": "Schedule exploration also covers a renewal (update / re-entrant lock) of the hold on the very tick on which the sweeper has collected it, and a millisecond hold granted in the millisecond in which its slot is swept.",
 "C07": "A further spec follows a holder that joined later and inherits the key's value across the restart.",
 "C08": "The workload after the first restart carries values (the value file is appended to as well), and every cut image is also started as a follower and as a replica-set member.",
 "C10": "The first use of a database racing the step-down is explored with a per-database role oracle.",
 "C11": "Further fates: the LEADER's own log write fails at once or after a second while the followers acknowledge; further kind: a require-ack lock beside a holder that asked never to be logged.",
 "C12": "Configurations with a running leader and freshly restarted members check that whoever the leader itself has answered refuses proposals; the search prints the winners of every configuration so that a configuration in which nobody can win is noticed.",
 "C13": "Further groups: an EXECUTE frame whose embedded value frame and property block disagree in length with it (every combination, followed by every reader of the inner key on other connections); the replication hand-shake sent by an ordinary client followed by acknowledgement frames with short value frames; value operations on keys held by a logged hold of another LockId, also with the require-ack flag and expiry 0.",
 "C14": "Sequences of different reply forms are parsed by ONE parser object.",
 "C15": "The refused-operations search lets the other holder SHIFT and UNSET and lets two acknowledgement-required requests be pending at once; signatures name the kinds of operation involved.",
 "C17": "Schedule exploration includes the unlock / cancellation of a key's last record on the tick on which the sweeper has collected it.",
 "C18": "Connections made to the leader that end after the node has stepped down and follows the promoted follower (24 cases next to the 24 promotion cases).",
 "C19": "Two scenarios race a low-priority try-lock with the release of a PriorityLock that a high-priority request is queued on.",
 "C20": "Bulk symbols (fill the tail node and step into the next, drain, drain all but one) are searched to depth 14 and beyond together with reallocate / resize / restructure, the candidates of each level evaluated in parallel.",
}
for k, v in ROUND6.items():
    CHECKS[k]["text"] += " " + v
# ... and in the seventh
ROUND7 = {
 "C01": "One scenario parks a request between finding the key's manager and taking its mutex while the manager is released, goes round the free ring of 8 and is re-issued to another key.",
 "C03": "Queues of 3 / 9 waiters in which an answered waiter stays behind a live head and is cancelled again.",
 "C06": "Renewals that turn a timed hold into an unlimited one or give it the longest period.",
 "C07": "Log buffer 64 with rotation (a value-carrying record that fills the buffer triggers the rotation); the smallest minute-unit values; a renewed hold whose first record has lapsed.",
 "C10": "Replicated holds given in milliseconds on a follower whose leader is silent; an INIT frame in the middle of a connection, a holder the leader never logs next to concurrent-check requests, and a binary connection that switches to text with ADMIN, each against the leader and through a follower.",
 "C13": "Every stream runs under happens-before tracking (vector clocks over mutexes, atomics, channels, network, spawn) with every map access of the server instrumented: two accesses to one map, one of them a write, that are not ordered are reported as the pair the Go runtime kills the process for, whatever the timing; a group runs every listing / inspection command between writers of the slow-key map; a group sends acknowledgement-required show / update requests beside a hold that claims to come from the log.",
 "C14": "Every key-value command form between a LOCK and an UNLOCK without LOCK_ID on one text connection.",
 "C17": "An enumeration fills one key with 120..248 holders, releases them first-in first-out (every record is promoted to current holder and released as such, also those kept in the map-indexed form of the holder queue), lets one LockId come back and compares the reported counts with a census at every stage.",
}
ROUND7["C02"] = "The ownership alphabet includes UNLOCKs carrying both the unlock-first and the cancel-wait flag."
ROUND7["C05"] = "A bulk enumeration puts up to 1800 (thorough: 4000) waiters on one deadline second, cancels them in two batches (the long-wait table is compacted in place and then recycled) and sends a second wave."
ROUND7["C09"] = "One workload makes the sync bound the last record of a log file whose hold expires while the follower's started frame is late and the leader already writes into the next file."
for k, v in ROUND7.items():
    CHECKS[k]["text"] += " " + v
CHECKS["C13"]["technique"] += " + happens-before (vector-clock) race check on instrumented map accesses in every explored execution"

NA_DEFAULT = "check not built yet in this round (planned: see DESIGN.md section 4)"

checks = []
for i in ids:
    if i in CHECKS:
        c = CHECKS[i]
        checks.append({
            "property_id": i,
            "quick_cmd": f"./run.sh {i} quick",
            "thorough_cmd": f"./run.sh {i} thorough",
            "evidence_file": f"/verif/evidence/{i}.json",
            "replay_cmd_template": f"./run.sh {i} quick --replay {{path}}",
            "engine": "vrt",
            "level_claimed": {"category": c["level"], "text": c["text"], "design_ref": c["design"]},
            "level_note": c["note"],
            "technique": c["technique"],
        })
na = [{"property_id": i, "reason": NA_DEFAULT} for i in ids if i not in CHECKS]
m = {
 "version": 1,
 "setup_cmd": "./setup.sh",
 "hooks": {"guard": "verif", "enable": "no hooks in /repo: checks instrument a scratch copy of /repo's working tree (vinst) on every run; files tagged //go:build verif would be included",
           "baseline_off_cmd": "cd /repo && GOFLAGS=-mod=mod go test -vet=off -count=1 ./server/ ./protocol/", "source_commits": [], "add_only": True},
 "engines": [
   {"name": "vrt", "path": "/verif/vrt", "serves_properties": sorted(CHECKS), "kind_free_text": "deterministic single-runner runtime (virtual time, in-memory net and fs) + vinst source instrumenter + explore (deviation-bounded DFS, explicit-state BFS by replay, fault enumerators)"},
 ],
 "checks": checks,
 "not_applicable": na,
 "notes": "All checks rebuild the instrumented copies from /repo's current working tree (VERIF_REPO overrides). Exit 3 = engine error (never a verdict).",
}
json.dump(m, open(os.path.join(ROOT, "MANIFEST.json"), "w"), indent=1)
print("wrote MANIFEST.json with", len(checks), "checks,", len(na), "not_applicable")
