#!/usr/bin/env python3
"""Regenerates MANIFEST.json from the table below (kept in one place so it is always schema-valid)."""
import json, os
ROOT = os.path.dirname(os.path.dirname(os.path.abspath(__file__)))
props = [json.loads(l) for l in open(os.path.join(ROOT, "properties.jsonl"))]
ids = [p["id"] for p in props]

CHECKS = {
 "C01": dict(level="exploration", design="4/C01",
   text="Deviation-bounded exhaustive exploration of thread schedules of the real lock engine (instrumented copy under a deterministic runtime): 2-3 client threads on one key / two keys colliding in one fast slot, sweepers included; a transition monitor evaluates the grant rule keyed by (db,key) at every shard-mutex release. Exhaustive for <=2 (quick) / <=3 (thorough) scheduling deviations per scenario; not a proof for unbounded schedules.",
   note="Trusted: the instrumenter (syntactic rewrite of sync/atomic/chan/time/net/os onto the vrt runtime, gated by the repo's own 68 server tests passing on the rewritten copy), sequentially consistent memory, the scenario alphabet (Count 0/1, Rcount 0/1, short timeouts/expiries).",
   technique="stateless model checking of the implementation: deviation-bounded schedule DFS under a controlled scheduler"),
 "C02": dict(level="model_checking", design="4/C02",
   text="Explicit-state breadth-first search over all operation histories up to a depth (from the empty state and from ramped states with 5-7/127-130 holders and depth 253), each transition executed on the real engine and compared with a sequential reference model of ownership and re-entrant depth. Exhaustive within alphabet and depth.",
   note="Trusted: instrumenter+runtime (see C01), the RefLockDB reference (written from the documented semantics; disagreements on the unchanged tree were triaged by hand), the canonical state key used for merging (cross-checked against an unmerged tree at smaller depth).",
   technique="explicit-state model checking of the implementation: BFS over operation histories by replay, canonical-state deduplication, reference-model oracle"),
 "C03": dict(level="exploration", design="4/C03",
   text="Deviation-bounded exhaustive schedule exploration of client threads racing the timeout/expiry sweepers and wake-ups on the real engine, plus exhaustive operation histories to a depth, each drained; the reply multiset per connection is judged (exactly one terminal reply per request, at most one EXPRIED per grant, no foreign RequestId).",
   note="Trusted: instrumenter+runtime (see C01). In-memory connections only in this check; bounds: <=2/3 deviations, history depth 4/5.",
   technique="stateless model checking (deviation-bounded schedule DFS) + explicit-state BFS over histories, reply-multiset oracle"),
 "C04": dict(level="exploration", design="4/C04",
   text="Schedule exploration of unlockers / newcomers / cancellers / timeout sweeper (quiescent invariant: live head waiter never admissible; every waiter answered) plus exhaustive queueing histories from empty and ramped queues (7-9, 127-130 waiters, priority switch) against the reference grant order.",
   note="Trusted: instrumenter+runtime, RefLockDB's stable-priority-queue order; wait-when-unlocked excluded from the alphabet by design.",
   technique="stateless model checking (deviation-bounded schedule DFS) + explicit-state BFS over histories with reference-model oracle"),
 "C17": dict(level="model_checking", design="4/C17",
   text="Explicit-state BFS over histories: after every step the reported counts (LCount, LRCount, STATE counters) equal a census of the engine's live structures and the reference model; every state is drained and must be empty. The same census/drain oracle runs on all concurrent scenarios of C01/C03/C04 under deviation-bounded schedule exploration.",
   note="Trusted: instrumenter+runtime, the census walker (in-package harness), RefLockDB for LCount/LRCount.",
   technique="explicit-state model checking by replay (canonical-state BFS) + deviation-bounded schedule DFS, census oracle"),
 "C05": dict(level="exploration", design="4/C05",
   text="Exhaustive enumeration of timeout classes (unit x T in 0..40 + boundaries x enqueue phase x interference) each executed on the real engine with its own sweepers on virtual time, bounds checked on virtual timestamps; plus deviation-bounded schedule exploration of unlock/cancel racing the sweeper on the deadline tick.",
   note="Trusted: instrumenter+runtime; virtual time (zero-cost computation). Not all 65536 values of T, but every class the re-check ladder / long-wait table / millisecond wheel distinguishes.",
   technique="bounded exhaustive enumeration of input classes on the implementation under virtual time + deviation-bounded schedule DFS"),
 "C06": dict(level="exploration", design="4/C06",
   text="As C05 for expiries: every E in 1..40 + boundaries in three units, grant phases, and interference patterns (queued request served at expiry, unlock before deadline, re-lock, updates, unlimited, 200 holds on one deadline); plus schedule exploration of unlock racing the expiry sweeper.",
   note="Trusted: instrumenter+runtime; virtual time. Leader only (follower behaviour is C10).",
   technique="bounded exhaustive enumeration of input classes on the implementation under virtual time + deviation-bounded schedule DFS"),
 "C15": dict(level="model_checking", design="4/C15",
   text="Explicit-state BFS over histories of value operations carried on lock / re-lock / update / unlock / refused requests by several LockIds of one key; every transition executes the real engine; replies and the key's value are compared with a sequential interpreter written independently of ProcessLockData.",
   note="Trusted: instrumenter+runtime, RefValue (byte-level register semantics), RefLockDB for which requests take effect; cross-kind operations left open.",
   technique="explicit-state model checking by replay (canonical-state BFS) with a sequential reference interpreter as oracle"),
 "C20": dict(level="model_checking", design="4/C20",
   text="Explicit-state BFS over operation sequences on every internal queue type and constructor parameter set (from empty and from ramped states crossing the representation switches), each compared step by step with a plain slice deque / stable priority queue.",
   note="Trusted: the in-package queue driver (harness file), the operation contracts listed in evidence; Shrink excluded (unused, no contract).",
   technique="explicit-state model checking by replay of operation sequences with a reference deque as oracle"),
 "C07": dict(level="model_checking", design="4/C07",
   text="Explicit-state BFS over operation histories on a leader with its real append-only log; at every reached state the queue is drained, the node killed and a fresh node started on the same (in-memory) directory; recovered holds are compared with the persisted live holds before the stop (identity, depth, Count, Rcount, value, deadline tolerance), for several buffer sizes and a rotation threshold that spreads histories over several files.",
   note="Trusted: instrumenter+runtime, vos in-memory file system (completed write = durable), classification of 'persisted' from the statement (flag / age >= delay+2s).",
   technique="explicit-state model checking by replay with stop/restart at every state, differential oracle before/after restart"),
 "C08": dict(level="fault_enumeration", design="4/C08",
   text="For each workload history every truncation length of the newest append file and of its value file, and the directory image after every file-system call, is recovered by a fresh node: start must succeed, the recovered state must be that of a clean record prefix not longer than the complete records present, and a second restart must recover what was persisted after the first.",
   note="Trusted: instrumenter+runtime, vos in-memory file system and its FS-point numbering, the implementation's loader on record-boundary cuts as reference for prefix states.",
   technique="exhaustive crash-point / torn-write enumeration on the implementation with differential recovery oracle"),
 "C16": dict(level="fault_enumeration", design="4/C16",
   text="For workload histories spread over several append files plus a rewrite file, the directory image after every file-system mutation of every compaction is recovered and compared with the recovery of the pre-compaction image; completed compactions are compared with the same history logged without compaction.",
   note="Trusted: instrumenter+runtime, vos FS-point numbering, the loader as differential reference. Concurrent appends during compaction not explored.",
   technique="exhaustive crash-point enumeration over the compaction's file-system mutations with differential recovery oracle"),
 "C13": dict(level="exploration", design="4/C13",
   text="Complete enumeration of a bounded grammar of client byte streams (binary frames of all command types, flag products, value frames of every length/op/stage/flag on four kinds of existing values, boundary value operations, nested/truncated pipelines, CALL frames, every registered text command with 0..6 arguments, malformed RESP, all chunkings of short streams and 1-/2-cut splits of representative frames), each played against a fresh full node next to a witness connection; any panic in a server thread is a crash.",
   note="Trusted: instrumenter+runtime+vnet; the grammar bounds (no random/mutated streams claimed).",
   technique="bounded exhaustive input enumeration against the implementation under the deterministic runtime (panic = crash, witness-connection oracle)"),
 "C10": dict(level="model_checking", design="4/C10",
   text="All client request sequences to a depth, in binary and text protocol, are executed on twin two-node clusters of real node copies (leader + synced follower): directly against the leader and through the follower's port; replies and resulting states must agree; with the replication stream held the follower's own state must not change; forced non-leader states without a leader must refuse everything.",
   note="Trusted: instrumenter+runtime+vnet, one copy of package server per node (own globals). Default schedule inside handlers.",
   technique="bounded exhaustive enumeration of request sequences on multi-node instances of the implementation, differential oracle leader vs follower port"),
 "C09": dict(level="fault_enumeration", design="4/C09",
   text="For several workloads on a real leader+follower pair the leader->follower replication stream is cut after every byte offset (file-transfer and live phases, rotation, tiny ring buffer), with the follower's own reconnect logic running on virtual time, plus double cuts on a grid; at leader quiescence the follower's holds must equal the leader's.",
   note="Trusted: instrumenter+runtime+vnet cut semantics (bytes beyond the cut dropped, both ends see the break), default schedule inside handlers.",
   technique="exhaustive fault-position enumeration (connection cut at every stream offset) on multi-node instances of the implementation, convergence oracle"),
 "C11": dict(level="fault_enumeration", design="4/C11",
   text="Exhaustive enumeration of acknowledgement fates (delivered / held / late / cut per follower) x follower count x ack mode x interference (duplicate request, unlock, queued request, demotion) x value operation x grant path on real leader+follower clusters; SUCCED only with log write + quorum, otherwise error, hold removed, value restored, queue served.",
   note="Trusted: instrumenter+runtime+vnet hold/cut semantics; default schedule inside handlers.",
   technique="exhaustive fault-sequence enumeration on multi-node instances of the implementation"),
 "C14": dict(level="exploration", design="4/C14",
   text="Exhaustive nested-loop enumerations on the plain protocol package (encode/decode identity over boundary products for all 20 command/result types, README offsets, decode/encode identity on defined bytes under all single- and in-field two-byte variations, text parser under every chunking of its own output, text rendering of every result code) plus text-vs-binary LOCK/UNLOCK equivalence on a full node for key/id strings of every length.",
   note="Trusted: the layout table of defined bytes (self-checked against Decode), per-field independence assumption, the independently computed key normalisation.",
   technique="bounded exhaustive input enumeration (all field-boundary products, all byte variations, all chunkings) on the implementation"),
 "C18": dict(level="exploration", design="4/C18",
   text="Exhaustive product of connection lifetimes (protocol, INIT, 0..3 wills, close cause, close instant relative to the queued request's timeout, reconnect before/after the late reply) on a full node with an observer connection; wills exactly once in order and not before the close, holds stay, queued request ends, nothing misrouted, node drains to zero.",
   note="Trusted: instrumenter+runtime+vnet; default schedule in handlers; three close instants.",
   technique="bounded exhaustive enumeration of fault/lifetime sequences on the implementation under the deterministic runtime"),
 "C19": dict(level="exploration", design="4/C19",
   text="Deviation-bounded exhaustive schedule exploration of 2-3 goroutines using the real Go client (instrumented copy) over the in-memory network against a full node, for Lock, RLock, Semaphore(n), MaxConcurrentFlow(n), RWLock, PriorityLock and Event; oracle on definitely-held intervals.",
   note="Trusted: instrumenter+runtime+vnet; coarse scheduling (handlers atomic between network operations); n in {1,2}, <=3 goroutines.",
   technique="stateless model checking: deviation-bounded schedule DFS of client goroutines against the implementation"),
}
NA_DEFAULT = "check not built yet in this round (planned: see DESIGN.md section 4)"

checks = []
for i in ids:
    if i in CHECKS:
        c = CHECKS[i]
        checks.append({
            "property_id": i,
            "quick_cmd": f"./run.sh {i} quick",
            "thorough_cmd": f"./run.sh {i} thorough",
            "evidence_file": f"/verif/evidence/{i}.json",
            "replay_cmd_template": f"./run.sh {i} quick --replay {{path}}",
            "engine": "vrt",
            "level_claimed": {"category": c["level"], "text": c["text"], "design_ref": c["design"]},
            "level_note": c["note"],
            "technique": c["technique"],
        })
na = [{"property_id": i, "reason": NA_DEFAULT} for i in ids if i not in CHECKS]
m = {
 "version": 1,
 "setup_cmd": "./setup.sh",
 "hooks": {"guard": "verif", "enable": "no hooks in /repo: checks instrument a scratch copy of /repo's working tree (vinst) on every run; files tagged //go:build verif would be included",
           "baseline_off_cmd": "cd /repo && GOFLAGS=-mod=mod go test -vet=off -count=1 ./server/ ./protocol/", "source_commits": [], "add_only": True},
 "engines": [
   {"name": "vrt", "path": "/verif/vrt", "serves_properties": sorted(CHECKS), "kind_free_text": "deterministic single-runner runtime (virtual time, in-memory net and fs) + vinst source instrumenter + explore (deviation-bounded DFS, explicit-state BFS by replay, fault enumerators)"},
 ],
 "checks": checks,
 "not_applicable": na,
 "notes": "All checks rebuild the instrumented copies from /repo's current working tree (VERIF_REPO overrides). Exit 3 = engine error (never a verdict).",
}
json.dump(m, open(os.path.join(ROOT, "MANIFEST.json"), "w"), indent=1)
print("wrote MANIFEST.json with", len(checks), "checks,", len(na), "not_applicable")
