#!/bin/bash
# runs the repository's own pinned tests on /repo's working tree (all packages with tests)
export GOFLAGS=-mod=mod GOPROXY=off GOSUMDB=off GOTOOLCHAIN=local
cd "${1:-/repo}" && go build ./... && go test -vet=off -count=1 -timeout 25m ./... 2>&1 | grep -v "no test files" | tail -8
