#!/bin/bash
# runseeded.sh <seeded-dir> [check ids...]: applies seeded/<dir>/patch.diff to /repo, runs the repo baseline and
# the given checks (default: the property named in meta.json), restores /repo. Prints one line per check.
# With SEEDED_SCRATCH=1 the change is applied to a scratch worktree of /repo's HEAD instead (VERIF_REPO points the
# checks at it), so that /repo itself stays untouched while something else is reading it.
set -u
D="$(realpath "$1")"; shift
cd /verif
IDS="$@"
[ -z "$IDS" ] && IDS=$(python3 -c "import json;print(json.load(open('$D/meta.json'))['property'])")
export GOFLAGS=-mod=mod GOPROXY=off GOSUMDB=off GOTOOLCHAIN=local
if [ "${SEEDED_SCRATCH:-0}" = "1" ]; then
  R=/tmp/wt/mut_$$
  mkdir -p /tmp/wt
  git -C /repo worktree add -q --detach "$R" HEAD || exit 2
  trap 'git -C /repo worktree remove --force "$R" >/dev/null 2>&1' EXIT
  git -C "$R" apply "$D/patch.diff" || { echo "patch does not apply"; exit 2; }
  export VERIF_REPO="$R"
else
  R=/repo
  if ! git -C /repo diff --quiet; then echo "repo has local changes; abort"; exit 2; fi
  git -C /repo apply "$D/patch.diff" || { echo "patch does not apply"; exit 2; }
  trap 'git -C /repo checkout -- . >/dev/null 2>&1' EXIT
fi
( cd "$R" && go build ./... && go test -vet=off -count=1 ./server/ ./protocol/ >/tmp/seeded_base.log 2>&1 ) && echo "baseline: pass" || echo "baseline: FAIL (see /tmp/seeded_base.log)"
for id in $IDS; do
  s=$(date +%s)
  ./run.sh $id ${TIER:-quick} > /tmp/seeded_$id.log 2>&1; rc=$?
  e=$(date +%s)
  echo "$id rc=$rc $((e-s))s $(grep -c '^VIOLATION' /tmp/seeded_$id.log) violation lines; $(grep -m1 'finding\[' /tmp/seeded_$id.log | cut -c1-200)"
done
